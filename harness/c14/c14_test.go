// Package c14 evaluates the TLC-emitted selector table (label maps x label queries) at every site of
// the real code that evaluates selectors: LabelQueries.Matches, in-memory List, in-memory kind watch
// (bootstrap and live), the runtime's ResourceCache List (verif facade), and the gRPC stack (client
// translation -> wire -> server conversion) for List and Watch. TraceSelector judges.
package c14

import (
	"context"
	"fmt"
	"regexp"
	"sort"
	"strings"
	"testing"
	"testing/synctest"
	"time"

	"github.com/cosi-project/runtime/pkg/controller/runtime/options"
	"github.com/cosi-project/runtime/pkg/controller/runtime/verif"
	"github.com/cosi-project/runtime/pkg/resource"
	"github.com/cosi-project/runtime/pkg/state"
	"github.com/cosi-project/runtime/pkg/state/impl/inmem"
	"github.com/cosi-project/runtime/pkg/state/impl/namespaced"

	"verifharness/vh"
)

type Term struct {
	Op     string   `json:"op"`
	Vals   []string `json:"vals"`
	Invert bool     `json:"invert"`
}

type Table struct {
	Maps []string   `json:"maps"`
	Rows [][][]Term `json:"rows"`
}

type Line struct {
	Kind      string   `json:"kind"`
	Site      string   `json:"site"`
	Row       [][]Term `json:"row"`
	Re        string   `json:"re"`
	Matched   []string `json:"matched"`
	Reference []string `json:"reference"`
}

const ns = "n1"

var ops = map[string]resource.LabelOp{
	"exists": resource.LabelOpExists, "equal": resource.LabelOpEqual, "in": resource.LabelOpIn, "lt": resource.LabelOpLT,
	"lte": resource.LabelOpLTE, "ltnum": resource.LabelOpLTNumeric, "ltenum": resource.LabelOpLTENumeric,
}

func queries(row [][]Term) resource.LabelQueries {
	qs := resource.LabelQueries{}

	for _, q := range row {
		lq := resource.LabelQuery{}

		for _, t := range q {
			lq.Terms = append(lq.Terms, resource.LabelTerm{Key: "l", Op: ops[t.Op], Value: t.Vals, Invert: t.Invert})
		}

		qs = append(qs, lq)
	}

	return qs
}

func listOpts(row [][]Term) []state.ListOption {
	var res []state.ListOption

	for _, q := range queries(row) {
		res = append(res, state.WithLabelQuery(resource.RawLabelQuery(q)))
	}

	return res
}

func watchOpts(row [][]Term) []state.WatchKindOption {
	var res []state.WatchKindOption

	for _, q := range queries(row) {
		res = append(res, state.WatchWithLabelQuery(resource.RawLabelQuery(q)))
	}

	return res
}

// resources: one per label map; the id encodes the map
func mapID(i int) string { return fmt.Sprintf("m-%02d", i) }

func build(maps []string) []resource.Resource {
	res := []resource.Resource{}

	for i, m := range maps {
		labels := [][2]string{}

		switch {
		case m == "none":
		case m == "other":
			labels = append(labels, [2]string{"o", "1"})
		default:
			labels = append(labels, [2]string{"l", strings.TrimPrefix(m, "=")})
			if i%2 == 0 {
				labels = append(labels, [2]string{"o", "1"})
			}
		}

		res = append(res, vh.NewRes(vh.Key{NS: ns, Typ: vh.IntType, ID: mapID(i)}, vh.Obj{Spec: 1, Phase: "running", Labels: labels}))
	}

	return res
}

func names(maps []string, ids []string) []string {
	res := []string{}

	for _, id := range ids {
		var i int

		fmt.Sscanf(id, "m-%d", &i) //nolint:errcheck
		res = append(res, maps[i])
	}

	sort.Strings(res)

	return res
}

func listIDs(l resource.List, err error) []string {
	if err != nil {
		return []string{"!error: " + err.Error()}
	}

	ids := []string{}
	for _, r := range l.Items {
		ids = append(ids, r.Metadata().ID())
	}

	return ids
}

// watchIDs collects the ids of Created events of a bootstrap-contents watch up to its Bootstrapped event (the stream says itself
// when it is complete: no judgement by the clock, apart from a generous overall limit that shows up in the result).
func watchIDs(ch <-chan state.Event, want int) []string {
	ids := []string{}
	timeout := time.After(60 * time.Second)

	for {
		select {
		case ev := <-ch:
			switch ev.Type {
			case state.Created:
				ids = append(ids, ev.Resource.Metadata().ID())
			case state.Bootstrapped:
				return ids
			case state.Errored:
				return append(ids, "!errored: "+ev.Error.Error())
			}

			if want > 0 && len(ids) == want {
				return ids
			}
		case <-timeout:
			return append(ids, "!timeout: no Bootstrapped event")
		}
	}
}

func TestSelectors(t *testing.T) {
	var tab Table

	if err := vh.ReadJSON(vh.Env("VERIF_IN"), &tab); err != nil {
		t.Fatal(err)
	}

	tr, err := vh.NewTrace(vh.Env("VERIF_OUT"))
	if err != nil {
		t.Fatal(err)
	}

	defer tr.Close() //nolint:errcheck

	ctx, cancel := context.WithCancel(context.Background())
	defer cancel()

	kind := resource.NewMetadata(ns, vh.IntType, "", resource.VersionUndefined)
	resources := build(tab.Maps)

	// site states
	direct := state.WrapCore(namespaced.NewState(inmem.Build))
	backing := state.WrapCore(namespaced.NewState(inmem.Build))
	_, remote := vh.NewRemote(t, backing)
	cache := verif.NewResourceCache([]options.CachedResource{{Namespace: ns, Type: vh.IntType}})

	for _, r := range resources {
		if err = direct.Create(ctx, r.DeepCopy()); err != nil {
			t.Fatal(err)
		}

		if err = backing.Create(ctx, r.DeepCopy()); err != nil {
			t.Fatal(err)
		}

		cache.CacheAppend(r.DeepCopy())
	}

	cache.MarkBootstrapped(ns, vh.IntType)

	emit := func(site string, row [][]Term, ids []string) {
		if row == nil {
			row = [][]Term{}
		}

		for i := range row {
			if row[i] == nil {
				row[i] = []Term{}
			}

			for k := range row[i] {
				if row[i][k].Vals == nil {
					row[i][k].Vals = []string{}
				}
			}
		}

		tr.Emit(Line{Kind: "label", Site: site, Row: row, Matched: names(tab.Maps, ids), Reference: []string{}})
	}

	for ri, row := range tab.Rows {
		qs := queries(row)

		// 1. the matcher itself
		ids := []string{}

		for _, r := range resources {
			if qs.Matches(*r.Metadata().Labels()) {
				ids = append(ids, r.Metadata().ID())
			}
		}

		emit("matches", row, ids)

		// 2. in-memory List
		emit("inmem-list", row, listIDs(direct.List(ctx, kind, listOpts(row)...)))

		// 3. runtime cache List
		emit("cache-list", row, listIDs(cache.List(ctx, kind, listOpts(row)...)))

		// 4. gRPC List (client translation -> server conversion)
		emit("remote-list", row, listIDs(remote.List(ctx, kind, listOpts(row)...)))

		// watches are slower: every 3rd row (all rows in the thorough tier)
		if vh.EnvInt("VERIF_ALL_WATCHES", 0) == 0 && ri%3 != 0 {
			continue
		}

		// 5. in-memory kind watch, bootstrap contents
		func() {
			wctx, wcancel := context.WithCancel(ctx)
			defer wcancel()

			ch := make(chan state.Event)
			if werr := direct.WatchKind(wctx, kind, ch, append(watchOpts(row), state.WithBootstrapContents(true))...); werr != nil {
				emit("inmem-watch-bootstrap", row, []string{"!error: " + werr.Error()})

				return
			}

			emit("inmem-watch-bootstrap", row, watchIDs(ch, -1))
		}()

		// 6. gRPC kind watch, bootstrap contents
		func() {
			wctx, wcancel := context.WithCancel(ctx)
			defer wcancel()

			ch := make(chan state.Event)
			if werr := remote.WatchKind(wctx, kind, ch, append(watchOpts(row), state.WithBootstrapContents(true))...); werr != nil {
				emit("remote-watch-bootstrap", row, []string{"!error: " + werr.Error()})

				return
			}

			emit("remote-watch-bootstrap", row, watchIDs(ch, -1))
		}()

		// 7. in-memory kind watch, live: a filtered watch on an empty state, then the resources are created
		// (in a bubble: "everything that was to be delivered has been delivered" is decided by quiescence, not by the clock)
		synctest.Test(t, func(t *testing.T) {
			wctx, wcancel := context.WithCancel(context.Background())
			defer wcancel()

			live := state.WrapCore(namespaced.NewState(inmem.Build))
			ch := make(chan state.Event)

			if werr := live.WatchKind(wctx, kind, ch, watchOpts(row)...); werr != nil {
				emit("inmem-watch-live", row, []string{"!error: " + werr.Error()})

				return
			}

			for _, r := range resources {
				if cerr := live.Create(wctx, r.DeepCopy()); cerr != nil {
					t.Fatal(cerr)
				}
			}

			ids := []string{}

			for {
				synctest.Wait()

				select {
				case ev := <-ch:
					switch ev.Type { //nolint:exhaustive
					case state.Created:
						ids = append(ids, ev.Resource.Metadata().ID())
					case state.Errored:
						ids = append(ids, "!errored: "+ev.Error.Error())
					}

					continue
				default:
				}

				break
			}

			emit("inmem-watch-live", row, ids)

			wcancel()
			synctest.Wait()
		})
	}

	// ID queries: every site must agree with regexp.MatchString
	// the shapes a regexp can take around a literal: unanchored, anchored on one or both sides (^$, \A\z, a group), quoted
	// meta characters, case folding; the literals are proper sub-strings of several IDs, so that "is the ID" and "is inside
	// the ID" differ
	for _, re := range []string{
		"^m-01$", "m-.*[02]$", "m-0[0-3]|m-11", "", "^$", "m",
		"^m-0$", "^m-0", "-01$", "^01$", `\Am-1\z`, `\Am-01\z`, "^(m-01)$", "^(?:m-0)$", `^m\-0$`, `^m\-01$`, "(?i)^M-01$", "(?i)^M-0$", "^m$", "01",
	} {
		var opts []state.ListOption

		ref := []string{}

		if re != "" {
			rx := regexp.MustCompile(re)
			opts = append(opts, state.WithIDQuery(resource.IDRegexpMatch(rx)))

			for _, r := range resources {
				if rx.MatchString(r.Metadata().ID()) {
					ref = append(ref, r.Metadata().ID())
				}
			}
		} else {
			for _, r := range resources {
				ref = append(ref, r.Metadata().ID())
			}
		}

		// kind watches with an ID query (bootstrap contents), in memory and through gRPC
		watchSite := func(st state.CoreState) []string {
			wctx, wcancel := context.WithCancel(ctx)
			defer wcancel()

			wopts := []state.WatchKindOption{state.WithBootstrapContents(true)}
			if re != "" {
				wopts = append(wopts, state.WatchWithIDQuery(resource.IDRegexpMatch(regexp.MustCompile(re))))
			}

			ch := make(chan state.Event)
			if werr := st.WatchKind(wctx, kind, ch, wopts...); werr != nil {
				return []string{"!error: " + werr.Error()}
			}

			return watchIDs(ch, -1)
		}

		for site, ids := range map[string][]string{
			"inmem-list":             listIDs(direct.List(ctx, kind, opts...)),
			"cache-list":             listIDs(cache.List(ctx, kind, opts...)),
			"remote-list":            listIDs(remote.List(ctx, kind, opts...)),
			"inmem-watch-bootstrap":  watchSite(direct),
			"remote-watch-bootstrap": watchSite(remote),
		} {
			tr.Emit(Line{Kind: "id", Site: site, Row: [][]Term{}, Re: re, Matched: names(tab.Maps, ids), Reference: names(tab.Maps, ref)})
		}
	}
}
