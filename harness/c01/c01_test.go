// Package c01 drives every CoreState stack with TLC-generated request sequences (sequential
// replay) and with concurrent client programs (linearizability histories). It only records.
package c01

import (
	"context"
	"fmt"
	"math/rand"
	"os"
	"runtime"
	"strings"
	"sync"
	"sync/atomic"
	"testing"

	"verifharness/vh"
)

func stacks() []string {
	if s := os.Getenv("VERIF_STACKS"); s != "" {
		return strings.Split(s, ",")
	}

	return vh.StackNames
}

// TestSeq: VERIF_IN = JSON list of behaviours (lists of requests); VERIF_OUT = ndjson trace.
func TestSeq(t *testing.T) {
	var behs [][]vh.Req

	if err := vh.ReadJSON(vh.Env("VERIF_IN"), &behs); err != nil {
		t.Fatal(err)
	}

	tr, err := vh.NewTrace(vh.Env("VERIF_OUT"))
	if err != nil {
		t.Fatal(err)
	}

	defer tr.Close() //nolint:errcheck

	ctx := context.Background()

	for _, stack := range stacks() {
		for bi, beh := range behs {
			func() {
				sub := &subT{TB: t}
				defer sub.done()

				st := vh.NewStack(sub, stack)
				crs := &vh.CrMap{}
				tid := fmt.Sprintf("%s#%d", stack, bi)

				tr.Emit(map[string]any{"ev": "reset", "tid": tid})

				for i, rq := range beh {
					cls, pv, out, errText := vh.Exec(ctx, st, rq, crs, bi+i)
					tr.Emit(vh.OpRec{Ev: "op", Tid: tid, Req: rq, Cls: cls, Pv: pv, Out: out, Contents: vh.Dump(ctx, st, crs), Err: errText})
				}
			}()
		}
	}
}

// subT lets a stack be torn down at the end of each behaviour instead of at test end.
type subT struct {
	testing.TB
	cleanups []func()
}

func (s *subT) Cleanup(f func()) { s.cleanups = append(s.cleanups, f) }
func (s *subT) TempDir() string {
	d, err := os.MkdirTemp("", "vh")
	if err != nil {
		s.Fatal(err)
	}

	s.cleanups = append(s.cleanups, func() { os.RemoveAll(d) }) //nolint:errcheck

	return d
}

func (s *subT) done() {
	for i := len(s.cleanups) - 1; i >= 0; i-- {
		s.cleanups[i]()
	}
}

// CallRec is a call or return event of a concurrent history.
type CallRec struct {
	Ev       string            `json:"ev"` // call | ret | reset | end
	Tid      string            `json:"tid"`
	C        int               `json:"c"`
	Req      vh.Req            `json:"req"`
	Cls      string            `json:"cls"`
	Pv       map[string]string `json:"pv"`
	Out      []vh.KV           `json:"out"`
	Contents []vh.KV           `json:"contents"`
}

// TestConc: concurrent clients run TLC-generated programs on real threads. Events are appended to
// the trace under one mutex: the call event is logged before the call starts and the return event
// after it returned, so the logged order is consistent with real time.
func TestConc(t *testing.T) {
	var behs [][]vh.Req

	if err := vh.ReadJSON(vh.Env("VERIF_IN"), &behs); err != nil {
		t.Fatal(err)
	}

	tr, err := vh.NewTrace(vh.Env("VERIF_OUT"))
	if err != nil {
		t.Fatal(err)
	}

	defer tr.Close() //nolint:errcheck

	seed := int64(vh.EnvInt("VERIF_SEED", 1))
	clients := vh.EnvInt("VERIF_CLIENTS", 3)
	ctx := context.Background()

	for si, stack := range stacks() {
		if stack == "bolt-faulty" { // injected failures are judged in the sequential replay (and by the hook traces)
			continue
		}

		for bi, beh := range behs {
			func() {
				sub := &subT{TB: t}
				defer sub.done()

				rng := rand.New(rand.NewSource(seed*7919 + int64(si*100003+bi)))
				prev := runtime.GOMAXPROCS([]int{1, 2, 4, 16}[rng.Intn(4)])
				defer runtime.GOMAXPROCS(prev)

				st := vh.NewStack(sub, stack)
				crs := &vh.CrMap{}
				tid := fmt.Sprintf("%s#c%d", stack, bi)

				tr.Emit(map[string]any{"ev": "reset", "tid": tid})

				// the generated behaviour is dealt round-robin to the clients; all requests are
				// restricted to two keys so that the clients really contend
				progs := make([][]vh.Req, clients)

				for i, rq := range beh {
					rq.K.NS, rq.K.Typ = "n1", vh.IntType
					progs[i%clients] = append(progs[i%clients], rq)
				}

				var (
					wg  sync.WaitGroup
					mu  sync.Mutex
					seq atomic.Int64
				)

				start := make(chan struct{})

				for c := range clients {
					wg.Add(1)

					yields := rng.Intn(3)

					go func() {
						defer wg.Done()

						<-start

						for i, rq := range progs[c] {
							// stale versions make most updates fail; re-read to make contention real
							if rq.Op == "update" && i%2 == 0 {
								if r, gerr := st.Get(ctx, rq.K.Pointer()); gerr == nil {
									rq.Obj.Ver = vh.VersionInt(r.Metadata().Version())
								}
							}

							mu.Lock()
							tr.Emit(CallRec{Ev: "call", Tid: tid, C: c, Req: rq, Pv: map[string]string{}, Out: []vh.KV{}, Contents: []vh.KV{}})
							mu.Unlock()

							for range yields {
								runtime.Gosched()
							}

							cls, pv, out, _ := vh.Exec(ctx, st, rq, crs, int(seq.Add(1)))

							mu.Lock()
							tr.Emit(CallRec{Ev: "ret", Tid: tid, C: c, Req: rq, Cls: cls, Pv: pv, Out: out, Contents: []vh.KV{}})
							mu.Unlock()
						}
					}()
				}

				close(start)
				wg.Wait()

				tr.Emit(CallRec{Ev: "end", Tid: tid, Pv: map[string]string{}, Out: []vh.KV{}, Contents: vh.Dump(ctx, st, crs)})
			}()
		}
	}
}
