package c01

import (
	"context"
	"errors"
	"fmt"
	"testing"

	"github.com/cosi-project/runtime/pkg/resource"
	"github.com/cosi-project/runtime/pkg/state"
	"github.com/cosi-project/runtime/pkg/state/impl/inmem"
	"github.com/cosi-project/runtime/pkg/state/impl/namespaced"

	"verifharness/vh"
)

var errDenied = errors.New("denied by the rule")

// counting wraps a CoreState and remembers how many calls reached it and the class of the last result.
type counting struct {
	inner state.CoreState
	n     int
	cls   string
}

func (c *counting) note(err error) error {
	c.n++
	c.cls = vh.Class(err)

	return err
}

func (c *counting) Get(ctx context.Context, p resource.Pointer, o ...state.GetOption) (resource.Resource, error) { //nolint:ireturn
	r, err := c.inner.Get(ctx, p, o...)

	return r, c.note(err)
}

func (c *counting) List(ctx context.Context, k resource.Kind, o ...state.ListOption) (resource.List, error) {
	l, err := c.inner.List(ctx, k, o...)

	return l, c.note(err)
}

func (c *counting) Create(ctx context.Context, r resource.Resource, o ...state.CreateOption) error {
	return c.note(c.inner.Create(ctx, r, o...))
}

func (c *counting) Update(ctx context.Context, r resource.Resource, o ...state.UpdateOption) error {
	return c.note(c.inner.Update(ctx, r, o...))
}

func (c *counting) Destroy(ctx context.Context, p resource.Pointer, o ...state.DestroyOption) error {
	return c.note(c.inner.Destroy(ctx, p, o...))
}

func (c *counting) Watch(ctx context.Context, p resource.Pointer, ch chan<- state.Event, o ...state.WatchOption) error {
	return c.note(c.inner.Watch(ctx, p, ch, o...))
}

func (c *counting) WatchKind(ctx context.Context, k resource.Kind, ch chan<- state.Event, o ...state.WatchKindOption) error {
	return c.note(c.inner.WatchKind(ctx, k, ch, o...))
}

func (c *counting) WatchKindAggregated(ctx context.Context, k resource.Kind, ch chan<- []state.Event, o ...state.WatchKindOption) error {
	return c.note(c.inner.WatchKindAggregated(ctx, k, ch, o...))
}

type accessRec struct {
	NS   string `json:"ns"`
	Typ  string `json:"typ"`
	ID   string `json:"id"`
	Verb string `json:"verb"`
}

var verbName = map[state.Verb]string{
	state.Get: "get", state.List: "list", state.Watch: "watch", state.Create: "create", state.Update: "update", state.Destroy: "destroy",
}

// deny is Filter.tla's Deny.
func deny(a accessRec) bool {
	switch {
	case (a.Verb == "create" || a.Verb == "update" || a.Verb == "destroy") && a.ID == "b":
		return true
	case a.Verb == "list" && a.Typ == vh.StrType:
		return true
	case a.Verb == "watch" && a.ID == "a":
		return true
	case a.Verb == "get" && a.NS == "n2":
		return true
	}

	return false
}

// TestFilter sends TLC-generated requests (and the three watch calls for every key) through state.Filter.
func TestFilter(t *testing.T) {
	var behs [][]vh.Req

	if err := vh.ReadJSON(vh.Env("VERIF_IN"), &behs); err != nil {
		t.Fatal(err)
	}

	tr, err := vh.NewTrace(vh.Env("VERIF_OUT"))
	if err != nil {
		t.Fatal(err)
	}

	defer tr.Close() //nolint:errcheck

	for bi, beh := range behs {
		ctx, cancel := context.WithCancel(context.Background())
		cnt := &counting{inner: namespaced.NewState(inmem.Build)}

		var (
			seen  []accessRec
			tid   = fmt.Sprintf("f#%d", bi)
			calls int
		)

		st := state.Filter(cnt, func(_ context.Context, a state.Access) error {
			rec := accessRec{NS: a.ResourceNamespace, Typ: a.ResourceType, ID: a.ResourceID, Verb: verbName[a.Verb]}
			seen = append(seen, rec)
			calls++

			if deny(rec) {
				return errDenied
			}

			return nil
		})

		emit := func(op string, k vh.Key, callErr error, cls string) {
			if errors.Is(callErr, errDenied) {
				cls = "denied"
			}

			acc := accessRec{}
			if len(seen) > 0 {
				acc = seen[len(seen)-1]
			}

			tr.Emit(map[string]any{"ev": "call", "tid": tid, "op": op, "k": k, "acc": acc, "ncalls": calls, "ninner": cnt.n, "cls": cls, "innercls": cnt.cls})
		}

		tr.Emit(map[string]any{"ev": "reset", "tid": tid})

		for i, rq := range beh {
			seen, calls, cnt.n, cnt.cls = nil, 0, 0, ""

			// exactly one API call (vh.Exec would read back after writes)
			var callErr error

			switch rq.Op {
			case "create":
				callErr = st.Create(ctx, vh.NewRes(rq.K, rq.Obj), state.WithCreateOwner(rq.Owner))
			case "update":
				callErr = st.Update(ctx, vh.NewRes(rq.K, rq.Obj), state.WithUpdateOwner(rq.Owner), state.WithExpectedPhaseAny())
			case "destroy":
				callErr = st.Destroy(ctx, rq.K.Pointer(), state.WithDestroyOwner(rq.Owner))
			case "get":
				_, callErr = st.Get(ctx, rq.K.Pointer())
			case "list":
				_, callErr = st.List(ctx, rq.K.Pointer())
			}

			emit(rq.Op, rq.K, callErr, vh.Class(callErr))

			if i%4 != 0 { // not after every request: the watches stay open until the behaviour ends
				continue
			}

			// the three watch calls on the request's key
			for _, w := range []string{"watch", "watchkind", "watchkindagg"} {
				seen, calls, cnt.n, cnt.cls = nil, 0, 0, ""

				var werr error

				switch w {
				case "watch":
					werr = st.Watch(ctx, rq.K.Pointer(), make(chan state.Event, 16))
				case "watchkind":
					werr = st.WatchKind(ctx, rq.K.Pointer(), make(chan state.Event, 16))
				case "watchkindagg":
					werr = st.WatchKindAggregated(ctx, rq.K.Pointer(), make(chan []state.Event, 16))
				}

				emit(w, rq.K, werr, vh.Class(werr))
			}
		}

		cancel()
	}
}
