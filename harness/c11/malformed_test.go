package c11

import (
	"context"
	"fmt"
	"io"
	"net"
	"os"
	"os/exec"
	"path/filepath"
	"testing"
	"time"

	"google.golang.org/grpc"
	"google.golang.org/grpc/credentials/insecure"
	"google.golang.org/grpc/status"
	"google.golang.org/protobuf/types/known/timestamppb"

	"github.com/cosi-project/runtime/api/v1alpha1"
	"github.com/cosi-project/runtime/pkg/state"
	"github.com/cosi-project/runtime/pkg/state/impl/inmem"
	"github.com/cosi-project/runtime/pkg/state/impl/namespaced"
	"github.com/cosi-project/runtime/pkg/state/protobuf/server"

	"verifharness/vh"
)

// TestServe is the child process: a real server on the socket given by VERIF_SOCK, until killed.
func TestServe(t *testing.T) {
	sock := os.Getenv("VERIF_SOCK")
	if sock == "" {
		t.Skip("child mode only")
	}

	backing := state.WrapCore(namespaced.NewState(inmem.Build))

	// something to read, tear down and destroy
	for _, id := range []string{"a", "b"} {
		if err := backing.Create(context.Background(), vh.NewRes(vh.Key{NS: "n1", Typ: vh.IntType, ID: id}, vh.Obj{Spec: 1, Phase: "running", Labels: [][2]string{{"l", "x"}}})); err != nil {
			t.Fatal(err)
		}
	}

	l, err := (&net.ListenConfig{}).Listen(context.Background(), "unix", sock)
	if err != nil {
		t.Fatal(err)
	}

	srv := grpc.NewServer()
	v1alpha1.RegisterStateServer(srv, server.NewState(backing))

	fmt.Println("SERVING")

	srv.Serve(l) //nolint:errcheck
}

type Shape struct {
	Rpc    string `json:"rpc"`
	Res    string `json:"res"`
	Phase  string `json:"phase"`
	Lop    string `json:"lop"`
	Nval   int    `json:"nval"`
	Invert bool   `json:"invert"`
	Re     string `json:"re"`
	W      string `json:"w"`
	NoOpt  bool   `json:"noopt"`
}

type MLine struct {
	Shape
	Code  string `json:"code"`
	Alive bool   `json:"alive"`
	Note  string `json:"note"`
}

var lops = map[string]v1alpha1.LabelTerm_Operation{
	"EXISTS": v1alpha1.LabelTerm_EXISTS, "EQUAL": v1alpha1.LabelTerm_EQUAL, "NOT_EXISTS": v1alpha1.LabelTerm_NOT_EXISTS, //nolint:staticcheck
	"IN": v1alpha1.LabelTerm_IN, "LT": v1alpha1.LabelTerm_LT, "LTE": v1alpha1.LabelTerm_LTE,
	"LT_NUMERIC": v1alpha1.LabelTerm_LT_NUMERIC, "LTE_NUMERIC": v1alpha1.LabelTerm_LTE_NUMERIC, "UNKNOWN99": 99,
}

func labelQuery(s Shape) []*v1alpha1.LabelQuery {
	if s.Lop == "none" {
		return nil
	}

	return []*v1alpha1.LabelQuery{{Terms: []*v1alpha1.LabelTerm{{Key: "l", Op: lops[s.Lop], Value: []string{"x", "7"}[:s.Nval], Invert: s.Invert}}}}
}

func idQuery(s Shape) *v1alpha1.IDQuery {
	switch s.Re {
	case "ok":
		return &v1alpha1.IDQuery{Regexp: "^a$"}
	case "bad":
		return &v1alpha1.IDQuery{Regexp: "(["}
	}

	return nil
}

func resourceOf(s Shape) *v1alpha1.Resource {
	md := &v1alpha1.Metadata{Namespace: "n1", Type: vh.IntType, Id: "a", Version: "1", Phase: "running", Created: timestamppb.Now(), Updated: timestamppb.Now()}
	spec := &v1alpha1.Spec{ProtoSpec: []byte{2}}

	switch s.Res {
	case "absent":
		return nil
	case "nometa":
		return &v1alpha1.Resource{Spec: spec}
	case "nospec":
		return &v1alpha1.Resource{Metadata: md}
	case "badversion":
		md.Version = "not-a-number"
	case "badphase":
		md.Phase = "sideways"
	case "garbagespec":
		spec = &v1alpha1.Spec{ProtoSpec: []byte{0xff, 0xff, 0xff, 0xff, 0xff, 0xff, 0xff, 0xff, 0xff, 0xff, 0x7f}, YamlSpec: ":\n  - ]["}
	}

	return &v1alpha1.Resource{Metadata: md, Spec: spec}
}

// send issues the request of shape s; returns the status code name.
func send(ctx context.Context, cl v1alpha1.StateClient, s Shape) string {
	ctx, cancel := context.WithTimeout(ctx, 2*time.Second)
	defer cancel()

	var err error

	switch s.Rpc {
	case "Get":
		req := &v1alpha1.GetRequest{Namespace: "n1", Type: vh.IntType, Id: "a"}
		if s.Res == "absent" {
			req = &v1alpha1.GetRequest{}
		}

		_, err = cl.Get(ctx, req)
	case "Destroy":
		req := &v1alpha1.DestroyRequest{Namespace: "n1", Type: vh.IntType, Id: "zz", Options: &v1alpha1.DestroyOptions{}}
		if s.Res == "absent" {
			req = &v1alpha1.DestroyRequest{}
		}

		if s.NoOpt {
			req.Options = nil
		}

		_, err = cl.Destroy(ctx, req)
	case "Teardown":
		req := &v1alpha1.TeardownRequest{Namespace: "n1", Type: vh.IntType, Id: "b", Options: &v1alpha1.TeardownOptions{}}
		if s.Res == "absent" {
			req = &v1alpha1.TeardownRequest{}
		}

		if s.NoOpt {
			req.Options = nil
		}

		_, err = cl.Teardown(ctx, req)
	case "TeardownAndDestroy":
		req := &v1alpha1.TeardownAndDestroyRequest{Namespace: "n1", Type: vh.IntType, Id: "zz", Options: &v1alpha1.TeardownAndDestroyOptions{}}
		if s.Res == "absent" {
			req = &v1alpha1.TeardownAndDestroyRequest{}
		}

		if s.NoOpt {
			req.Options = nil
		}

		_, err = cl.TeardownAndDestroy(ctx, req)
	case "Create":
		r := resourceOf(s)
		if r != nil && r.Metadata != nil {
			r.Metadata.Id = fmt.Sprintf("c%d", time.Now().UnixNano())
			r.Metadata.Version = map[bool]string{true: r.Metadata.Version, false: "undefined"}[s.Res == "badversion"]
		}

		creq := &v1alpha1.CreateRequest{Resource: r, Options: &v1alpha1.CreateOptions{}}
		if s.NoOpt {
			creq.Options = nil
		}

		_, err = cl.Create(ctx, creq)
	case "Update":
		opts := &v1alpha1.UpdateOptions{}

		switch s.Phase {
		case "running":
			opts.ExpectedPhase = new("running")
		case "bogus":
			opts.ExpectedPhase = new("sideways")
		}

		ureq := &v1alpha1.UpdateRequest{NewResource: resourceOf(s), Options: opts}
		if s.NoOpt {
			ureq.Options = nil
		}

		_, err = cl.Update(ctx, ureq)
	case "List":
		var stream v1alpha1.State_ListClient

		lreq := &v1alpha1.ListRequest{Namespace: "n1", Type: vh.IntType, Options: &v1alpha1.ListOptions{LabelQuery: labelQuery(s), IdQuery: idQuery(s)}}
		if s.NoOpt {
			lreq.Options = nil
		}

		stream, err = cl.List(ctx, lreq)
		if err == nil {
			for {
				if _, err = stream.Recv(); err != nil {
					break
				}
			}

			if err == io.EOF {
				err = nil
			}
		}
	case "Watch":
		req := &v1alpha1.WatchRequest{Namespace: "n1", Type: vh.IntType, ApiVersion: 1, Options: &v1alpha1.WatchOptions{LabelQuery: labelQuery(s), IdQuery: idQuery(s)}}

		switch s.W {
		case "kind-agg":
			req.Options.Aggregated = true
		case "id":
			req.Id = new("a")
		case "id-bootstrap":
			req.Id = new("a")
			req.Options.BootstrapContents = true
		case "id-tail-neg":
			req.Id = new("a")
			req.Options.TailEvents = -3
		case "kind-tail-neg":
			req.Options.TailEvents = -3
		case "kind-garbage-bookmark":
			req.Options.StartFromBookmark = []byte("garbage")
		case "id-garbage-bookmark":
			req.Id = new("a")
			req.Options.StartFromBookmark = []byte{1, 2, 3, 4, 5, 6, 7, 8, 9, 10, 11, 12, 13, 14, 15, 16}
		case "kind-empty-bookmark":
			req.Options.StartFromBookmark = []byte{}
		case "kind-bootstrap-and-tail":
			req.Options.BootstrapContents = true
			req.Options.TailEvents = 2
		case "kind-api0":
			req.ApiVersion = 0
			req.Options.BootstrapContents = true
		case "id-api0":
			req.Id = new("a")
			req.ApiVersion = 0
		}

		if s.NoOpt {
			req.Options = nil
		}

		var stream v1alpha1.State_WatchClient

		stream, err = cl.Watch(ctx, req)
		if err == nil {
			// the first message tells whether the watch was accepted
			_, err = stream.Recv()
		}
	}

	if err == nil {
		return "OK"
	}

	return status.Code(err).String()
}

type child struct {
	cmd  *exec.Cmd
	conn *grpc.ClientConn
	cl   v1alpha1.StateClient
	sock string
}

func startChild(t *testing.T, dir string, n int) *child {
	sock := filepath.Join(dir, fmt.Sprintf("s%d.sock", n))
	cmd := exec.Command(os.Args[0], "-test.run", "^TestServe$", "-test.count=1")
	cmd.Env = append(os.Environ(), "VERIF_SOCK="+sock)

	if err := cmd.Start(); err != nil {
		t.Fatal(err)
	}

	for range 200 {
		if _, err := os.Stat(sock); err == nil {
			break
		}

		time.Sleep(10 * time.Millisecond)
	}

	conn, err := grpc.NewClient("unix://"+sock, grpc.WithTransportCredentials(insecure.NewCredentials()))
	if err != nil {
		t.Fatal(err)
	}

	return &child{cmd: cmd, conn: conn, cl: v1alpha1.NewStateClient(conn), sock: sock}
}

func (c *child) alive() bool {
	ctx, cancel := context.WithTimeout(context.Background(), 2*time.Second)
	defer cancel()

	_, err := c.cl.Get(ctx, &v1alpha1.GetRequest{Namespace: "n1", Type: vh.IntType, Id: "a"})

	return err == nil
}

func (c *child) stop() {
	c.conn.Close()       //nolint:errcheck
	c.cmd.Process.Kill() //nolint:errcheck
	c.cmd.Wait()         //nolint:errcheck
}

func TestMalformed(t *testing.T) {
	var shapes []Shape

	if err := vh.ReadJSON(vh.Env("VERIF_IN"), &shapes); err != nil {
		t.Fatal(err)
	}

	tr, err := vh.NewTrace(vh.Env("VERIF_OUT"))
	if err != nil {
		t.Fatal(err)
	}

	defer tr.Close() //nolint:errcheck

	dir, err := os.MkdirTemp("", "c11m")
	if err != nil {
		t.Fatal(err)
	}

	defer os.RemoveAll(dir) //nolint:errcheck

	n := 0
	c := startChild(t, dir, n)

	if !c.alive() {
		t.Fatal("child server does not answer")
	}

	for _, s := range shapes {
		code := send(context.Background(), c.cl, s)
		alive := c.alive()

		tr.Emit(MLine{Shape: s, Code: code, Alive: alive})

		if !alive {
			c.stop()

			n++
			c = startChild(t, dir, n)

			if !c.alive() {
				t.Fatal("restarted child server does not answer")
			}
		}
	}

	c.stop()
}
