// Package c11 replays TLC-generated request sequences in lock step on a wrapped state directly and
// through client adapter -> real gRPC (unix socket) -> server on a second, identically initialised
// state, with identical watches on both sides; against a full server and against a "legacy" server
// without the Teardown / TeardownAndDestroy RPCs. It records both observations; TraceRemote judges.
package c11

import (
	"context"
	"fmt"
	"net"
	"os"
	"path/filepath"
	"sort"
	"sync"
	"sync/atomic"
	"testing"
	"time"

	"google.golang.org/grpc"
	"google.golang.org/grpc/codes"
	"google.golang.org/grpc/credentials/insecure"
	"google.golang.org/grpc/status"

	"github.com/cosi-project/runtime/api/v1alpha1"
	"github.com/cosi-project/runtime/pkg/resource"
	"github.com/cosi-project/runtime/pkg/state"
	"github.com/cosi-project/runtime/pkg/state/impl/inmem"
	"github.com/cosi-project/runtime/pkg/state/impl/namespaced"
	"github.com/cosi-project/runtime/pkg/state/protobuf/client"
	"github.com/cosi-project/runtime/pkg/state/protobuf/server"

	"verifharness/vh"
)

type Side struct {
	Cls      string            `json:"cls"`
	Pv       map[string]string `json:"pv"`
	Out      []vh.KV           `json:"out"`
	Ready    bool              `json:"ready"`
	Updfact  string            `json:"updfact"`
	Contents []vh.KV           `json:"contents"`
	Err      string            `json:"err"`
}

type WEv struct {
	T    string `json:"t"`
	ID   string `json:"id"`
	Ver  int    `json:"ver"`
	Over int    `json:"over"`
	Lab  bool   `json:"lab"`
	Bm   int    `json:"bm"`
	// contents of the resource the event carries (two incarnations of one ID can reach the same version)
	Spec  int    `json:"spec"`
	Owner string `json:"owner"`
	Phase string `json:"phase"`
	Fins  string `json:"fins"`
	Labs  string `json:"labs"`
	Ospec int    `json:"ospec"`
}

// countingServer counts (and, in legacy mode, refuses) the teardown RPCs.
type countingServer struct {
	v1alpha1.StateServer

	legacy bool
	td     atomic.Int64
	tad    atomic.Int64
}

func (s *countingServer) Teardown(ctx context.Context, req *v1alpha1.TeardownRequest) (*v1alpha1.TeardownResponse, error) {
	s.td.Add(1)

	if s.legacy {
		return nil, status.Error(codes.Unimplemented, "method Teardown not implemented")
	}

	return s.StateServer.Teardown(ctx, req)
}

func (s *countingServer) TeardownAndDestroy(ctx context.Context, req *v1alpha1.TeardownAndDestroyRequest) (*v1alpha1.TeardownAndDestroyResponse, error) {
	s.tad.Add(1)

	if s.legacy {
		return nil, status.Error(codes.Unimplemented, "method TeardownAndDestroy not implemented")
	}

	return s.StateServer.TeardownAndDestroy(ctx, req)
}

func serve(t testing.TB, backing state.State, legacy bool) (*countingServer, state.State, func()) {
	dir, err := os.MkdirTemp("", "c11")
	if err != nil {
		t.Fatal(err)
	}

	l, err := (&net.ListenConfig{}).Listen(context.Background(), "unix", filepath.Join(dir, "s.sock"))
	if err != nil {
		t.Fatal(err)
	}

	cs := &countingServer{StateServer: server.NewState(backing), legacy: legacy}
	srv := grpc.NewServer()
	v1alpha1.RegisterStateServer(srv, cs)

	done := make(chan struct{})

	go func() {
		defer close(done)

		srv.Serve(l) //nolint:errcheck
	}()

	conn, err := grpc.NewClient("unix://"+filepath.Join(dir, "s.sock"), grpc.WithTransportCredentials(insecure.NewCredentials()))
	if err != nil {
		t.Fatal(err)
	}

	cleanup := func() {
		conn.Close() //nolint:errcheck
		srv.Stop()
		<-done
		os.RemoveAll(dir) //nolint:errcheck
	}

	return cs, state.WrapCore(client.NewAdapter(v1alpha1.NewStateClient(conn))), cleanup
}

// exec runs one request on st (store requests through vh.Exec, the helper RPC operations here).
func execReq(ctx context.Context, st state.State, rq vh.Req, crs *vh.CrMap, variant int) Side {
	s := Side{Out: []vh.KV{}, Pv: map[string]string{}}

	switch rq.Op {
	case "teardown":
		ready, err := st.Teardown(ctx, rq.K.Pointer(), state.WithTeardownOwner(rq.Owner))
		s.Cls, s.Pv, s.Ready = vh.Class(err), vh.PredVector(err, rq.K), ready

		if err != nil {
			s.Err = err.Error()
		}
	case "tad":
		tctx, cancel := context.WithTimeout(ctx, 3*time.Second)
		err := st.TeardownAndDestroy(tctx, rq.K.Pointer(), state.WithTeardownAndDestroyOwner(rq.Owner))
		cancel()

		s.Cls, s.Pv = vh.Class(err), vh.PredVector(err, rq.K)
		if err != nil {
			s.Err = err.Error()
		}
	default:
		s.Cls, s.Pv, s.Out, s.Err = vh.Exec(ctx, st, rq, crs, variant)
		// the update-time fact: after a successful write, is the stored resource's update time the
		// one written back into the caller's object?
		s.Updfact = vh.LastUpdFact
	}

	if s.Updfact == "" {
		s.Updfact = "n/a"
	}

	s.Contents = onlyNS(vh.Dump(ctx, st, crs))

	return s
}

func onlyNS(all []vh.KV) []vh.KV {
	res := []vh.KV{}

	for _, kv := range all {
		if kv.K.NS == "n1" {
			res = append(res, kv)
		}
	}

	return res
}

type collector struct {
	mu  sync.Mutex
	evs []WEv
}

func (c *collector) add(ev state.Event) {
	c.mu.Lock()
	defer c.mu.Unlock()

	w := WEv{T: ev.Type.String(), Bm: -2}

	if len(ev.Bookmark) == 16 {
		w.Bm = int(int64(uint64(ev.Bookmark[8])<<56 | uint64(ev.Bookmark[9])<<48 | uint64(ev.Bookmark[10])<<40 | uint64(ev.Bookmark[11])<<32 |
			uint64(ev.Bookmark[12])<<24 | uint64(ev.Bookmark[13])<<16 | uint64(ev.Bookmark[14])<<8 | uint64(ev.Bookmark[15])))
	}

	if ev.Resource != nil && ev.Type != state.Errored {
		w.ID = ev.Resource.Metadata().ID()
		w.Ver = vh.VersionInt(ev.Resource.Metadata().Version())
		_, w.Lab = ev.Resource.Metadata().Labels().Get("l")

		// (a tombstone - the initial Destroyed event of a watch on an absent resource - has no contents)
		if (ev.Type == state.Created || ev.Type == state.Updated || ev.Type == state.Destroyed) && w.Ver > 0 {
			md := ev.Resource.Metadata()
			w.Spec, w.Owner, w.Phase = vh.SpecOf(ev.Resource), md.Owner(), md.Phase().String()
			w.Fins = fmt.Sprint([]string(*md.Finalizers()))
			w.Labs = fmt.Sprint(md.Labels().Raw())
		}
	}

	if ev.Old != nil {
		w.Over = vh.VersionInt(ev.Old.Metadata().Version())
		w.Ospec = vh.SpecOf(ev.Old)
	}

	c.evs = append(c.evs, w)
}

func (c *collector) snapshot() []WEv {
	c.mu.Lock()
	defer c.mu.Unlock()

	return append([]WEv{}, c.evs...)
}

// startWatches starts the same set of watches on st; returns the collectors by name.
func startWatches(ctx context.Context, t testing.TB, st state.State) map[string]*collector {
	res := map[string]*collector{}
	kind := resource.NewMetadata("n1", vh.IntType, "", resource.VersionUndefined)

	single := func(name string, start func(ch chan state.Event) error) {
		c := &collector{}
		ch := make(chan state.Event)

		if err := start(ch); err != nil {
			t.Fatalf("watch %s: %v", name, err)
		}

		res[name] = c

		go func() {
			for {
				select {
				case <-ctx.Done():
					return
				case ev := <-ch:
					c.add(ev)
				}
			}
		}()
	}

	single("one-a", func(ch chan state.Event) error {
		return st.Watch(ctx, vh.Key{NS: "n1", Typ: vh.IntType, ID: "a"}.Pointer(), ch)
	})
	// the empty string is a legal resource ID; on the wire only the PRESENCE of the id distinguishes a resource watch from a kind watch
	single("one-empty-id", func(ch chan state.Event) error {
		return st.Watch(ctx, vh.Key{NS: "n1", Typ: vh.IntType, ID: ""}.Pointer(), ch)
	})
	single("one-b-str-tail", func(ch chan state.Event) error {
		return st.Watch(ctx, vh.Key{NS: "n1", Typ: vh.StrType, ID: "b"}.Pointer(), ch, state.WithTailEvents(2))
	})
	single("kind-bootstrap", func(ch chan state.Event) error {
		return st.WatchKind(ctx, kind, ch, state.WithBootstrapContents(true))
	})
	// both bootstrap options at once: contents, the Bootstrapped marker, then the bookmark no-op
	single("kind-bootstrap-both", func(ch chan state.Event) error {
		return st.WatchKind(ctx, kind, ch, state.WithBootstrapContents(true), state.WithBootstrapBookmark(true))
	})
	single("kind-label", func(ch chan state.Event) error {
		return st.WatchKind(ctx, kind, ch, state.WatchWithLabelQuery(resource.LabelExists("l")), state.WithBootstrapBookmark(true))
	})
	single("kind-notlabel-in", func(ch chan state.Event) error {
		return st.WatchKind(ctx, kind, ch, state.WatchWithLabelQuery(resource.LabelIn("l", []string{"x", "y"}, resource.NotMatches)))
	})

	agg := &collector{}
	aggCh := make(chan []state.Event)

	if err := st.WatchKindAggregated(ctx, resource.NewMetadata("n1", vh.StrType, "", resource.VersionUndefined), aggCh, state.WithBootstrapContents(true)); err != nil {
		t.Fatal(err)
	}

	res["agg-str"] = agg

	go func() {
		for {
			select {
			case <-ctx.Done():
				return
			case evs := <-aggCh:
				for _, ev := range evs {
					agg.add(ev)
				}
			}
		}
	}()

	return res
}

// startLateWatches: kind watches (single and aggregated) over the tail of the retained history.
func startLateWatches(ctx context.Context, t testing.TB, st state.State) map[string]*collector {
	res := map[string]*collector{}

	for _, typ := range []string{vh.IntType, vh.StrType} {
		kind := resource.NewMetadata("n1", typ, "", resource.VersionUndefined)

		agg := &collector{}
		aggCh := make(chan []state.Event)

		if err := st.WatchKindAggregated(ctx, kind, aggCh, state.WithKindTailEvents(60)); err != nil {
			t.Fatal(err)
		}

		res["late-agg-tail-"+typ] = agg

		go func() {
			for {
				select {
				case <-ctx.Done():
					return
				case evs := <-aggCh:
					for _, ev := range evs {
						agg.add(ev)
					}
				}
			}
		}()

		// late watches with both bootstrap options (non-empty contents), single and aggregated
		both := &collector{}
		bothCh := make(chan state.Event)

		if err := st.WatchKind(ctx, kind, bothCh, state.WithBootstrapContents(true), state.WithBootstrapBookmark(true)); err != nil {
			t.Fatal(err)
		}

		res["late-kind-both-"+typ] = both

		aggBoth := &collector{}
		aggBothCh := make(chan []state.Event)

		if err := st.WatchKindAggregated(ctx, kind, aggBothCh, state.WithBootstrapContents(true), state.WithBootstrapBookmark(true)); err != nil {
			t.Fatal(err)
		}

		res["late-agg-both-"+typ] = aggBoth

		go func() {
			for {
				select {
				case <-ctx.Done():
					return
				case ev := <-bothCh:
					both.add(ev)
				case evs := <-aggBothCh:
					for _, ev := range evs {
						aggBoth.add(ev)
					}
				}
			}
		}()

		one := &collector{}
		ch := make(chan state.Event)

		if err := st.WatchKind(ctx, kind, ch, state.WithKindTailEvents(60)); err != nil {
			t.Fatal(err)
		}

		res["late-kind-tail-"+typ] = one

		go func() {
			for {
				select {
				case <-ctx.Done():
					return
				case ev := <-ch:
					one.add(ev)
				}
			}
		}()
	}

	return res
}

func runBehaviour(t *testing.T, tr *vh.Trace, tid string, beh []vh.Req, legacy bool) {
	ctx, cancel := context.WithCancel(context.Background())
	defer cancel()

	direct := state.WrapCore(namespaced.NewState(inmem.Build))
	cs, remote, cleanup := serve(t, state.WrapCore(namespaced.NewState(inmem.Build)), legacy)

	defer cleanup()

	tr.Emit(map[string]any{"ev": "reset", "tid": tid})

	dcrs, rcrs := &vh.CrMap{}, &vh.CrMap{}
	dw := startWatches(ctx, t, direct)
	rw := startWatches(ctx, t, remote)

	tdCalls, tadCalls := 0, 0

	for i, rq := range beh {
		rq.K.NS = "n1"

		switch rq.Op {
		case "teardown":
			tdCalls++
		case "tad":
			tadCalls++
		}

		d := execReq(ctx, direct, rq, dcrs, i)
		r := execReq(ctx, remote, rq, rcrs, i)

		tr.Emit(map[string]any{"ev": "pair", "tid": tid, "req": rq, "d": d, "r": r})
	}

	// late subscribers: the whole retained history of both kinds as ONE tail (aggregated: one batch), on both sides
	for name, c := range startLateWatches(ctx, t, direct) {
		dw[name] = c
	}

	for name, c := range startLateWatches(ctx, t, remote) {
		rw[name] = c
	}

	time.Sleep(50 * time.Millisecond)

	// wait until the remote watch streams caught up with the direct ones
	deadline := time.Now().Add(15 * time.Second)

	for time.Now().Before(deadline) {
		same := true

		for name := range dw {
			if len(dw[name].snapshot()) != len(rw[name].snapshot()) {
				same = false
			}
		}

		if same {
			break
		}

		time.Sleep(5 * time.Millisecond)
	}

	time.Sleep(20 * time.Millisecond)

	names := make([]string, 0, len(dw))
	for name := range dw {
		names = append(names, name)
	}

	sort.Strings(names)

	for _, name := range names {
		tr.Emit(map[string]any{"ev": "watch", "tid": tid, "w": name, "d": dw[name].snapshot(), "r": rw[name].snapshot()})
	}

	tr.Emit(map[string]any{"ev": "sticky", "tid": tid, "legacy": legacy, "tdRpc": int(cs.td.Load()), "tadRpc": int(cs.tad.Load()), "tdCalls": tdCalls, "tadCalls": tadCalls})
}

func TestDifferential(t *testing.T) {
	var behs [][]vh.Req

	if err := vh.ReadJSON(vh.Env("VERIF_IN"), &behs); err != nil {
		t.Fatal(err)
	}

	tr, err := vh.NewTrace(vh.Env("VERIF_OUT"))
	if err != nil {
		t.Fatal(err)
	}

	defer tr.Close() //nolint:errcheck

	for i, b := range behs {
		runBehaviour(t, tr, fmt.Sprintf("%s#%d", map[bool]string{false: "full", true: "legacy"}[i%2 == 1], i), b, i%2 == 1)
	}
}
