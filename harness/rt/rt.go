// Package rt holds probe controllers and runtime construction shared by the controller-runtime drivers.
package rt

import (
	"context"
	"sync"

	"github.com/siderolabs/gen/optional"
	"go.uber.org/zap"

	"github.com/cosi-project/runtime/pkg/controller"
	"github.com/cosi-project/runtime/pkg/controller/runtime"
	"github.com/cosi-project/runtime/pkg/controller/runtime/options"
	"github.com/cosi-project/runtime/pkg/resource"
	"github.com/cosi-project/runtime/pkg/state"
)

// NewRuntime builds the real controller runtime over st.
func NewRuntime(st state.State, opts ...options.Option) (*runtime.Runtime, error) {
	return runtime.NewRuntime(st, zap.NewNop(), opts...)
}

// QProbe is a configurable QController.
type QProbe struct {
	NameV       string
	InputsV     []controller.Input
	OutputsV    []controller.Output
	Concurrency uint
	ReconcileF  func(context.Context, controller.QRuntime, resource.Pointer) error
	MapF        func(context.Context, controller.QRuntime, controller.ReducedResourceMetadata) ([]resource.Pointer, error)
	RunHookF    func(context.Context, controller.QRuntime) error
	ShutdownF   func()
}

func (p *QProbe) Name() string { return p.NameV }

func (p *QProbe) Settings() controller.QSettings {
	s := controller.QSettings{Inputs: p.InputsV, Outputs: p.OutputsV, ShutdownHook: p.ShutdownF}
	if p.Concurrency > 0 {
		s.Concurrency = optional.Some(p.Concurrency)
	}

	if p.RunHookF != nil {
		s.RunHook = func(ctx context.Context, _ *zap.Logger, r controller.QRuntime) error { return p.RunHookF(ctx, r) }
	}

	return s
}

func (p *QProbe) Reconcile(ctx context.Context, _ *zap.Logger, r controller.QRuntime, ptr resource.Pointer) error {
	if p.ReconcileF == nil {
		return nil
	}

	return p.ReconcileF(ctx, r, ptr)
}

func (p *QProbe) MapInput(ctx context.Context, _ *zap.Logger, r controller.QRuntime, md controller.ReducedResourceMetadata) ([]resource.Pointer, error) {
	if p.MapF == nil {
		return nil, nil
	}

	return p.MapF(ctx, r, md)
}

// Probe is a configurable (reduced-runtime) Controller: RunF is the whole Run; if nil, the standard
// loop "wait for an event, call ReconcileF" is used.
type Probe struct {
	NameV      string
	InputsV    []controller.Input
	OutputsV   []controller.Output
	RunF       func(context.Context, controller.Runtime) error
	ReconcileF func(context.Context, controller.Runtime) error

	mu sync.Mutex
}

func (p *Probe) Name() string                 { return p.NameV }
func (p *Probe) Inputs() []controller.Input   { return p.InputsV }
func (p *Probe) Outputs() []controller.Output { return p.OutputsV }

func (p *Probe) Run(ctx context.Context, r controller.Runtime, _ *zap.Logger) error {
	if p.RunF != nil {
		return p.RunF(ctx, r)
	}

	for {
		select {
		case <-ctx.Done():
			return nil
		case <-r.EventCh():
		}

		if p.ReconcileF != nil {
			if err := p.ReconcileF(ctx, r); err != nil {
				return err
			}
		}

		r.ResetRestartBackoff()
	}
}

// KindInput is a by-kind input.
func KindInput(ns, typ string, kind controller.InputKind) controller.Input {
	return controller.Input{Namespace: ns, Type: typ, Kind: kind}
}

// IDInput is a by-id input.
func IDInput(ns, typ, id string, kind controller.InputKind) controller.Input {
	return controller.Input{Namespace: ns, Type: typ, ID: optional.Some(id), Kind: kind}
}
