module verifharness

go 1.26.5

require (
	github.com/ProtonMail/gopenpgp/v2 v2.10.0
	github.com/cosi-project/runtime v0.0.0
	github.com/siderolabs/gen v0.8.7
	go.etcd.io/bbolt v1.5.0
	go.uber.org/zap v1.28.0
	go.yaml.in/yaml/v4 v4.0.0-rc.6
	golang.org/x/time v0.15.0
	google.golang.org/grpc v1.82.0
	google.golang.org/protobuf v1.36.11
)

require (
	github.com/ProtonMail/go-crypto v1.4.1 // indirect
	github.com/ProtonMail/go-mime v0.0.0-20230322103455-7d82a3887f2f // indirect
	github.com/cenkalti/backoff/v4 v4.3.0 // indirect
	github.com/cloudflare/circl v1.6.4 // indirect
	github.com/davecgh/go-spew v1.1.1 // indirect
	github.com/gertd/go-pluralize v0.2.1 // indirect
	github.com/grpc-ecosystem/grpc-gateway/v2 v2.29.0 // indirect
	github.com/hashicorp/errwrap v1.1.0 // indirect
	github.com/hashicorp/go-multierror v1.1.1 // indirect
	github.com/klauspost/compress v1.19.0 // indirect
	github.com/pkg/errors v0.9.1 // indirect
	github.com/planetscale/vtprotobuf v0.6.1-0.20240319094008-0393e58bdf10 // indirect
	github.com/pmezard/go-difflib v1.0.0 // indirect
	github.com/siderolabs/go-pointer v1.0.1 // indirect
	github.com/siderolabs/go-retry v0.3.3 // indirect
	github.com/siderolabs/protoenc v0.2.4 // indirect
	github.com/stretchr/testify v1.11.1 // indirect
	go.uber.org/multierr v1.11.0 // indirect
	golang.org/x/crypto v0.54.0 // indirect
	golang.org/x/net v0.57.0 // indirect
	golang.org/x/sync v0.22.0 // indirect
	golang.org/x/sys v0.47.0 // indirect
	golang.org/x/text v0.40.0 // indirect
	google.golang.org/genproto/googleapis/api v0.0.0-20260713224248-f5fc221cf8c4 // indirect
	google.golang.org/genproto/googleapis/rpc v0.0.0-20260713224248-f5fc221cf8c4 // indirect
	gopkg.in/yaml.v3 v3.0.1 // indirect
)

replace github.com/cosi-project/runtime => /repo
