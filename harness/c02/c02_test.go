// Package c02 drives watch streams of the real in-memory collection inside a synctest bubble
// with TLC-generated command sequences (publishes - eager or in bursts -, watch starts with every
// option, consumer receives), then resumes from every delivered bookmark, tries garbage bookmarks
// and every tail size (C12). It records only; TraceWatch judges.
package c02

import (
	"context"
	"encoding/binary"
	"encoding/hex"
	"fmt"
	"os"
	"runtime"
	"sort"
	"testing"
	"testing/synctest"
	"time"

	"github.com/cosi-project/runtime/pkg/resource"
	"github.com/cosi-project/runtime/pkg/state"
	"github.com/cosi-project/runtime/pkg/state/impl/inmem"

	"verifharness/vh"
)

type Cmd struct {
	C    string `json:"c"`
	W    int    `json:"w"`
	Kind string `json:"kind"`
	ID   int    `json:"id"`
	Filt bool   `json:"filt"`
	Mode string `json:"mode"`
	N    int    `json:"n"`
	P    int    `json:"p"`
	Op   string `json:"op"`
	Lab  bool   `json:"lab"`
	Wait bool   `json:"wait"`
	Bb   bool   `json:"bb"` // kind watch with tail / bookmark: also ask for the bootstrap bookmark
}

type Group struct {
	InitCap int     `json:"initcap"`
	MaxCap  int     `json:"maxcap"`
	Gap     int     `json:"gap"`
	Behs    [][]Cmd `json:"behs"`
}

type AbsEv struct {
	T    string `json:"t"`
	ID   int    `json:"id"`
	Ver  int    `json:"ver"`
	Lab  bool   `json:"lab"`
	Over int    `json:"over"`
	Olab bool   `json:"olab"`
	Bm   int    `json:"bm"`
}

// Line is one trace line (all fields always present).
type Line struct {
	Ev     string `json:"ev"`
	Tid    string `json:"tid"`
	Op     string `json:"op"`
	ID     int    `json:"id"`
	Ver    int    `json:"ver"`
	Lab    bool   `json:"lab"`
	W      int    `json:"w"`
	Kind   string `json:"kind"`
	Filt   bool   `json:"filt"`
	Mode   string `json:"mode"`
	N      int    `json:"n"`
	P      int    `json:"p"`
	Bm     string `json:"bm"`
	Res    string `json:"res"`
	E      AbsEv  `json:"e"`
	Note   string `json:"note"`
	Remote bool   `json:"remote"`
	Retry  bool   `json:"retry"`
	Bb     bool   `json:"bb"`
	Idq    []int  `json:"idq"` // kind watch with an ID selector matching exactly these ids (empty: none)
}

var idNames = []string{"", "a", "b", "c", "d"}

func idNum(id string) int {
	for i, n := range idNames {
		if n == id {
			return i
		}
	}

	return -1
}

func hasLab(r resource.Resource) bool {
	v, ok := r.Metadata().Labels().Get("l")

	return ok && v == "x"
}

func bmPos(b state.Bookmark) int {
	if b == nil {
		return -2
	}

	if len(b) != 16 {
		return -3
	}

	return int(int64(binary.BigEndian.Uint64(b[8:])))
}

func project(ev state.Event) AbsEv {
	a := AbsEv{Bm: bmPos(ev.Bookmark)}

	switch ev.Type {
	case state.Created:
		a.T = "created"
	case state.Updated:
		a.T = "updated"
	case state.Destroyed:
		a.T = "destroyed"
	case state.Bootstrapped:
		a.T = "bootstrapped"
	case state.Noop:
		a.T = "noop"
	case state.Errored:
		a.T = "errored"
		a.Bm = -2

		return a
	}

	if ev.Resource != nil && (ev.Type == state.Created || ev.Type == state.Updated || ev.Type == state.Destroyed) {
		a.ID = idNum(ev.Resource.Metadata().ID())
		a.Ver = vh.VersionInt(ev.Resource.Metadata().Version())
		a.Lab = hasLab(ev.Resource)
	}

	if ev.Old != nil {
		a.Over = vh.VersionInt(ev.Old.Metadata().Version())
		a.Olab = hasLab(ev.Old)
	}

	return a
}

type watcher struct {
	w      int
	kind   string
	ch     chan state.Event
	agg    chan []state.Event
	cancel context.CancelFunc
}

type run struct {
	t       *testing.T
	tr      *vh.Trace
	tid     string
	wr      state.CoreState // writes go here
	wst     state.CoreState // watches are started here (the same state, or a remote view of it)
	remote  bool
	retry   bool
	bb      bool
	wfs     map[int]*wfaults
	nfaults int
	ctx     context.Context
	ws      map[int]*watcher // by command slot
	all     []*watcher
	nextW   int
	cookie  []byte
	seen    map[int]state.Bookmark // position -> delivered bookmark bytes
	seenID  map[int]int            // position -> id of the event delivered with it
	wpos    int                    // number of committed writes
}

const ns = "n1"

func (r *run) key(id int) vh.Key { return vh.Key{NS: ns, Typ: vh.IntType, ID: idNames[id]} }

func (r *run) emit(l Line) {
	l.Tid = r.tid

	if l.Idq == nil {
		l.Idq = []int{}
	}

	r.tr.Emit(l)
}

func (r *run) pub(c Cmd) {
	k := r.key(c.ID)

	var (
		err error
		ver int
	)

	labels := [][2]string{}
	if c.Lab {
		labels = append(labels, [2]string{"l", "x"})
	}

	switch c.Op {
	case "create":
		res := vh.NewRes(k, vh.Obj{Spec: 1, Labels: labels, Phase: "running"})
		err = r.wr.Create(r.ctx, res)
		ver = vh.VersionInt(res.Metadata().Version())
	case "update":
		var cur resource.Resource

		cur, err = r.wr.Get(r.ctx, k.Pointer())
		if err == nil {
			o := vh.Project(cur, nil)
			o.Spec++
			o.Labels = labels
			res := vh.NewRes(k, o)
			err = r.wr.Update(r.ctx, res)
			ver = vh.VersionInt(res.Metadata().Version())
		}
	case "destroy":
		err = r.wr.Destroy(r.ctx, k.Pointer())
	}

	if err != nil {
		r.emit(Line{Ev: "note", Note: "write failed: " + err.Error()})

		return
	}

	r.wpos++
	r.emit(Line{Ev: "write", Op: c.Op, ID: c.ID, Ver: ver, Lab: c.Lab})

	if c.Wait {
		synctest.Wait()
	}
}

func (r *run) bookmark(p int, variant string) state.Bookmark {
	if variant == "pos" {
		if b, ok := r.seen[p]; ok {
			return b
		}
	}

	b := binary.BigEndian.AppendUint64(append([]byte{}, r.cookie...), uint64(int64(p)))

	switch variant {
	case "short":
		return b[:15]
	case "long":
		return append(b, 0)
	case "badcookie":
		b[3] ^= 0x40
	case "empty":
		return state.Bookmark{}
	case "foreign": // cookie of another process incarnation, valid position
		if f, err := hex.DecodeString(os.Getenv("VERIF_FOREIGN_BM")); err == nil && len(f) == 16 {
			copy(b[:8], f[:8])
		} else {
			b[0] ^= 0x01
		}
	}

	return b
}

func (r *run) start(slot int, kind string, id int, filt bool, mode string, n, p int, bmVariant string) {
	// r.bb (set by the caller for this one start): kind watch with tail / bookmark that also asks for the bootstrap bookmark
	bb := r.bb && kind != "one" && (mode == "tail" || mode == "bookmark")
	r.bb = false

	ctx, cancel := context.WithCancel(r.ctx)
	r.nextW++
	w := &watcher{w: r.nextW, kind: kind, cancel: cancel}

	if r.remote {
		wf := &wfaults{kick: make(chan struct{})}
		r.wfs[w.w] = wf
		ctx = context.WithValue(ctx, watcherKey{}, wf)
	}

	var err error

	switch kind {
	case "one":
		w.ch = make(chan state.Event)

		var opts []state.WatchOption

		switch mode {
		case "tail":
			opts = append(opts, state.WithTailEvents(n))
		case "bookmark":
			opts = append(opts, state.WithStartFromBookmark(r.bookmark(p, bmVariant)))
		}

		err = r.wst.Watch(ctx, r.key(id).Pointer(), w.ch, opts...)
	default:
		var opts []state.WatchKindOption

		if filt {
			opts = append(opts, state.WatchWithLabelQuery(resource.LabelEqual("l", "x")))
		}

		switch mode {
		case "tail":
			opts = append(opts, state.WithKindTailEvents(n))
		case "bookmark":
			opts = append(opts, state.WithKindStartFromBookmark(r.bookmark(p, bmVariant)))
		case "bootstrap":
			opts = append(opts, state.WithBootstrapContents(true))
		case "bmbootstrap":
			opts = append(opts, state.WithBootstrapBookmark(true))
		}

		if bb {
			opts = append(opts, state.WithBootstrapBookmark(true))
		}

		kindMd := resource.NewMetadata(ns, vh.IntType, "", resource.VersionUndefined)

		if kind == "agg" {
			w.agg = make(chan []state.Event)
			err = r.wst.WatchKindAggregated(ctx, kindMd, w.agg, opts...)
		} else {
			w.ch = make(chan state.Event)
			err = r.wst.WatchKind(ctx, kindMd, w.ch, opts...)
		}
	}

	res := "ok"

	switch {
	case err == nil:
	case state.IsInvalidWatchBookmarkError(err):
		res = "invalidBookmark"
	default:
		res = "error:" + err.Error()
	}

	r.emit(Line{Ev: "start", W: w.w, Kind: kind, ID: id, Filt: filt, Mode: mode, N: n, P: p, Bm: bmVariant, Res: res, Remote: r.remote, Retry: r.retry, Bb: bb})

	if err != nil {
		cancel()

		return
	}

	if slot > 0 {
		r.ws[slot] = w
	}

	r.all = append(r.all, w)

	synctest.Wait()
}

func (r *run) note(w *watcher, ev state.Event) {
	a := project(ev)
	l := Line{Ev: "recv", W: w.w, E: a}

	if ev.Type == state.Errored && ev.Error != nil {
		l.Note = ev.Error.Error()
	}

	r.emit(l)

	if a.Bm >= 0 && (a.T == "created" || a.T == "updated" || a.T == "destroyed") {
		if _, ok := r.seen[a.Bm]; !ok {
			r.seen[a.Bm] = ev.Bookmark
			r.seenID[a.Bm] = a.ID
		}
	}
}

// recv receives at most one event (or one aggregated batch) without blocking.
func (r *run) recv(w *watcher) bool {
	if w == nil {
		return false
	}

	synctest.Wait()

	if w.agg != nil {
		select {
		case evs := <-w.agg:
			for _, ev := range evs {
				r.note(w, ev)
			}

			return true
		default:
			return false
		}
	}

	select {
	case ev := <-w.ch:
		r.note(w, ev)

		return true
	default:
		return false
	}
}

func (r *run) drain() {
	idle := 0

	for {
		progress := false

		for _, w := range r.all {
			for r.recv(w) {
				progress = true
			}
		}

		if progress {
			idle = 0

			continue
		}

		// a remote watch may be sleeping in its retry back-off: let virtual time pass before giving up
		if !r.remote || idle >= 2 {
			return
		}

		idle++

		time.Sleep(10 * time.Second)
	}
}

func runBehaviour(t *testing.T, tr *vh.Trace, tid string, g Group, beh []Cmd, cookie []byte, extras bool) {
	synctest.Test(t, func(t *testing.T) {
		ctx, cancel := context.WithCancel(context.Background())

		local := inmem.NewStateWithOptions(
			inmem.WithHistoryInitialCapacity(g.InitCap), inmem.WithHistoryMaxCapacity(g.MaxCap), inmem.WithHistoryGap(g.Gap),
		)(ns)

		r := &run{
			t: t, tr: tr, tid: tid, ctx: ctx, cookie: cookie, wr: local, wst: local,
			ws: map[int]*watcher{}, seen: map[int]state.Bookmark{}, seenID: map[int]int{}, wfs: map[int]*wfaults{},
		}

		r.emit(Line{Ev: "reset"})

		for _, c := range beh {
			switch c.C {
			case "pub":
				r.pub(c)
			case "start":
				r.bb = c.Bb
				r.start(c.W, c.Kind, c.ID, c.Filt, c.Mode, c.N, c.P, "pos")
			case "recv":
				r.recv(r.ws[c.W])
			}
		}

		r.drain()

		if extras {
			// C12: resume from every delivered bookmark, on a single-resource and on a kind watch
			poss := make([]int, 0, len(r.seen))
			for p := range r.seen {
				poss = append(poss, p)
			}

			sort.Ints(poss)

			for i, p := range poss {
				r.start(0, "one", r.seenID[p], false, "bookmark", 0, p, "pos")
				r.bb = i%3 == 0
				r.start(0, []string{"all", "agg"}[i%2], 0, false, "bookmark", 0, p, "pos")
			}

			// garbage and out-of-range bookmarks
			for _, v := range []string{"short", "long", "badcookie", "empty", "foreign"} {
				r.start(0, "one", 1, false, "bookmark", 0, r.wpos-1, v)
				r.start(0, "all", 0, false, "bookmark", 0, r.wpos-1, v)
			}

			for _, p := range []int{r.wpos, r.wpos + 3, -1, -2, -7, r.wpos - g.InitCap, r.wpos - g.MaxCap, r.wpos - g.MaxCap - 1, 0} {
				r.start(0, "one", 1, false, "bookmark", 0, p, "synth")
				r.start(0, "agg", 0, false, "bookmark", 0, p, "synth")
			}

			// every tail size
			for n := 1; n <= g.MaxCap+2; n++ {
				r.start(0, "one", 1+n%2, false, "tail", n, 0, "")
				r.bb = n%3 == 0
				r.start(0, []string{"all", "agg"}[n%2], 0, false, "tail", n, 0, "")
			}

			// one more write so that the resumed / tailed watches go live
			r.pub(Cmd{Op: "create", ID: 3, Lab: true, Wait: true})
			r.drain()
		}

		r.emit(Line{Ev: "end"})

		cancel()

		for _, w := range r.all {
			w.cancel()
		}

		synctest.Wait()
	})
}

// processCookie obtains the bookmark cookie of this process from a throw-away collection.
func processCookie(t *testing.T) []byte {
	st := inmem.NewState("aux")
	ctx, cancel := context.WithCancel(context.Background())

	defer cancel()

	ch := make(chan state.Event, 1)
	if err := st.WatchKind(ctx, resource.NewMetadata("aux", vh.IntType, "", resource.VersionUndefined), ch, state.WithBootstrapBookmark(true)); err != nil {
		t.Fatal(err)
	}

	ev := <-ch
	if len(ev.Bookmark) != 16 {
		t.Fatalf("unexpected bookmark length %d", len(ev.Bookmark))
	}

	return append([]byte{}, ev.Bookmark[:8]...)
}

// TestMint prints the bookmark cookie of this process (run as a child: another incarnation).
func TestMint(t *testing.T) {
	fmt.Printf("MINT %s\n", hex.EncodeToString(append(processCookie(t), 0, 0, 0, 0, 0, 0, 0, 0)))
}

// TestWatch: VERIF_IN = JSON list of groups; output VERIF_OUT.<i>.ndjson per group.
func TestWatch(t *testing.T) {
	var groups []Group

	if err := vh.ReadJSON(vh.Env("VERIF_IN"), &groups); err != nil {
		t.Fatal(err)
	}

	// bursts rely on the publisher not being interleaved with the watcher goroutines
	prev := runtime.GOMAXPROCS(1)
	defer runtime.GOMAXPROCS(prev)

	cookie := processCookie(t)
	extras := os.Getenv("VERIF_EXTRAS") != "0"

	for gi, g := range groups {
		tr, err := vh.NewTrace(fmt.Sprintf("%s.%d.ndjson", vh.Env("VERIF_OUT"), gi))
		if err != nil {
			t.Fatal(err)
		}

		for bi, beh := range g.Behs {
			runBehaviour(t, tr, fmt.Sprintf("g%d#%d", gi, bi), g, beh, cookie, extras)
		}

		if err := tr.Close(); err != nil {
			t.Fatal(err)
		}
	}
}
