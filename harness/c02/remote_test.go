package c02

import (
	"context"
	"fmt"
	"io"
	"os"
	"runtime"
	"sync"
	"testing"
	"testing/synctest"
	"time"

	"go.uber.org/zap"
	"google.golang.org/grpc"
	"google.golang.org/grpc/codes"
	"google.golang.org/grpc/metadata"
	"google.golang.org/grpc/status"

	"github.com/cosi-project/runtime/api/v1alpha1"
	"github.com/cosi-project/runtime/pkg/resource"
	"github.com/cosi-project/runtime/pkg/state"
	"github.com/cosi-project/runtime/pkg/state/impl/inmem"
	"github.com/cosi-project/runtime/pkg/state/impl/namespaced"
	"github.com/cosi-project/runtime/pkg/state/protobuf/client"
	"github.com/cosi-project/runtime/pkg/state/protobuf/server"

	"verifharness/vh"
)

// Remote watches (C13): the real client adapter talks to the real server through an in-process
// stream shim (so that the retry back-off runs in the bubble's virtual time); a fault-injecting
// StateClient fails Recv and re-Watch attempts on command.

type watcherKey struct{}

// wfaults is the fault plan of one logical watcher.
type wfaults struct {
	mu        sync.Mutex
	kick      chan struct{} // closed to fail the Recv in flight
	failRecv  bool
	failWatch int
	// clean: the stream in flight ends without a status (the server side handler returned by itself: the client sees a
	// bare io.EOF), as when a server drains its handlers before a restart or a proxy completes the stream
	clean bool
}

func (w *wfaults) arm(n int, clean bool) {
	w.mu.Lock()
	defer w.mu.Unlock()

	w.failRecv = true
	w.failWatch = n
	w.clean = clean

	select {
	case <-w.kick:
	default:
		close(w.kick)
	}
}

// shimStream connects server.Watch and the client adapter in-process.
type shimStream struct {
	ctx    context.Context
	cancel context.CancelFunc
	ch     chan *v1alpha1.WatchResponse
	done   chan error
	wf     *wfaults
}

// server side
func (s *shimStream) Send(m *v1alpha1.WatchResponse) error {
	select {
	case s.ch <- m:
		return nil
	case <-s.ctx.Done():
		return s.ctx.Err()
	}
}
func (s *shimStream) SetHeader(metadata.MD) error  { return nil }
func (s *shimStream) SendHeader(metadata.MD) error { return nil }
func (s *shimStream) SetTrailer(metadata.MD)       {}
func (s *shimStream) Context() context.Context     { return s.ctx }
func (s *shimStream) SendMsg(any) error            { return nil }
func (s *shimStream) RecvMsg(any) error            { return nil }

// client side
func (s *shimStream) Header() (metadata.MD, error) { return nil, nil }
func (s *shimStream) Trailer() metadata.MD         { return nil }
func (s *shimStream) CloseSend() error             { return nil }

func (s *shimStream) Recv() (*v1alpha1.WatchResponse, error) {
	fail := func() (*v1alpha1.WatchResponse, error) {
		s.cancel() // the transport is gone: the server side handler ends

		s.wf.mu.Lock()
		clean := s.wf.clean
		s.wf.clean = false
		s.wf.mu.Unlock()

		if clean {
			return nil, io.EOF
		}

		return nil, status.Error(codes.Unavailable, "injected transport failure")
	}

	s.wf.mu.Lock()
	kick, failNow := s.wf.kick, s.wf.failRecv
	if failNow {
		s.wf.failRecv = false
		s.wf.kick = make(chan struct{})
	}
	s.wf.mu.Unlock()

	if failNow {
		return fail()
	}

	select {
	case m := <-s.ch:
		return m, nil
	case err := <-s.done:
		if err == nil {
			return nil, io.EOF
		}

		return nil, err
	case <-kick:
		s.wf.mu.Lock()
		s.wf.failRecv = false
		s.wf.kick = make(chan struct{})
		s.wf.mu.Unlock()

		return fail()
	case <-s.ctx.Done():
		return nil, status.FromContextError(s.ctx.Err()).Err()
	}
}

// faultClient is the StateClient handed to the client adapter (only Watch is used).
type faultClient struct {
	v1alpha1.StateClient

	srv *server.State
}

func (f *faultClient) Watch(ctx context.Context, in *v1alpha1.WatchRequest, _ ...grpc.CallOption) (grpc.ServerStreamingClient[v1alpha1.WatchResponse], error) {
	wf, _ := ctx.Value(watcherKey{}).(*wfaults)
	if wf == nil {
		wf = &wfaults{kick: make(chan struct{})}
	}

	wf.mu.Lock()
	if wf.failWatch > 0 {
		wf.failWatch--
		wf.mu.Unlock()

		return nil, status.Error(codes.Unavailable, "injected: server unavailable")
	}
	wf.mu.Unlock()

	sctx, cancel := context.WithCancel(ctx)
	s := &shimStream{ctx: sctx, cancel: cancel, ch: make(chan *v1alpha1.WatchResponse), done: make(chan error, 1), wf: wf}

	// the request is copied: the adapter mutates its request for re-watches
	req := in.CloneVT()

	go func() { s.done <- f.srv.Watch(req, s) }()

	return s, nil
}

func runRemote(t *testing.T, tr *vh.Trace, tid string, g Group, beh []Cmd, cookie []byte, retry bool) {
	synctest.Test(t, func(t *testing.T) {
		ctx, cancel := context.WithCancel(context.Background())
		backing := namespaced.NewState(func(n resource.Namespace) state.CoreState {
			return inmem.NewStateWithOptions(
				inmem.WithHistoryInitialCapacity(g.InitCap), inmem.WithHistoryMaxCapacity(g.MaxCap), inmem.WithHistoryGap(g.Gap),
			)(n)
		})

		var aopts []client.AdapterOption
		if !retry {
			aopts = append(aopts, client.WithDisableWatchRetry())
		}

		if os.Getenv("VERIF_DEBUG") != "" {
			lg, _ := zap.NewDevelopment()
			aopts = append(aopts, client.WithRetryLogger(lg))
		}

		adapter := client.NewAdapter(&faultClient{srv: server.NewState(state.WrapCore(backing))}, aopts...)

		r := &run{
			t: t, tr: tr, tid: tid, ctx: ctx, cookie: cookie,
			wr: backing, wst: adapter, remote: true, retry: retry,
			ws: map[int]*watcher{}, seen: map[int]state.Bookmark{}, seenID: map[int]int{}, wfs: map[int]*wfaults{},
		}

		r.emit(Line{Ev: "reset"})

		for _, c := range beh {
			switch c.C {
			case "pub":
				r.pub(c)
			case "start":
				r.bb = c.Bb
				r.start(c.W, c.Kind, c.ID, c.Filt, c.Mode, c.N, c.P, "pos")
			case "recv":
				r.recv(r.ws[c.W])
			case "fault":
				if w := r.ws[c.W]; w != nil {
					r.emit(Line{Ev: "fault", W: w.w, N: c.N})
					// every third fault ends the stream cleanly instead of breaking it
					r.nfaults++
					r.wfs[w.w].arm(c.N, r.nfaults%3 == 0)
					synctest.Wait()
					// enough virtual time for the re-establishment attempts (0.5 s, 0.75 s, 1.1 s, ...)
					time.Sleep(8 * time.Second)
					synctest.Wait()
				}
			case "wait":
				time.Sleep(time.Duration(c.P) * time.Second)
				synctest.Wait()
			}
		}

		time.Sleep(8 * time.Second)
		r.drain()
		r.emit(Line{Ev: "end"})

		cancel()

		for _, w := range r.all {
			w.cancel()
		}

		synctest.Wait()
	})
}

// TestRemoteWatch: like TestWatch, through the gRPC client adapter with transport faults.
func TestRemoteWatch(t *testing.T) {
	var groups []Group

	if err := vh.ReadJSON(vh.Env("VERIF_IN"), &groups); err != nil {
		t.Fatal(err)
	}

	prev := runtime.GOMAXPROCS(1)
	defer runtime.GOMAXPROCS(prev)

	cookie := processCookie(t)
	_ = os.Getenv

	for gi, g := range groups {
		tr, err := vh.NewTrace(fmt.Sprintf("%s.%d.ndjson", vh.Env("VERIF_OUT"), gi))
		if err != nil {
			t.Fatal(err)
		}

		for bi, beh := range g.Behs {
			runRemote(t, tr, fmt.Sprintf("g%d#%d", gi, bi), g, beh, cookie, bi%5 != 4)
		}

		if err := tr.Close(); err != nil {
			t.Fatal(err)
		}
	}
}
