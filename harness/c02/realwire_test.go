package c02

import (
	"context"
	"fmt"
	"math/rand"
	"net"
	"os"
	"path/filepath"
	"regexp"
	"slices"
	"sync"
	"testing"
	"time"

	"google.golang.org/grpc"
	"google.golang.org/grpc/credentials/insecure"

	"github.com/cosi-project/runtime/api/v1alpha1"
	"github.com/cosi-project/runtime/pkg/resource"
	"github.com/cosi-project/runtime/pkg/state"
	"github.com/cosi-project/runtime/pkg/state/impl/inmem"
	"github.com/cosi-project/runtime/pkg/state/impl/namespaced"
	"github.com/cosi-project/runtime/pkg/state/protobuf/client"
	"github.com/cosi-project/runtime/pkg/state/protobuf/server"

	"verifharness/vh"
)

// TestRealWire (C13): the real client adapter over a REAL gRPC connection (unix socket) to a server that is really stopped
// and started again (all streams reset, the socket refuses connections for a while), with writes before, during and after the
// outage. No bubble: real time, real transport, real status codes. Received events are buffered by the subscribers and written
// to the trace only at the driver's flush points (after the writes they can contain), so the order of the lines is sound.
// Judge: TraceWatch (exact prefix of the log, nothing lost / duplicated / re-bootstrapped across the outage, or Errored).
func TestRealWire(t *testing.T) {
	rounds := vh.EnvInt("VERIF_ROUNDS", 2)
	seed := int64(vh.EnvInt("VERIF_SEED", 1))

	tr, err := vh.NewTrace(vh.Env("VERIF_OUT"))
	if err != nil {
		t.Fatal(err)
	}

	defer tr.Close() //nolint:errcheck

	for r := range rounds {
		realWireRound(t, tr, fmt.Sprintf("wire#%d", r), rand.New(rand.NewSource(seed*7907+int64(r))))
	}
}

type wireSub struct {
	w    int
	kind string
	id   int
	mu   sync.Mutex
	buf  []state.Event
	done bool // errored
	// selective: a subscriber with a selector may legitimately see nothing of what is written after an outage
	selective bool
	// idq: the ids an ID selector of the subscriber admits (empty: no ID selector)
	idq []int
}

func realWireRound(t *testing.T, tr *vh.Trace, tid string, rng *rand.Rand) {
	ctx, cancel := context.WithCancel(context.Background())
	defer cancel()

	backing := state.WrapCore(namespaced.NewState(func(n resource.Namespace) state.CoreState {
		return inmem.NewStateWithOptions(
			inmem.WithHistoryInitialCapacity(64), inmem.WithHistoryMaxCapacity(64), inmem.WithHistoryGap(4),
		)(n)
	}))

	dir, err := os.MkdirTemp("", "vhwire")
	if err != nil {
		t.Fatal(err)
	}

	defer os.RemoveAll(dir) //nolint:errcheck

	sock := filepath.Join(dir, "s.sock")

	startServer := func() *grpc.Server {
		os.Remove(sock) //nolint:errcheck

		l, lerr := (&net.ListenConfig{}).Listen(ctx, "unix", sock)
		if lerr != nil {
			t.Fatal(lerr)
		}

		srv := grpc.NewServer()
		v1alpha1.RegisterStateServer(srv, server.NewState(backing))

		go srv.Serve(l) //nolint:errcheck

		return srv
	}

	srv := startServer()

	conn, err := grpc.NewClient("unix://"+sock, grpc.WithTransportCredentials(insecure.NewCredentials()))
	if err != nil {
		t.Fatal(err)
	}

	defer conn.Close() //nolint:errcheck

	adapter := client.NewAdapter(v1alpha1.NewStateClient(conn))

	emit := func(l Line) {
		l.Tid = tid

		if l.Idq == nil {
			l.Idq = []int{}
		}

		tr.Emit(l)
	}

	emit(Line{Ev: "reset"})

	vers := map[int]int{}

	write := func(op string, id int, lab bool) {
		k := vh.Key{NS: ns, Typ: vh.IntType, ID: idNames[id]}

		switch op {
		case "create":
			o := vh.Obj{Spec: 1, Phase: "running"}
			if lab {
				o.Labels = [][2]string{{"l", "x"}}
			}

			if cerr := backing.Create(ctx, vh.NewRes(k, o)); cerr != nil {
				return
			}

			vers[id] = 1
		case "update":
			cur, gerr := backing.Get(ctx, k.Pointer())
			if gerr != nil {
				return
			}

			if lab {
				cur.Metadata().Labels().Set("l", "x")
			} else {
				cur.Metadata().Labels().Delete("l")
			}

			cur.Metadata().Annotations().Set("n", fmt.Sprint(rng.Int()))

			if uerr := backing.Update(ctx, cur); uerr != nil {
				return
			}

			vers[id]++
		case "destroy":
			if derr := backing.Destroy(ctx, k.Pointer()); derr != nil {
				return
			}
		}

		emit(Line{Ev: "write", Op: op, ID: id, Ver: vers[id], Lab: lab})

		if op == "destroy" {
			delete(vers, id)
		}
	}

	randomWrites := func(n int) {
		for range n {
			id := 1 + rng.Intn(3)

			switch _, exists := vers[id]; {
			case !exists:
				write("create", id, rng.Intn(2) == 0)
			case rng.Intn(5) == 0:
				write("destroy", id, false)
			default:
				write("update", id, rng.Intn(2) == 0)
			}
		}
	}

	randomWrites(3 + rng.Intn(4))

	// subscribers through the remote stack
	var subs []*wireSub

	kind := resource.NewMetadata(ns, vh.IntType, "", resource.VersionUndefined)

	collect := func(s *wireSub, ch chan state.Event, agg chan []state.Event) {
		go func() {
			for {
				var evs []state.Event

				select {
				case <-ctx.Done():
					return
				case e := <-ch:
					evs = []state.Event{e}
				case evs = <-agg:
				}

				s.mu.Lock()
				s.buf = append(s.buf, evs...)
				s.mu.Unlock()
			}
		}()
	}

	add := func(kindName, mode string, id int, filt bool, idq ...int) {
		s := &wireSub{w: len(subs) + 1, kind: kindName, id: id, selective: filt || len(idq) > 0, idq: idq}
		ch := make(chan state.Event)
		agg := make(chan []state.Event)

		var serr error

		switch kindName {
		case "one":
			serr = adapter.Watch(ctx, vh.Key{NS: ns, Typ: vh.IntType, ID: idNames[id]}.Pointer(), ch)
		default:
			var opts []state.WatchKindOption

			if mode == "bootstrap" {
				opts = append(opts, state.WithBootstrapContents(true))
			}

			if filt {
				opts = append(opts, state.WatchWithLabelQuery(resource.LabelEqual("l", "x")))
			}

			if len(idq) > 0 { // an ID selector matching exactly the ids idq (anchored alternation)
				re := "^("

				for i, x := range idq {
					if i > 0 {
						re += "|"
					}

					re += regexp.QuoteMeta(idNames[x])
				}

				opts = append(opts, state.WatchWithIDQuery(resource.IDRegexpMatch(regexp.MustCompile(re+")$"))))
			}

			if kindName == "agg" {
				serr = adapter.WatchKindAggregated(ctx, kind, agg, opts...)
			} else {
				serr = adapter.WatchKind(ctx, kind, ch, opts...)
			}
		}

		if serr != nil {
			t.Fatalf("watch: %v", serr)
		}

		emit(Line{Ev: "start", W: s.w, Kind: kindName, ID: id, Filt: filt, Mode: mode, Bm: "pos", Res: "ok", Remote: true, Retry: true, Idq: idq})
		collect(s, ch, agg)

		subs = append(subs, s)
	}

	add("all", "default", 0, false)
	add("all", "bootstrap", 0, rng.Intn(2) == 0)
	add("agg", "bootstrap", 0, false)
	add("one", "default", 1+rng.Intn(3), false)
	// selectors that have to survive the re-establishment of the watch: an ID selector, alone and together with a label selector
	add("all", "default", 0, false, 1, 3)
	add("agg", "bootstrap", 0, rng.Intn(2) == 0, 2)

	flush := func() {
		for _, s := range subs {
			s.mu.Lock()
			buf := s.buf
			s.buf = nil
			s.mu.Unlock()

			for _, e := range buf {
				emit(Line{Ev: "recv", W: s.w, E: project(e)})

				if e.Type == state.Errored {
					s.done = true
				}
			}
		}
	}

	// wait until a marker written now has reached every subscriber that can see it (or the deadline passes), then flush
	settle := func(limit time.Duration) {
		deadline := time.Now().Add(limit)
		stable := 0
		last := -1

		for time.Now().Before(deadline) && stable < 8 {
			time.Sleep(50 * time.Millisecond)

			n := 0

			for _, s := range subs {
				s.mu.Lock()
				n += len(s.buf)
				s.mu.Unlock()
			}

			if n == last {
				stable++
			} else {
				stable, last = 0, n
			}
		}

		flush()
	}

	settle(3 * time.Second) // initial events / bootstrap contents (every event bookmarked from here on)

	randomWrites(2 + rng.Intn(4))
	settle(3 * time.Second)

	outages := 1 + rng.Intn(2)

	for range outages {
		// the server goes away: every stream is reset
		srv.Stop()

		for _, s := range subs {
			if !s.done {
				emit(Line{Ev: "fault", W: s.w, N: 1})
			}
		}

		randomWrites(rng.Intn(5)) // history made during the outage
		time.Sleep(time.Duration(200+rng.Intn(900)) * time.Millisecond)

		srv = startServer()

		randomWrites(1 + rng.Intn(3))

		// reconnect + re-establishment back-off (grpc's and the adapter's): generous
		settleAfterOutage(subs, 25*time.Second)
		flush()
	}

	randomWrites(2)

	// final barrier: the trace may end only when every live subscriber has demonstrably caught up - the client's
	// re-establishment back-off is real time, a subscriber whose selector hides the writes made after an outage shows no sign
	// of life by itself. Every id gets a last update that carries the label (visible to the label selector, to every ID selector
	// that admits the id and to the single-resource watch of the id); each subscriber has to deliver the marker of the last id it
	// can see (or an Errored event).
	for id := 1; id <= 3; id++ {
		if _, exists := vers[id]; exists {
			write("update", id, true)
		} else {
			write("create", id, true)
		}
	}

	barrier := time.Now().Add(90 * time.Second)

	for time.Now().Before(barrier) {
		caught := true

		for _, s := range subs {
			last := 3

			switch {
			case s.kind == "one":
				last = s.id
			case len(s.idq) > 0:
				last = slices.Max(s.idq)
			}

			s.mu.Lock()

			ok := s.done

			for _, e := range s.buf {
				if e.Type == state.Errored ||
					(e.Resource != nil && e.Resource.Metadata().ID() == idNames[last] && vh.VersionInt(e.Resource.Metadata().Version()) == vers[last]) {
					ok = true
				}
			}

			s.mu.Unlock()

			caught = caught && ok
		}

		if caught {
			break
		}

		time.Sleep(50 * time.Millisecond)
	}

	settle(2 * time.Second)

	emit(Line{Ev: "end"})

	srv.Stop()
}

// settleAfterOutage waits until the buffers of all subscribers stopped growing for a while AND at least one event arrived
// after the restart at every live subscriber, or the limit passes.
func settleAfterOutage(subs []*wireSub, limit time.Duration) {
	deadline := time.Now().Add(limit)
	base := make([]int, len(subs))

	for i, s := range subs {
		s.mu.Lock()
		base[i] = len(s.buf)
		s.mu.Unlock()
	}

	stable, last := 0, -1

	for time.Now().Before(deadline) {
		time.Sleep(100 * time.Millisecond)

		n, all := 0, true

		for i, s := range subs {
			s.mu.Lock()
			n += len(s.buf)

			if !s.done && len(s.buf) == base[i] && s.kind != "one" && !s.selective {
				all = false
			}
			s.mu.Unlock()
		}

		if n == last {
			stable++
		} else {
			stable, last = 0, n
		}

		if all && stable >= 10 {
			return
		}
	}
}
