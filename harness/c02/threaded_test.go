package c02

import (
	"context"
	"math/rand"
	"runtime"
	"strconv"
	"sync"
	"sync/atomic"
	"testing"
	"time"

	"github.com/cosi-project/runtime/pkg/controller/conformance"
	"github.com/cosi-project/runtime/pkg/resource"
	"github.com/cosi-project/runtime/pkg/state"
	"github.com/cosi-project/runtime/pkg/state/impl/inmem"

	"verifharness/vh"
)

// TestThreaded: writers and subscribers of every kind on real threads under the real scheduler (no bubble, no gates):
// concurrent writers on a few ids, watches started at any time with every option (tail, bookmark resume, bootstrap,
// selector), consumers that are fast, slow or stalled. The driver records nothing itself: the linearization-point hooks
// inside the collection (VERIF_INMEM_TRACE) write the trace, so every publish, every ring read of every watcher and every
// hand-off is in lock order, and TraceInmem judges them. What the bubble drivers can only sample (a watcher that re-acquires
// the lock late, in the middle of a burst of another writer) happens here by itself.
func TestThreaded(t *testing.T) {
	seed := int64(vh.EnvInt("VERIF_SEED", 1))
	rounds := vh.EnvInt("VERIF_ROUNDS", 40)

	rings := [][3]int{{1, 1, 0}, {2, 2, 0}, {2, 4, 1}, {3, 5, 1}, {4, 8, 2}, {4, 4, 3}, {8, 64, 2}}

	for r := range rounds {
		rng := rand.New(rand.NewSource(seed*1000003 + int64(r)))
		ring := rings[r%len(rings)]

		prev := runtime.GOMAXPROCS([]int{1, 2, 4, 16}[rng.Intn(4)])

		threadedRound(t, rng, ring)

		runtime.GOMAXPROCS(prev)
	}
}

// nullStore is a backing store that keeps nothing (the collection only needs its verdict on every write).
type nullStore struct{}

func (nullStore) Load(context.Context, inmem.LoadHandler) error                  { return nil }
func (nullStore) Put(context.Context, resource.Type, resource.Resource) error    { return nil }
func (nullStore) Destroy(context.Context, resource.Type, resource.Pointer) error { return nil }

func threadedRound(t *testing.T, rng *rand.Rand, ring [3]int) {
	opts := []inmem.StateOption{
		inmem.WithHistoryInitialCapacity(ring[0]), inmem.WithHistoryMaxCapacity(ring[1]), inmem.WithHistoryGap(ring[2]),
	}

	// every third round: a backing store that rejects every fourth write - a rejected write must leave no trace in the
	// collection, so no subscriber may see (or miss) anything because of it
	if rng.Intn(3) == 0 {
		opts = append(opts, inmem.WithBackingStore(&vh.FaultyStore{BackingStore: nullStore{}, N: &atomic.Int64{}, Every: 4}))
	}

	st := state.WrapCore(inmem.NewStateWithOptions(opts...)("n1"))

	ctx, cancel := context.WithCancel(context.Background())
	defer cancel()

	ids := []string{"a", "b", "c"}
	kind := resource.NewMetadata("n1", conformance.IntResourceType, "", resource.VersionUndefined)

	var (
		wg     sync.WaitGroup
		bmMu   sync.Mutex
		bmSeen []state.Bookmark
	)

	writers := 1 + rng.Intn(3)
	writes := 6 + rng.Intn(30)

	for w := range writers {
		wrng := rand.New(rand.NewSource(rng.Int63()))

		wg.Add(1)

		go func() {
			defer wg.Done()

			for i := range writes {
				id := ids[wrng.Intn(len(ids))]
				ptr := resource.NewMetadata("n1", conformance.IntResourceType, id, resource.VersionUndefined)

				switch wrng.Intn(6) {
				case 0, 1:
					res := conformance.NewIntResource("n1", id, w*1000+i)
					if wrng.Intn(2) == 0 {
						res.Metadata().Labels().Set("l", "x")
					}

					st.Create(ctx, res) //nolint:errcheck
				case 2, 3, 4:
					if cur, err := st.Get(ctx, ptr); err == nil {
						if wrng.Intn(2) == 0 {
							cur.Metadata().Labels().Set("l", "x")
						} else {
							cur.Metadata().Labels().Delete("l")
						}

						cur.Metadata().Annotations().Set("i", strconv.Itoa(i))
						st.Update(ctx, cur) //nolint:errcheck
					}
				default:
					st.Destroy(ctx, ptr) //nolint:errcheck
				}

				switch wrng.Intn(4) {
				case 0:
					runtime.Gosched()
				case 1:
					time.Sleep(time.Duration(wrng.Intn(300)) * time.Microsecond)
				}
			}
		}()
	}

	watchers := 2 + rng.Intn(5)

	for range watchers {
		wrng := rand.New(rand.NewSource(rng.Int63()))

		wg.Add(1)

		go func() {
			defer wg.Done()

			time.Sleep(time.Duration(wrng.Intn(2000)) * time.Microsecond)

			wctx, wcancel := context.WithCancel(ctx)
			defer wcancel()

			single := make(chan state.Event)
			agg := make(chan []state.Event)

			var err error

			flavour := wrng.Intn(3)

			var bm state.Bookmark

			bmMu.Lock()
			if len(bmSeen) > 0 {
				bm = bmSeen[wrng.Intn(len(bmSeen))]
			}
			bmMu.Unlock()

			switch flavour {
			case 0: // single resource
				ptr := resource.NewMetadata("n1", conformance.IntResourceType, ids[wrng.Intn(len(ids))], resource.VersionUndefined)

				switch m := wrng.Intn(4); {
				case m == 0:
					err = st.Watch(wctx, ptr, single, state.WithTailEvents(1+wrng.Intn(6)))
				case m == 1 && bm != nil:
					err = st.Watch(wctx, ptr, single, state.WithStartFromBookmark(bm))
				default:
					err = st.Watch(wctx, ptr, single)
				}
			default:
				var opts []state.WatchKindOption

				switch m := wrng.Intn(5); {
				case m == 0:
					opts = append(opts, state.WithKindTailEvents(1+wrng.Intn(6)))
				case m == 1 && bm != nil:
					opts = append(opts, state.WithKindStartFromBookmark(bm))
				case m == 2:
					opts = append(opts, state.WithBootstrapContents(true))
				}

				if wrng.Intn(3) == 0 {
					opts = append(opts, state.WithBootstrapBookmark(true))
				}

				if wrng.Intn(3) == 0 {
					opts = append(opts, state.WatchWithLabelQuery(resource.LabelEqual("l", "x")))
				}

				if flavour == 1 {
					err = st.WatchKind(wctx, kind, single, opts...)
				} else {
					err = st.WatchKindAggregated(wctx, kind, agg, opts...)
				}
			}

			if err != nil {
				return
			}

			// consumer: fast, slow or stalled for a while
			speed := wrng.Intn(3)
			limit := 5 + wrng.Intn(60)

			for n := 0; n < limit; n++ {
				if speed == 1 {
					time.Sleep(time.Duration(wrng.Intn(400)) * time.Microsecond)
				} else if speed == 2 && n%4 == 1 {
					time.Sleep(time.Duration(1+wrng.Intn(3)) * time.Millisecond)
				}

				var evs []state.Event

				select {
				case e := <-single:
					evs = []state.Event{e}
				case evs = <-agg:
				case <-time.After(20 * time.Millisecond):
					return
				}

				for _, e := range evs {
					if e.Type == state.Errored {
						return
					}

					if e.Bookmark != nil && wrng.Intn(3) == 0 {
						bmMu.Lock()
						bmSeen = append(bmSeen, e.Bookmark)
						bmMu.Unlock()
					}
				}
			}
		}()
	}

	wg.Wait()
	cancel()
	// let the watch goroutines leave before the next round reuses the scheduler settings
	time.Sleep(time.Millisecond)

	_ = t
}
