// Package c10 drives the real in-memory state with a real bbolt backing store (several marshaler
// stackings) through TLC-generated request sequences annotated with backing-store failures and
// crash points. A decorator around the bolt store injects the faults; a crash drops the state
// object, closes the database file and re-opens everything. TracePersist judges.
package c10

import (
	"context"
	"errors"
	"fmt"
	"os"
	"path/filepath"
	"runtime"
	"sort"
	"sync"
	"sync/atomic"
	"testing"
	"testing/synctest"
	"time"

	"go.etcd.io/bbolt"

	"github.com/cosi-project/runtime/pkg/resource"
	"github.com/cosi-project/runtime/pkg/state"
	"github.com/cosi-project/runtime/pkg/state/impl/inmem"
	"github.com/cosi-project/runtime/pkg/state/impl/namespaced"
	"github.com/cosi-project/runtime/pkg/state/impl/store/bolt"

	"verifharness/vh"
)

type Step struct {
	Req   vh.Req `json:"req"`
	Fault string `json:"fault"`
}

type Line struct {
	Ev       string            `json:"ev"`
	Tid      string            `json:"tid"`
	Req      vh.Req            `json:"req"`
	Cls      string            `json:"cls"`
	Pv       map[string]string `json:"pv"`
	Out      []vh.KV           `json:"out"`
	Contents []vh.KV           `json:"contents"`
	Disk     []vh.KV           `json:"disk"`
	Nev      int               `json:"nev"`
	Inj      bool              `json:"inj"`
	During   bool              `json:"during"`
	Point    string            `json:"point"`
	Note     string            `json:"note"`
	Par      bool              `json:"par"` // parallel-clients stage: database file and watch events are not observed per operation
}

type crashSignal struct{}

type ctl struct {
	mu       sync.Mutex
	failNext bool
	crash    string // "", "before", "after"
	loadFail bool
	// loadFailK counts the injected load failures (the position at which the next one strikes)
	loadFailK int
	writes    int

	// gate of the next Load: after gateAfter injected resources the load signals entered and waits for gate
	gate      chan struct{}
	entered   chan struct{}
	gateAfter int
}

// faultStore decorates a backing store with injected failures and crash points.
type faultStore struct {
	inner inmem.BackingStore
	c     *ctl
}

func (f *faultStore) write(do func() error) error {
	f.c.mu.Lock()
	fail, crash := f.c.failNext, f.c.crash
	f.c.failNext, f.c.crash = false, ""
	f.c.writes++
	f.c.mu.Unlock()

	if fail {
		return errors.New("injected backing store failure")
	}

	if crash == "before" {
		panic(crashSignal{})
	}

	err := do()

	if crash == "after" {
		panic(crashSignal{})
	}

	return err
}

func (f *faultStore) Put(ctx context.Context, typ resource.Type, r resource.Resource) error {
	return f.write(func() error { return f.inner.Put(ctx, typ, r) })
}

func (f *faultStore) Destroy(ctx context.Context, typ resource.Type, ptr resource.Pointer) error {
	return f.write(func() error { return f.inner.Destroy(ctx, typ, ptr) })
}

func (f *faultStore) Load(ctx context.Context, h inmem.LoadHandler) error {
	f.c.mu.Lock()
	fail := f.c.loadFail
	f.c.loadFail = false
	f.c.mu.Unlock()

	if fail {
		// the load breaks off after k resources have been handed over (k = 0, 1, 2, ... in turn; beyond the last resource: the
		// failure comes after everything was delivered): whatever was injected by the broken load must not get in the way of
		// the next attempt
		f.c.mu.Lock()
		k := f.c.loadFailK % 4
		f.c.loadFailK++
		f.c.mu.Unlock()

		n := 0

		if err := f.inner.Load(ctx, func(typ resource.Type, r resource.Resource) error {
			if n >= k {
				return errors.New("injected load failure")
			}

			n++

			return h(typ, r)
		}); err != nil {
			return err
		}

		return errors.New("injected load failure")
	}

	f.c.mu.Lock()
	gate, entered, after := f.c.gate, f.c.entered, f.c.gateAfter
	f.c.gate, f.c.entered = nil, nil
	f.c.mu.Unlock()

	if gate == nil {
		return f.inner.Load(ctx, h)
	}

	n := 0
	park := func() {
		if entered != nil {
			close(entered)
			entered = nil

			<-gate
		}
	}

	err := f.inner.Load(ctx, func(typ resource.Type, r resource.Resource) error {
		if n == after {
			park()
		}

		n++

		return h(typ, r)
	})

	park() // fewer resources than gateAfter: park at the end of the load

	return err
}

var marshalers = []string{"pb", "enc", "zstd", "zstd-big", "enc-zstd", "zstd-enc"}

type env struct {
	t      *testing.T
	path   string
	m      string
	c      *ctl
	bs     *bolt.BackingStore
	st     state.CoreState
	cancel context.CancelFunc
	nev    atomic.Int64
	crs    *vh.CrMap
}

func (e *env) open() {
	bs, err := bolt.NewBackingStore(func() (*bbolt.DB, error) {
		return bbolt.Open(e.path, 0o600, &bbolt.Options{NoSync: true})
	}, vh.Marshaler(e.m))
	if err != nil {
		e.t.Fatal(err)
	}

	e.bs = bs
	e.st = namespaced.NewState(func(ns resource.Namespace) state.CoreState {
		return inmem.NewStateWithOptions(inmem.WithBackingStore(&faultStore{inner: bs.WithNamespace(ns), c: e.c}))(ns)
	})
}

// watch starts kind watchers that count delivered change events.
func (e *env) watch() {
	ctx, cancel := context.WithCancel(context.Background())
	e.cancel = cancel

	for _, typ := range vh.Types {
		ch := make(chan state.Event)

		if err := e.st.WatchKind(ctx, resource.NewMetadata("n1", typ, "", resource.VersionUndefined), ch); err != nil {
			continue // injected load failure: the next access retries
		}

		go func() {
			for {
				select {
				case <-ctx.Done():
					return
				case ev := <-ch:
					if ev.Type == state.Created || ev.Type == state.Updated || ev.Type == state.Destroyed {
						e.nev.Add(1)
					}
				}
			}
		}()
	}
}

func (e *env) close() {
	if e.cancel != nil {
		e.cancel()
	}

	synctest.Wait()

	if err := e.bs.Close(); err != nil {
		e.t.Fatal(err)
	}
}

// disk reads the database file back through the bolt store itself (not through the state).
func (e *env) disk() []vh.KV {
	res := []vh.KV{}

	err := e.bs.WithNamespace("n1").Load(context.Background(), func(_ resource.Type, r resource.Resource) error {
		res = append(res, vh.KV{K: vh.KeyOf(r.Metadata()), V: vh.Project(r, e.crs)})

		return nil
	})
	if err != nil {
		res = append(res, vh.KV{K: vh.Key{NS: "n1", Typ: "!", ID: "load-error: " + err.Error()}})
	}

	sort.Slice(res, func(i, j int) bool {
		if res[i].K.Typ != res[j].K.Typ {
			return res[i].K.Typ < res[j].K.Typ
		}

		return res[i].K.ID < res[j].K.ID
	})

	return res
}

// diskOf reads the database file while no state is open (between close and open).
func (e *env) diskOf() []vh.KV {
	bs, err := bolt.NewBackingStore(func() (*bbolt.DB, error) {
		return bbolt.Open(e.path, 0o600, &bbolt.Options{NoSync: true})
	}, vh.Marshaler(e.m))
	if err != nil {
		e.t.Fatal(err)
	}

	old := e.bs
	e.bs = bs
	res := e.disk()
	e.bs = old

	if err = bs.Close(); err != nil {
		e.t.Fatal(err)
	}

	return res
}

func (e *env) dump() []vh.KV {
	all := vh.Dump(context.Background(), e.st, e.crs)
	res := []vh.KV{}

	for _, kv := range all {
		if kv.K.NS == "n1" {
			res = append(res, kv)
		}
	}

	return res
}

func runBehaviour(t *testing.T, tr *vh.Trace, tid string, m string, beh []Step) {
	synctest.Test(t, func(t *testing.T) {
		dir, err := os.MkdirTemp("", "c10")
		if err != nil {
			t.Fatal(err)
		}

		defer os.RemoveAll(dir) //nolint:errcheck

		e := &env{t: t, path: filepath.Join(dir, "state.db"), m: m, c: &ctl{loadFailK: len(tid) + len(beh)}, crs: &vh.CrMap{}}
		emit := func(l Line) {
			l.Tid = tid
			if l.Pv == nil {
				l.Pv = map[string]string{}
			}

			if l.Out == nil {
				l.Out = []vh.KV{}
			}

			if l.Contents == nil {
				l.Contents = []vh.KV{}
			}

			if l.Disk == nil {
				l.Disk = []vh.KV{}
			}

			tr.Emit(l)
		}

		emit(Line{Ev: "reset"})
		e.open()
		e.watch()

		restart := func(loadFail bool) {
			e.close()

			e.c.mu.Lock()
			e.c.loadFail = loadFail
			e.c.mu.Unlock()

			e.open()

			if loadFail {
				// the first access after the restart fails loudly, the next one loads
				_, gerr := e.st.Get(context.Background(), vh.Key{NS: "n1", Typ: vh.IntType, ID: "a"}.Pointer())
				emit(Line{Ev: "note", Note: fmt.Sprintf("first access after restart: %v", gerr)})
			}

			contents := e.dump()
			e.watch()
			synctest.Wait()
			e.nev.Store(0)
			emit(Line{Ev: "reopen", Contents: contents, Disk: e.disk()})
		}

		// restartRace: like restart, but the first access of the new state is made by two clients at once:
		// client A's read is parked inside the backing store's Load (after `after` injected resources), client B
		// then issues its request; B gets every chance to run before the load is released.
		restartRace := func(variant int) {
			e.close()

			persisted := e.diskOf()
			gate, entered := make(chan struct{}), make(chan struct{})

			e.c.mu.Lock()
			e.c.gate, e.c.entered, e.c.gateAfter = gate, entered, variant%2
			e.c.mu.Unlock()

			e.open()

			type rr struct {
				rq  vh.Req
				cls string
				out []vh.KV
			}

			run := func(rq vh.Req, ch chan rr) {
				cls, _, out, _ := vh.Exec(context.Background(), e.st, rq, e.crs, 0)
				ch <- rr{rq, cls, out}
			}

			reqA := vh.Req{Op: "list", K: vh.Key{NS: "n1", Typ: vh.IntType}, Exp: "any"}
			reqB := vh.Req{Op: "list", K: vh.Key{NS: "n1", Typ: vh.StrType}, Exp: "any"}

			switch {
			case variant%3 == 1 && len(persisted) > 0:
				reqB = vh.Req{Op: "get", K: persisted[len(persisted)-1].K, Exp: "any"}
			case variant%3 == 2 && len(persisted) > 0:
				kv := persisted[0]
				reqB = vh.Req{Op: "create", K: kv.K, Owner: kv.V.Owner, Exp: "any", Obj: kv.V}
			case variant%3 == 0:
				reqB.K.Typ = vh.IntType
			}

			chA, chB := make(chan rr, 1), make(chan rr, 1)

			go run(reqA, chA)
			<-entered

			go run(reqB, chB)

			var b *rr

			for i := 0; i < 20000 && b == nil; i++ {
				runtime.Gosched()

				select {
				case x := <-chB:
					b = &x
				default:
				}
			}

			early := b != nil

			close(gate)

			a := <-chA

			if b == nil {
				x := <-chB
				b = &x
			}

			contents := e.dump()
			e.watch()
			synctest.Wait()
			e.nev.Store(0)
			emit(Line{Ev: "reopen", Contents: contents, Disk: e.disk()})
			emit(Line{Ev: "raceread", Req: a.rq, Cls: a.cls, Out: a.out, Note: "client A (performed the load)"})
			emit(Line{Ev: "raceread", Req: b.rq, Cls: b.cls, Out: b.out, Note: fmt.Sprintf("client B (concurrent first access; returned before the load finished: %v)", early)})
		}

		for i, s := range beh {
			rq := s.Req
			rq.K.NS = "n1"

			e.c.mu.Lock()
			e.c.failNext = s.Fault == "fail"

			switch s.Fault {
			case "crashBefore":
				e.c.crash = "before"
			case "crashAfter":
				e.c.crash = "after"
			default:
				e.c.crash = ""
			}

			writesBefore := e.c.writes
			e.c.mu.Unlock()

			synctest.Wait()
			// virtual time advances between requests, so that creation / update timestamps of different
			// requests differ (a request object built now must not leak its own creation time anywhere)
			time.Sleep(time.Second)
			e.nev.Store(0)

			var (
				cls     string
				pv      map[string]string
				out     []vh.KV
				crashed bool
			)

			func() {
				defer func() {
					if p := recover(); p != nil {
						if _, ok := p.(crashSignal); !ok {
							panic(p)
						}

						crashed = true
					}
				}()

				cls, pv, out, _ = vh.Exec(context.Background(), e.st, rq, e.crs, i)
			}()

			e.c.mu.Lock()
			reached := e.c.writes > writesBefore
			e.c.failNext, e.c.crash = false, ""
			e.c.mu.Unlock()

			if crashed {
				emit(Line{Ev: "crash", Req: rq, During: true, Point: s.Fault})
				restart(false)

				continue
			}

			synctest.Wait()
			emit(Line{Ev: "op", Req: rq, Cls: cls, Pv: pv, Out: out, Contents: e.dump(), Disk: e.disk(), Nev: int(e.nev.Load()), Inj: s.Fault == "fail" && reached})

			switch s.Fault {
			case "crashBetween":
				emit(Line{Ev: "crash", Req: rq, During: false, Point: "between"})
				restart(false)
			case "loadFail":
				emit(Line{Ev: "crash", Req: rq, During: false, Point: "between"})
				restart(true)
			case "crashRace":
				emit(Line{Ev: "crash", Req: rq, During: false, Point: "between"})
				restartRace(i)
			}
		}

		e.close()
	})
}

func TestPersist(t *testing.T) {
	var behs [][]Step

	if err := vh.ReadJSON(vh.Env("VERIF_IN"), &behs); err != nil {
		t.Fatal(err)
	}

	tr, err := vh.NewTrace(vh.Env("VERIF_OUT"))
	if err != nil {
		t.Fatal(err)
	}

	defer tr.Close() //nolint:errcheck

	for i, b := range behs {
		m := marshalers[i%len(marshalers)]
		runBehaviour(t, tr, fmt.Sprintf("%s#%d", m, i), m, b)
	}
}
