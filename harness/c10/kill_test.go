package c10

import (
	"bufio"
	"context"
	"encoding/json"
	"fmt"
	"math/rand"
	"os"
	"os/exec"
	"path/filepath"
	"strings"
	"testing"
	"time"

	"go.etcd.io/bbolt"

	"github.com/cosi-project/runtime/pkg/resource"
	"github.com/cosi-project/runtime/pkg/state"
	"github.com/cosi-project/runtime/pkg/state/impl/inmem"
	"github.com/cosi-project/runtime/pkg/state/impl/namespaced"
	"github.com/cosi-project/runtime/pkg/state/impl/store/bolt"

	"verifharness/vh"
)

func openKillState(path, m string) (*bolt.BackingStore, state.CoreState, error) {
	bs, err := bolt.NewBackingStore(func() (*bbolt.DB, error) {
		// real syncs: the commit of a bbolt transaction takes long enough for a kill to land inside it
		return bbolt.Open(path, 0o600, &bbolt.Options{Timeout: 5 * time.Second})
	}, vh.Marshaler(m))
	if err != nil {
		return nil, nil, err
	}

	return bs, namespaced.NewState(func(ns resource.Namespace) state.CoreState {
		return inmem.NewStateWithOptions(inmem.WithBackingStore(bs.WithNamespace(ns)))(ns)
	}), nil
}

func n1Contents(st state.CoreState, crs *vh.CrMap) []vh.KV {
	return vh.DumpNS(context.Background(), st, crs, []string{"n1"})
}

// TestKillChild is the body of the child process: it executes the script, announcing every operation before it starts ("B i")
// and acknowledging it afterwards with everything it observed ("A i <json>"), and is killed by its parent at some instant.
func TestKillChild(t *testing.T) {
	if os.Getenv("VERIF_CHILD") != "1" {
		t.Skip("child mode only")
	}

	var script []vh.Req

	if err := vh.ReadJSON(vh.Env("VERIF_SCRIPT"), &script); err != nil {
		t.Fatal(err)
	}

	_, st, err := openKillState(vh.Env("VERIF_DB"), vh.Env("VERIF_M"))
	if err != nil {
		t.Fatal(err)
	}

	ctx := context.Background()
	crs := &vh.CrMap{Raw: true}
	out := os.Stdout

	for i, rq := range script {
		rq.K.NS = "n1"

		if rq.Op == "update" && i%2 == 0 {
			if cur, gerr := st.Get(ctx, rq.K.Pointer()); gerr == nil {
				rq.Obj.Ver = vh.VersionInt(cur.Metadata().Version())
			}
		}

		rb, _ := json.Marshal(rq) //nolint:errcheck

		fmt.Fprintf(out, "B %d %s\n", i, rb)

		cls, _, _, _ := vh.Exec(ctx, st, rq, crs, i)
		c := n1Contents(st, crs)

		lb, _ := json.Marshal(Line{Ev: "op", Req: rq, Cls: cls, Pv: map[string]string{}, Out: []vh.KV{}, Contents: c, Disk: c, Par: true}) //nolint:errcheck

		fmt.Fprintf(out, "A %d %s\n", i, lb)
	}

	fmt.Fprintf(out, "DONE\n")

	time.Sleep(time.Hour) // the parent kills us
}

// TestKill: the operation script runs in a child process against a real bbolt file (with real syncs); the parent kills the child
// with SIGKILL at a random instant after a randomly chosen operation was announced (so the kill lands before, inside or after
// the bbolt transaction, or between the commit and the in-memory update, or between operations), re-opens the file in a new
// child for the rest of the script (second kill) and finally itself. Acknowledged operations and the re-opened contents are the
// trace; TracePersist decides (a prefix of the issued operations containing every acknowledged one).
func TestKill(t *testing.T) {
	var behs [][]Step

	if err := vh.ReadJSON(vh.Env("VERIF_IN"), &behs); err != nil {
		t.Fatal(err)
	}

	tr, err := vh.NewTrace(vh.Env("VERIF_OUT"))
	if err != nil {
		t.Fatal(err)
	}

	defer tr.Close() //nolint:errcheck

	seed := int64(vh.EnvInt("VERIF_SEED", 1))
	dir := t.TempDir()

	emit := func(tid string, l Line) {
		l.Tid = tid

		if l.Pv == nil {
			l.Pv = map[string]string{}
		}

		if l.Out == nil {
			l.Out = []vh.KV{}
		}

		if l.Contents == nil {
			l.Contents = []vh.KV{}
		}

		if l.Disk == nil {
			l.Disk = []vh.KV{}
		}

		tr.Emit(l)
	}

	for bi, beh := range behs {
		m := marshalers[bi%len(marshalers)]
		tid := fmt.Sprintf("kill-%s#%d", m, bi)
		rng := rand.New(rand.NewSource(seed*104729 + int64(bi)))
		db := filepath.Join(dir, fmt.Sprintf("kill%d.db", bi))

		script := make([]vh.Req, 0, len(beh))
		for _, s := range beh {
			script = append(script, s.Req)
		}

		emit(tid, Line{Ev: "reset"})

		crs := &vh.CrMap{Raw: true}
		killed := 0

		for len(script) > 0 && killed < 3 {
			sp := filepath.Join(dir, fmt.Sprintf("script%d-%d.json", bi, killed))

			sb, _ := json.Marshal(script) //nolint:errcheck
			if werr := os.WriteFile(sp, sb, 0o600); werr != nil {
				t.Fatal(werr)
			}

			cmd := exec.Command(os.Args[0], "-test.run", "^TestKillChild$", "-test.count=1")
			cmd.Env = append(os.Environ(), "VERIF_CHILD=1", "VERIF_SCRIPT="+sp, "VERIF_DB="+db, "VERIF_M="+m, "VERIF_INMEM_TRACE=")

			stdout, perr := cmd.StdoutPipe()
			if perr != nil {
				t.Fatal(perr)
			}

			if serr := cmd.Start(); serr != nil {
				t.Fatal(serr)
			}

			killAt := rng.Intn(len(script) + 1) // == len(script): after the last operation ("DONE")
			delay := time.Duration(rng.Intn(3000)) * time.Microsecond

			if rng.Intn(4) == 0 {
				delay = 0
			}

			var (
				begun    = -1
				acked    = -1
				inflight *vh.Req
			)

			sc := bufio.NewScanner(stdout)
			sc.Buffer(make([]byte, 1<<20), 1<<24)

			killedNow := false

			for sc.Scan() {
				ln := sc.Text()

				switch {
				case strings.HasPrefix(ln, "B "):
					var (
						i  int
						rq vh.Req
					)

					parts := strings.SplitN(ln, " ", 3)
					fmt.Sscanf(parts[1], "%d", &i) //nolint:errcheck

					if jerr := json.Unmarshal([]byte(parts[2]), &rq); jerr != nil {
						t.Fatal(jerr)
					}

					begun, inflight = i, &rq

					if i == killAt && !killedNow {
						killedNow = true

						go func() {
							time.Sleep(delay)
							cmd.Process.Kill() //nolint:errcheck
						}()
					}
				case strings.HasPrefix(ln, "A "):
					var (
						i int
						l Line
					)

					parts := strings.SplitN(ln, " ", 3)
					fmt.Sscanf(parts[1], "%d", &i) //nolint:errcheck

					if jerr := json.Unmarshal([]byte(parts[2]), &l); jerr != nil {
						t.Fatal(jerr)
					}

					acked, inflight = i, nil

					emit(tid, l)
				case ln == "DONE":
					if !killedNow {
						killedNow = true

						go func() {
							time.Sleep(delay)
							cmd.Process.Kill() //nolint:errcheck
						}()
					}
				}
			}

			cmd.Wait() //nolint:errcheck

			killed++

			_ = begun

			if inflight != nil {
				emit(tid, Line{Ev: "crash", During: true, Req: *inflight, Point: "sigkill"})
			} else {
				emit(tid, Line{Ev: "crash", During: false, Point: "sigkill"})
			}

			// what a new process finds
			bs, st, oerr := openKillState(db, m)
			if oerr != nil {
				emit(tid, Line{Ev: "reopen", Contents: []vh.KV{{K: vh.Key{NS: "n1", Typ: "!", ID: "open-error: " + oerr.Error()}, V: vh.Obj{}}}})

				break
			}

			emit(tid, Line{Ev: "reopen", Contents: n1Contents(st, crs), Note: fmt.Sprintf("killed after announcing op %d of %d (acknowledged up to %d), delay %v", killAt, len(script), acked, delay)})

			if cerr := bs.Close(); cerr != nil {
				t.Fatal(cerr)
			}

			// the rest of the script (the operation that was in flight is not issued again)
			next := acked + 1
			if inflight != nil {
				next = acked + 2
			}

			if next >= len(script) {
				break
			}

			script = script[next:]
		}
	}
}
