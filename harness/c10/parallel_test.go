package c10

import (
	"context"
	"fmt"
	"path/filepath"
	"sync"
	"testing"

	"go.etcd.io/bbolt"

	"github.com/cosi-project/runtime/pkg/resource"
	"github.com/cosi-project/runtime/pkg/state"
	"github.com/cosi-project/runtime/pkg/state/impl/inmem"
	"github.com/cosi-project/runtime/pkg/state/impl/namespaced"
	"github.com/cosi-project/runtime/pkg/state/impl/store/bolt"

	"verifharness/vh"
)

// TestParallelPersist: several clients write at the same time, each to a namespace of its own, through ONE bbolt file and ONE
// marshaler stacking (real threads, no bubble). Namespaces are independent collections, so every client's history is a
// sequential history of its own namespace; after all of them finished the file is closed and re-opened and every namespace must
// hold exactly what its client was acknowledged. What one client writes must never depend on what another one is encoding.
func TestParallelPersist(t *testing.T) {
	var behs [][]Step

	if err := vh.ReadJSON(vh.Env("VERIF_IN"), &behs); err != nil {
		t.Fatal(err)
	}

	tr, err := vh.NewTrace(vh.Env("VERIF_OUT"))
	if err != nil {
		t.Fatal(err)
	}

	defer tr.Close() //nolint:errcheck

	const workers = 4

	emit := func(l Line) {
		if l.Pv == nil {
			l.Pv = map[string]string{}
		}

		if l.Out == nil {
			l.Out = []vh.KV{}
		}

		if l.Contents == nil {
			l.Contents = []vh.KV{}
		}

		if l.Disk == nil {
			l.Disk = []vh.KV{}
		}

		tr.Emit(l)
	}

	for g := 0; g+workers <= len(behs); g += workers {
		m := marshalers[(g/workers)%len(marshalers)]
		path := filepath.Join(t.TempDir(), fmt.Sprintf("par%d.db", g))

		open := func() (*bolt.BackingStore, state.CoreState) {
			bs, oerr := bolt.NewBackingStore(func() (*bbolt.DB, error) {
				return bbolt.Open(path, 0o600, &bbolt.Options{NoSync: true})
			}, vh.Marshaler(m))
			if oerr != nil {
				t.Fatal(oerr)
			}

			return bs, namespaced.NewState(func(ns resource.Namespace) state.CoreState {
				return inmem.NewStateWithOptions(inmem.WithBackingStore(bs.WithNamespace(ns)))(ns)
			})
		}

		bs, st := open()
		ctx := context.Background()

		contentsOf := func(st state.CoreState, ns string, crs *vh.CrMap) []vh.KV {
			res := []vh.KV{}

			for _, kv := range vh.DumpNS(ctx, st, crs, []string{ns}) {
				res = append(res, kv)
			}

			return res
		}

		lines := make([][]Line, workers)
		crss := make([]*vh.CrMap, workers)

		var wg sync.WaitGroup

		for w := range workers {
			wg.Add(1)

			crss[w] = &vh.CrMap{}

			go func() {
				defer wg.Done()

				ns := fmt.Sprintf("w%d", w)

				for i, step := range behs[g+w] {
					rq := step.Req
					rq.K.NS = ns

					if rq.Op == "update" && i%2 == 0 { // fresh versions keep most updates successful
						if cur, gerr := st.Get(ctx, rq.K.Pointer()); gerr == nil {
							rq.Obj.Ver = vh.VersionInt(cur.Metadata().Version())
						}
					}

					cls, _, _, _ := vh.Exec(ctx, st, rq, crss[w], i)
					c := contentsOf(st, ns, crss[w])
					lines[w] = append(lines[w], Line{Ev: "op", Req: rq, Cls: cls, Contents: c, Disk: c, Par: true})
				}
			}()
		}

		wg.Wait()

		if cerr := bs.Close(); cerr != nil {
			t.Fatal(cerr)
		}

		bs, st = open()

		for w := range workers {
			tid := fmt.Sprintf("par-%s#%d", m, g+w)
			emit(Line{Ev: "reset", Tid: tid})

			for _, l := range lines[w] {
				l.Tid = tid
				emit(l)
			}

			emit(Line{Ev: "crash", Tid: tid, During: false})
			emit(Line{Ev: "reopen", Tid: tid, Contents: contentsOf(st, fmt.Sprintf("w%d", w), crss[w])})
		}

		if cerr := bs.Close(); cerr != nil {
			t.Fatal(cerr)
		}
	}
}
