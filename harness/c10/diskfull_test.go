package c10

import (
	"context"
	"fmt"
	"path/filepath"
	"strings"
	"testing"

	"go.etcd.io/bbolt"

	"github.com/cosi-project/runtime/pkg/resource"
	"github.com/cosi-project/runtime/pkg/state"
	"github.com/cosi-project/runtime/pkg/state/impl/inmem"
	"github.com/cosi-project/runtime/pkg/state/impl/namespaced"
	"github.com/cosi-project/runtime/pkg/state/impl/store/bolt"

	"verifharness/vh"
)

// TestDiskFull: the fault is not injected at the BackingStore interface but happens INSIDE bbolt: the database file may not grow
// beyond a small maximum size, so transactions start to fail at commit time. Resources carry a bulky annotation (not part of the
// projection); creates fill the file, updates and destroys follow. Every operation that returns an unclassified error is logged
// as a rejected write (it must leave no trace in memory); after closing and re-opening the file (without the limit) the
// contents must be exactly what was acknowledged.
func TestDiskFull(t *testing.T) {
	tr, err := vh.NewTrace(vh.Env("VERIF_OUT"))
	if err != nil {
		t.Fatal(err)
	}

	defer tr.Close() //nolint:errcheck

	rounds := vh.EnvInt("VERIF_ROUNDS", len(marshalers))
	ctx := context.Background()

	for r := range rounds {
		m := marshalers[r%len(marshalers)]
		tid := fmt.Sprintf("full-%s#%d", m, r)
		path := filepath.Join(t.TempDir(), fmt.Sprintf("full%d.db", r))

		open := func(maxSize int) (*bolt.BackingStore, state.CoreState) {
			bs, oerr := bolt.NewBackingStore(func() (*bbolt.DB, error) {
				return bbolt.Open(path, 0o600, &bbolt.Options{NoSync: true, MaxSize: maxSize})
			}, vh.Marshaler(m))
			if oerr != nil {
				t.Fatal(oerr)
			}

			return bs, namespaced.NewState(func(ns resource.Namespace) state.CoreState {
				return inmem.NewStateWithOptions(inmem.WithBackingStore(bs.WithNamespace(ns)))(ns)
			})
		}

		emit := func(l Line) {
			l.Tid = tid

			if l.Pv == nil {
				l.Pv = map[string]string{}
			}

			if l.Out == nil {
				l.Out = []vh.KV{}
			}

			if l.Contents == nil {
				l.Contents = []vh.KV{}
			}

			if l.Disk == nil {
				l.Disk = []vh.KV{}
			}

			tr.Emit(l)
		}

		emit(Line{Ev: "reset"})

		bs, st := open(96 << 10)
		crs := &vh.CrMap{}
		bulk := strings.Repeat("0123456789abcdef", 256+32*r) // 4 KiB and more, hard to compress away entirely is not needed: the limit is small

		contents := func() []vh.KV { return vh.DumpNS(ctx, st, crs, []string{"n1"}) }

		do := func(rq vh.Req, run func() error) {
			cls := vh.Class(run())
			c := contents()
			emit(Line{Ev: "op", Req: rq, Cls: cls, Contents: c, Disk: c, Par: true, Inj: cls == "other"})
		}

		for i := range 40 {
			k := vh.Key{NS: "n1", Typ: vh.IntType, ID: fmt.Sprintf("k%02d", i%14)}

			switch {
			case i%7 == 5: // destroy frees pages that later transactions can reuse
				do(vh.Req{Op: "destroy", K: k, Exp: "any", Obj: vh.Obj{Phase: "running"}}, func() error { return st.Destroy(ctx, k.Pointer()) })
			case i%3 == 2: // update (grows the record)
				cur, gerr := st.Get(ctx, k.Pointer())
				if gerr != nil {
					continue
				}

				o := vh.Project(cur, crs)
				o.Spec++

				nr := vh.NewRes(k, o)
				nr.Metadata().Annotations().Set("bulk", bulk+bulk[:i*16])

				do(vh.Req{Op: "update", K: k, Exp: "running", Obj: o}, func() error { return st.Update(ctx, nr) })
			default:
				o := vh.Obj{Spec: i, Phase: "running"}
				nr := vh.NewRes(k, o)
				nr.Metadata().Annotations().Set("bulk", bulk)

				do(vh.Req{Op: "create", K: k, Exp: "any", Obj: o}, func() error { return st.Create(ctx, nr) })
			}
		}

		if cerr := bs.Close(); cerr != nil {
			t.Fatal(cerr)
		}

		emit(Line{Ev: "crash", During: false, Point: "close"})

		bs, st = open(0)

		emit(Line{Ev: "reopen", Contents: contents()})

		if cerr := bs.Close(); cerr != nil {
			t.Fatal(cerr)
		}
	}
}
