// Package c03 drives the lifecycle helpers of state.WrapCore step by step through a gating
// CoreState proxy inside a synctest bubble, along TLC-generated schedules (C03, C04).
// Every underlying call and every watch delivery of every actor parks on a gate; the scheduler
// releases exactly one at a time and records what happened. TraceHelpers judges.
package c03

import (
	"context"
	"fmt"
	"sort"
	"strconv"
	"strings"
	"sync"
	"testing"
	"testing/synctest"

	"github.com/cosi-project/runtime/pkg/resource"
	"github.com/cosi-project/runtime/pkg/state"
	"github.com/cosi-project/runtime/pkg/state/impl/inmem"
	"github.com/cosi-project/runtime/pkg/state/impl/namespaced"

	"verifharness/vh"
)

type Call struct {
	H     string `json:"h"`
	Tok   string `json:"tok"`
	Fin   string `json:"fin"`
	Owner string `json:"owner"`
	Exp   string `json:"exp"`
	Cond  string `json:"cond"`
}

type Tok struct {
	A int    `json:"a"`
	K string `json:"k"` // step | deliver
}

type Beh struct {
	Prog  [][]Call `json:"prog"` // index = actor-1
	Sched []Tok    `json:"sched"`
}

type Val struct {
	Ver   int      `json:"ver"`
	Owner string   `json:"owner"`
	Phase string   `json:"phase"`
	Fins  []string `json:"fins"`
	Toks  []string `json:"toks"`
	Cnt   int      `json:"cnt"` // number of mutator applications the value went through (label "cnt")
}

func absent() Val { return Val{Phase: "running", Fins: []string{}, Toks: []string{}} }

func project(r resource.Resource) Val {
	if r == nil {
		return absent()
	}

	o := vh.Project(r, nil)
	v := Val{Ver: o.Ver, Owner: o.Owner, Phase: o.Phase, Fins: o.Fins, Toks: []string{}}

	for _, l := range o.Labels {
		if l[0] == "cnt" {
			v.Cnt, _ = strconv.Atoi(l[1])

			continue
		}

		v.Toks = append(v.Toks, l[0])
	}

	sort.Strings(v.Toks)

	if o.Ver == 0 {
		return absent()
	}

	return v
}

type Line struct {
	Ev           string `json:"ev"`
	Tid          string `json:"tid"`
	A            int    `json:"a"`
	H            string `json:"h"`
	Tok          string `json:"tok"`
	Fin          string `json:"fin"`
	Owner        string `json:"owner"`
	Exp          string `json:"exp"`
	Cond         string `json:"cond"`
	Op           string `json:"op"`
	Cls          string `json:"cls"`
	Ready        bool   `json:"ready"`
	Cancelled    bool   `json:"cancelled"`
	CancelledSet []int  `json:"cancelledSet"`
	V            Val    `json:"v"`
	T            string `json:"t"`
	Note         string `json:"note"`
}

type actorKey struct{}

// gate is the scheduler side of the proxy.
type gate struct {
	mu     sync.Mutex
	parked map[string]chan struct{} // "step:<a>" / "deliver:<a>" -> release channel
	tr     *vh.Trace
	tid    string
	closed bool
}

func (g *gate) emit(l Line) {
	g.mu.Lock()
	closed := g.closed
	g.mu.Unlock()

	if closed {
		return
	}

	l.Tid = g.tid
	if l.V.Fins == nil {
		l.V = absent()
	}

	if l.CancelledSet == nil {
		l.CancelledSet = []int{}
	}

	g.tr.Emit(l)
}

// park blocks until the scheduler releases the slot; false = the run is over, do nothing.
func (g *gate) park(slot string) bool {
	ch := make(chan struct{})

	g.mu.Lock()
	if g.closed {
		g.mu.Unlock()

		return false
	}

	g.parked[slot] = ch
	g.mu.Unlock()

	<-ch

	g.mu.Lock()
	defer g.mu.Unlock()

	return !g.closed
}

func (g *gate) close() {
	g.mu.Lock()
	g.closed = true

	for s, ch := range g.parked {
		close(ch)
		delete(g.parked, s)
	}
	g.mu.Unlock()
}

func (g *gate) release(slot string) bool {
	g.mu.Lock()
	ch, ok := g.parked[slot]
	delete(g.parked, slot)
	g.mu.Unlock()

	if ok {
		close(ch)
	}

	return ok
}

func (g *gate) slots() []string {
	g.mu.Lock()
	defer g.mu.Unlock()

	res := make([]string, 0, len(g.parked))
	for s := range g.parked {
		res = append(res, s)
	}

	sort.Strings(res)

	return res
}

// proxy is the gating + recording CoreState.
type proxy struct {
	inner state.CoreState
	g     *gate
}

func actorOf(ctx context.Context) int {
	a, _ := ctx.Value(actorKey{}).(int)

	return a
}

func (p *proxy) Get(ctx context.Context, ptr resource.Pointer, o ...state.GetOption) (resource.Resource, error) {
	a := actorOf(ctx)
	if !p.g.park(fmt.Sprintf("step:%d", a)) {
		return nil, context.Canceled
	}

	r, err := p.inner.Get(ctx, ptr, o...)
	p.g.emit(Line{Ev: "op", A: a, Op: "get", Cls: vh.Class(err), V: project(r)})

	return r, err
}

func (p *proxy) List(ctx context.Context, k resource.Kind, o ...state.ListOption) (resource.List, error) {
	return p.inner.List(ctx, k, o...)
}

func (p *proxy) Create(ctx context.Context, r resource.Resource, o ...state.CreateOption) error {
	a := actorOf(ctx)
	if !p.g.park(fmt.Sprintf("step:%d", a)) {
		return context.Canceled
	}

	err := p.inner.Create(ctx, r, o...)

	v := absent()
	if err == nil {
		v = project(r)
	}

	p.g.emit(Line{Ev: "op", A: a, Op: "create", Cls: vh.Class(err), V: v})

	return err
}

func (p *proxy) Update(ctx context.Context, r resource.Resource, o ...state.UpdateOption) error {
	a := actorOf(ctx)
	if !p.g.park(fmt.Sprintf("step:%d", a)) {
		return context.Canceled
	}

	err := p.inner.Update(ctx, r, o...)

	v := absent()
	if err == nil {
		v = project(r)
	}

	p.g.emit(Line{Ev: "op", A: a, Op: "update", Cls: vh.Class(err), V: v})

	return err
}

func (p *proxy) Destroy(ctx context.Context, ptr resource.Pointer, o ...state.DestroyOption) error {
	a := actorOf(ctx)
	if !p.g.park(fmt.Sprintf("step:%d", a)) {
		return context.Canceled
	}

	err := p.inner.Destroy(ctx, ptr, o...)
	p.g.emit(Line{Ev: "op", A: a, Op: "destroy", Cls: vh.Class(err)})

	return err
}

func (p *proxy) Watch(ctx context.Context, ptr resource.Pointer, ch chan<- state.Event, o ...state.WatchOption) error {
	a := actorOf(ctx)
	if !p.g.park(fmt.Sprintf("step:%d", a)) {
		return context.Canceled
	}

	inner := make(chan state.Event)

	err := p.inner.Watch(ctx, ptr, inner, o...)
	p.g.emit(Line{Ev: "op", A: a, Op: "watch", Cls: vh.Class(err)})

	if err != nil {
		return err
	}

	// every delivery is a separately scheduled step
	go func() {
		for {
			select {
			case <-ctx.Done():
				return
			case ev := <-inner:
				done := make(chan struct{})

				go func() {
					select {
					case <-ctx.Done():
						p.g.release(fmt.Sprintf("deliver:%d", a))
					case <-done:
					}
				}()

				ok := p.g.park(fmt.Sprintf("deliver:%d", a))
				close(done)

				if !ok || ctx.Err() != nil {
					return
				}

				p.g.emit(Line{Ev: "deliver", A: a, T: ev.Type.String(), V: project(ev.Resource)})

				select {
				case ch <- ev:
				case <-ctx.Done():
					return
				}
			}
		}
	}()

	return nil
}

func (p *proxy) WatchKind(ctx context.Context, k resource.Kind, ch chan<- state.Event, o ...state.WatchKindOption) error {
	return p.inner.WatchKind(ctx, k, ch, o...)
}

func (p *proxy) WatchKindAggregated(ctx context.Context, k resource.Kind, ch chan<- []state.Event, o ...state.WatchKindOption) error {
	return p.inner.WatchKindAggregated(ctx, k, ch, o...)
}

var key = vh.Key{NS: "n1", Typ: vh.IntType, ID: "r"}

func tokMutator(tok string) func(resource.Resource) error {
	return func(r resource.Resource) error {
		r.Metadata().Labels().Set(tok, "1")

		if strings.HasPrefix(tok, "i") { // idempotent mutator ("set X"): applying it again changes nothing
			return nil
		}

		// not idempotent on purpose: a mutation applied twice to the same object shows in the count
		n := 0
		if cur, ok := r.Metadata().Labels().Get("cnt"); ok {
			n, _ = strconv.Atoi(cur)
		}

		r.Metadata().Labels().Set("cnt", strconv.Itoa(n+1))

		return nil
	}
}

type ctxHolder struct {
	mu   sync.Mutex
	ctxs map[int]context.Context
}

// runCall executes one helper call of actor a and logs call / ret.
func runCall(ctx context.Context, st state.State, g *gate, a int, c Call, holder *ctxHolder) {
	g.emit(Line{Ev: "call", A: a, H: c.H, Tok: c.Tok, Fin: c.Fin, Owner: c.Owner, Exp: c.Exp, Cond: c.Cond})

	var (
		err   error
		out   resource.Resource
		ready bool
	)

	ptr := key.Pointer()

	switch c.H {
	case "create":
		r := vh.NewRes(key, vh.Obj{Spec: 1, Phase: "running"})
		err = st.Create(ctx, r, state.WithCreateOwner(c.Owner))
	case "destroy":
		err = st.Destroy(ctx, ptr, state.WithDestroyOwner(c.Owner))
	case "uwc":
		opts := []state.UpdateOption{state.WithUpdateOwner(c.Owner)}

		switch c.Exp {
		case "any":
			opts = append(opts, state.WithExpectedPhaseAny())
		case "tearingDown":
			opts = append(opts, state.WithExpectedPhase(resource.PhaseTearingDown))
		}

		out, err = st.UpdateWithConflicts(ctx, ptr, tokMutator(c.Tok), opts...)
	case "modify":
		out, err = st.ModifyWithResult(ctx, vh.NewRes(key, vh.Obj{Spec: 1, Phase: "running"}), tokMutator(c.Tok), state.WithUpdateOwner(c.Owner))
	case "addfin":
		err = st.AddFinalizer(ctx, ptr, c.Fin)
	case "remfin":
		err = st.RemoveFinalizer(ctx, ptr, c.Fin)
	case "teardown":
		ready, err = st.Teardown(ctx, ptr, state.WithTeardownOwner(c.Owner))
	case "tad":
		err = st.TeardownAndDestroy(ctx, ptr, state.WithTeardownAndDestroyOwner(c.Owner))
	case "watchfor":
		var conds []state.WatchForConditionFunc

		switch c.Cond {
		case "finsEmpty":
			conds = append(conds, state.WithFinalizerEmpty())
		case "destroyed":
			conds = append(conds, state.WithEventTypes(state.Destroyed))
		case "tearingDown":
			conds = append(conds, state.WithPhases(resource.PhaseTearingDown), state.WithEventTypes(state.Created, state.Updated))
		}

		out, err = st.WatchFor(ctx, ptr, conds...)
	case "ctx":
		var tctx context.Context

		tctx, err = st.ContextWithTeardown(ctx, ptr)
		if err == nil {
			holder.mu.Lock()
			holder.ctxs[a] = tctx
			holder.mu.Unlock()
		}
	}

	if ctx.Err() != nil {
		return // the run is being torn down: not a return of the call
	}

	g.emit(Line{Ev: "ret", A: a, H: c.H, Cls: vh.Class(err), Ready: ready, V: project(out)})
}

func runBehaviour(t *testing.T, tr *vh.Trace, tid string, beh Beh) {
	synctest.Test(t, func(t *testing.T) {
		root, cancel := context.WithCancel(context.Background())
		g := &gate{parked: map[string]chan struct{}{}, tr: tr, tid: tid}
		inner := namespaced.NewState(inmem.Build)
		st := state.WrapCore(&proxy{inner: inner, g: g})
		holder := &ctxHolder{ctxs: map[int]context.Context{}}

		g.emit(Line{Ev: "reset"})

		var wg sync.WaitGroup

		for i, prog := range beh.Prog {
			a := i + 1
			ctx := context.WithValue(root, actorKey{}, a)

			wg.Add(1)

			go func() {
				defer wg.Done()

				for _, c := range prog {
					if ctx.Err() != nil {
						return
					}

					runCall(ctx, st, g, a, c, holder)
				}
			}()
		}

		sampleCtx := func() {
			holder.mu.Lock()
			defer holder.mu.Unlock()

			for a, c := range holder.ctxs {
				g.emit(Line{Ev: "ctx", A: a, Cancelled: c.Err() != nil})
			}
		}

		step := func(slot string) bool {
			synctest.Wait()

			if !g.release(slot) {
				return false
			}

			synctest.Wait()
			sampleCtx()

			return true
		}

		for _, tk := range beh.Sched {
			step(fmt.Sprintf("%s:%d", tk.K, tk.A))
		}

		// run to quiescence: release whatever is parked, deterministically
		// (bounded: a helper that retries forever is reported as stuck by the judge)
		for range 400 {
			synctest.Wait()

			s := g.slots()
			if len(s) == 0 {
				break
			}

			step(s[0])
		}

		// final contents, read directly from the inner state (not through the gate)
		final := absent()
		if r, err := inner.Get(root, key.Pointer()); err == nil {
			final = project(r)
		}

		cancelledSet := []int{}

		holder.mu.Lock()
		for a, c := range holder.ctxs {
			if c.Err() != nil {
				cancelledSet = append(cancelledSet, a)
			}
		}
		holder.mu.Unlock()

		sort.Ints(cancelledSet)

		g.emit(Line{Ev: "end", V: final, CancelledSet: cancelledSet})

		g.close()
		cancel()
		wg.Wait()
		synctest.Wait()
	})
}

func TestHelpers(t *testing.T) {
	var behs []Beh

	if err := vh.ReadJSON(vh.Env("VERIF_IN"), &behs); err != nil {
		t.Fatal(err)
	}

	tr, err := vh.NewTrace(vh.Env("VERIF_OUT"))
	if err != nil {
		t.Fatal(err)
	}

	defer tr.Close() //nolint:errcheck

	for i, b := range behs {
		runBehaviour(t, tr, fmt.Sprintf("h#%d", i), b)
	}
}
