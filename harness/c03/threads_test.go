package c03

import (
	"context"
	"fmt"
	"math/rand"
	"runtime"
	"sync"
	"testing"
	"time"

	"github.com/cosi-project/runtime/pkg/resource"
	"github.com/cosi-project/runtime/pkg/state"
	"github.com/cosi-project/runtime/pkg/state/impl/inmem"

	"verifharness/vh"
)

// slowStore is a backing store whose writes take a little (real) time: whatever the collection does around the call to its
// backing store happens with other parties' calls in flight.
type slowStore struct{ rng func() int }

func (slowStore) Load(context.Context, inmem.LoadHandler) error { return nil }

func (s slowStore) Put(context.Context, resource.Type, resource.Resource) error {
	s.nap()

	return nil
}

func (s slowStore) Destroy(context.Context, resource.Type, resource.Pointer) error {
	s.nap()

	return nil
}

func (s slowStore) nap() {
	switch n := s.rng(); {
	case n%3 == 0:
		runtime.Gosched()
	case n%3 == 1:
		time.Sleep(time.Duration(n%400) * time.Microsecond)
	}
}

// TestFinalizerThreads: the finalizer gate on real threads under the real scheduler, on a persistent-backed in-memory state
// (slow backing store) and on a plain one: an owner that creates, tears down and destroys a resource over and over
// (Destroy and TeardownAndDestroy), and parties that put their own finalizer on it and take it off again. The driver decides
// nothing: the linearization-point hooks of the collection write every commit in lock order and TraceInmem judges that no
// destroy ever commits on a stored value that carries a finalizer (and every other rule of the store).
func TestFinalizerThreads(t *testing.T) {
	seed := int64(vh.EnvInt("VERIF_SEED", 1))
	rounds := vh.EnvInt("VERIF_ROUNDS", 30)

	for r := range rounds {
		rng := rand.New(rand.NewSource(seed*1000033 + int64(r)))

		var (
			rmu sync.Mutex
			opt []inmem.StateOption
		)

		if r%3 != 2 {
			opt = append(opt, inmem.WithBackingStore(slowStore{rng: func() int {
				rmu.Lock()
				defer rmu.Unlock()

				return rng.Intn(1200)
			}}))
		}

		prev := runtime.GOMAXPROCS([]int{2, 4, 16}[r%3])

		finalizerRound(rand.New(rand.NewSource(rng.Int63())), state.WrapCore(inmem.NewStateWithOptions(opt...)("n1")))

		runtime.GOMAXPROCS(prev)
	}
}

func finalizerRound(rng *rand.Rand, st state.State) {
	ctx, cancel := context.WithTimeout(context.Background(), 5*time.Second)
	defer cancel()

	ptr := vh.Key{NS: "n1", Typ: vh.IntType, ID: "a"}.Pointer()

	var wg sync.WaitGroup

	// the owner
	cycles := 4 + rng.Intn(8)
	orng := rand.New(rand.NewSource(rng.Int63()))

	wg.Add(1)

	go func() {
		defer wg.Done()

		for i := range cycles {
			st.Create(ctx, vh.NewRes(vh.Key{NS: "n1", Typ: vh.IntType, ID: "a"}, vh.Obj{Spec: i, Phase: "running"})) //nolint:errcheck

			if orng.Intn(2) == 0 {
				time.Sleep(time.Duration(orng.Intn(300)) * time.Microsecond)
			}

			switch orng.Intn(3) {
			case 0:
				tctx, tcancel := context.WithTimeout(ctx, 20*time.Millisecond)
				st.TeardownAndDestroy(tctx, ptr) //nolint:errcheck
				tcancel()
			case 1:
				if ready, err := st.Teardown(ctx, ptr); err == nil && ready {
					st.Destroy(ctx, ptr) //nolint:errcheck
				}
			default:
				// without asking: the store itself has to refuse while finalizers are held
				st.Teardown(ctx, ptr) //nolint:errcheck
				st.Destroy(ctx, ptr)  //nolint:errcheck
			}
		}
	}()

	// parties holding finalizers
	for p := range 2 + rng.Intn(3) {
		prng := rand.New(rand.NewSource(rng.Int63()))
		fin := fmt.Sprintf("f%d", p)

		wg.Add(1)

		go func() {
			defer wg.Done()

			for range 6 + prng.Intn(20) {
				if err := st.AddFinalizer(ctx, ptr, fin); err == nil {
					if prng.Intn(2) == 0 {
						time.Sleep(time.Duration(prng.Intn(200)) * time.Microsecond)
					}

					st.RemoveFinalizer(ctx, ptr, fin) //nolint:errcheck
				} else {
					runtime.Gosched()
				}
			}
		}()
	}

	wg.Wait()
}
