package c17

import (
	"context"
	"testing"
	"time"

	"github.com/siderolabs/gen/optional"

	"github.com/cosi-project/runtime/pkg/controller"
	"github.com/cosi-project/runtime/pkg/resource"
	"github.com/cosi-project/runtime/pkg/state"
	"github.com/cosi-project/runtime/pkg/state/impl/inmem"
	"github.com/cosi-project/runtime/pkg/state/impl/namespaced"

	"verifharness/rt"
	"verifharness/vh"
)

func optionalSome(id string) optional.Optional[resource.ID] { return optional.Some(id) }

// parkingState lets the test park the establishment of one aggregated kind watch (the runtime establishes it from inside a
// controller registration, while it holds its registration lock).
type parkingState struct {
	state.CoreState

	parkType string
	entered  chan struct{}
	release  chan struct{}
}

func (p *parkingState) WatchKindAggregated(ctx context.Context, kind resource.Kind, ch chan<- []state.Event, opts ...state.WatchKindOption) error {
	if kind.Type() == p.parkType {
		close(p.entered)
		<-p.release
	}

	return p.CoreState.WatchKindAggregated(ctx, kind, ch, opts...)
}

// TestRejectedRegistrationRace (C17: "a registration that is rejected ... cannot crash event delivery"): a change to a watched
// resource is delivered WHILE a registration that will be rejected is half-way through (its first input is already in the
// dependency database, the watch for its second input is being established, its third input is invalid). The delivery
// goroutine looks the dependents up, finds the half-registered controller, waits for the registration lock - and after the
// roll-back there is no such controller. Real time, no bubble (a goroutine waiting for a mutex is not durably blocked). The
// test passes if the process survives and the registered controller is still notified; a crash of the code under test is
// reported by the check as a violation.
func TestRejectedRegistrationRace(t *testing.T) {
	for round := range 3 {
		ctx, cancel := context.WithCancel(context.Background())

		base := state.WrapCore(namespaced.NewState(inmem.Build))
		ps := &parkingState{CoreState: base, parkType: vh.StrType, entered: make(chan struct{}), release: make(chan struct{})}

		rtm, err := rt.NewRuntime(state.WrapCore(ps))
		if err != nil {
			t.Fatal(err)
		}

		woken := make(chan string, 64)

		if err = rtm.RegisterQController(&rt.QProbe{
			NameV: "c1", InputsV: []controller.Input{rt.KindInput("n1", vh.IntType, controller.InputQPrimary)}, Concurrency: 1,
			ReconcileF: func(_ context.Context, _ controller.QRuntime, ptr resource.Pointer) error {
				woken <- ptr.ID()

				return nil
			},
		}); err != nil {
			t.Fatal(err)
		}

		runDone := make(chan error, 1)

		go func() { runDone <- rtm.Run(ctx) }()

		time.Sleep(50 * time.Millisecond)

		regDone := make(chan error, 1)

		go func() {
			regDone <- rtm.RegisterQController(&rt.QProbe{
				NameV: "c2", Concurrency: 1,
				InputsV: []controller.Input{
					rt.KindInput("n1", vh.IntType, controller.InputQPrimary), // accepted: c2 is now a dependent of the kind c1 watches
					rt.KindInput("n1", vh.StrType, controller.InputQMapped),  // accepted: the watch of a new kind is established (parked)
					rt.KindInput("n1", vh.IntType, controller.InputWeak),     // not allowed for a queue controller: the registration is rejected
				},
			})
		}()

		<-ps.entered

		// a change of the watched kind while the registration is half-way through
		if err = base.Create(ctx, vh.NewRes(vh.Key{NS: "n1", Typ: vh.IntType, ID: "x"}, vh.Obj{Spec: round, Phase: "running"})); err != nil {
			t.Fatal(err)
		}

		time.Sleep(100 * time.Millisecond) // the delivery goroutine has looked the dependents up and waits for the registration lock

		close(ps.release)

		if rerr := <-regDone; rerr == nil {
			t.Fatal("the invalid registration was accepted")
		}

		select {
		case id := <-woken:
			if id != "x" {
				t.Fatalf("unexpected item %q", id)
			}
		case <-time.After(5 * time.Second):
			t.Fatal("the registered controller was not notified")
		}

		cancel()

		select {
		case <-runDone:
		case <-time.After(5 * time.Second):
			t.Fatal("Run did not return")
		}
	}
}

// TestAcceptedRegistrationRace: the same window with a registration that is ACCEPTED. Three controllers watch a kind (registered
// one by one), a fourth one a single resource of it; a fifth registration (first the watch of a new kind - parked -, then an
// input on the watched kind) is in progress while that resource changes. Everybody who had a matching input when the change
// was committed has to be notified, whatever the registration does to the dependency database in the meantime.
func TestAcceptedRegistrationRace(t *testing.T) {
	for round := range 3 {
		ctx, cancel := context.WithCancel(context.Background())

		base := state.WrapCore(namespaced.NewState(inmem.Build))
		ps := &parkingState{CoreState: base, parkType: vh.StrType, entered: make(chan struct{}), release: make(chan struct{})}

		rtm, err := rt.NewRuntime(state.WrapCore(ps))
		if err != nil {
			t.Fatal(err)
		}

		woken := make(chan string, 256)

		probe := func(name string, in controller.Input) *rt.QProbe {
			return &rt.QProbe{
				NameV: name, InputsV: []controller.Input{in}, Concurrency: 1,
				ReconcileF: func(_ context.Context, _ controller.QRuntime, ptr resource.Pointer) error {
					woken <- name + ":" + ptr.ID()

					return nil
				},
			}
		}

		byID := rt.KindInput("n1", vh.IntType, controller.InputQPrimary)
		byID.ID = optionalSome("x")

		for _, p := range []*rt.QProbe{
			probe("k1", rt.KindInput("n1", vh.IntType, controller.InputQPrimary)),
			probe("k2", rt.KindInput("n1", vh.IntType, controller.InputQPrimary)),
			probe("k3", rt.KindInput("n1", vh.IntType, controller.InputQPrimary)),
			probe("id", byID),
		} {
			if err = rtm.RegisterQController(p); err != nil {
				t.Fatal(err)
			}
		}

		runDone := make(chan error, 1)

		go func() { runDone <- rtm.Run(ctx) }()

		time.Sleep(50 * time.Millisecond)

		regDone := make(chan error, 1)

		go func() {
			late := probe("late", rt.KindInput("n1", vh.StrType, controller.InputQMapped))
			late.InputsV = append(late.InputsV, rt.KindInput("n1", vh.IntType, controller.InputQPrimary))
			regDone <- rtm.RegisterQController(late)
		}()

		<-ps.entered

		if err = base.Create(ctx, vh.NewRes(vh.Key{NS: "n1", Typ: vh.IntType, ID: "x"}, vh.Obj{Spec: round, Phase: "running"})); err != nil {
			t.Fatal(err)
		}

		time.Sleep(100 * time.Millisecond)

		close(ps.release)

		if rerr := <-regDone; rerr != nil {
			t.Fatalf("the valid registration was rejected: %v", rerr)
		}

		need := map[string]bool{"k1:x": true, "k2:x": true, "k3:x": true, "id:x": true}
		deadline := time.After(5 * time.Second)

		for len(need) > 0 {
			select {
			case w := <-woken:
				delete(need, w)
			case <-deadline:
				t.Fatalf("controllers with a matching input were not notified: %v", need)
			}
		}

		cancel()

		select {
		case <-runDone:
		case <-time.After(5 * time.Second):
			t.Fatal("Run did not return")
		}
	}
}
