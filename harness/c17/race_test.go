package c17

import (
	"context"
	"testing"
	"time"

	"github.com/cosi-project/runtime/pkg/controller"
	"github.com/cosi-project/runtime/pkg/resource"
	"github.com/cosi-project/runtime/pkg/state"
	"github.com/cosi-project/runtime/pkg/state/impl/inmem"
	"github.com/cosi-project/runtime/pkg/state/impl/namespaced"

	"verifharness/rt"
	"verifharness/vh"
)

// parkingState lets the test park the establishment of one aggregated kind watch (the runtime establishes it from inside a
// controller registration, while it holds its registration lock).
type parkingState struct {
	state.CoreState

	parkType string
	entered  chan struct{}
	release  chan struct{}
}

func (p *parkingState) WatchKindAggregated(ctx context.Context, kind resource.Kind, ch chan<- []state.Event, opts ...state.WatchKindOption) error {
	if kind.Type() == p.parkType {
		close(p.entered)
		<-p.release
	}

	return p.CoreState.WatchKindAggregated(ctx, kind, ch, opts...)
}

// TestRejectedRegistrationRace (C17: "a registration that is rejected ... cannot crash event delivery"): a change to a watched
// resource is delivered WHILE a registration that will be rejected is half-way through (its first input is already in the
// dependency database, the watch for its second input is being established, its third input is invalid). The delivery
// goroutine looks the dependents up, finds the half-registered controller, waits for the registration lock - and after the
// roll-back there is no such controller. Real time, no bubble (a goroutine waiting for a mutex is not durably blocked). The
// test passes if the process survives and the registered controller is still notified; a crash of the code under test is
// reported by the check as a violation.
func TestRejectedRegistrationRace(t *testing.T) {
	for round := range 3 {
		ctx, cancel := context.WithCancel(context.Background())

		base := state.WrapCore(namespaced.NewState(inmem.Build))
		ps := &parkingState{CoreState: base, parkType: vh.StrType, entered: make(chan struct{}), release: make(chan struct{})}

		rtm, err := rt.NewRuntime(state.WrapCore(ps))
		if err != nil {
			t.Fatal(err)
		}

		woken := make(chan string, 64)

		if err = rtm.RegisterQController(&rt.QProbe{
			NameV: "c1", InputsV: []controller.Input{rt.KindInput("n1", vh.IntType, controller.InputQPrimary)}, Concurrency: 1,
			ReconcileF: func(_ context.Context, _ controller.QRuntime, ptr resource.Pointer) error {
				woken <- ptr.ID()

				return nil
			},
		}); err != nil {
			t.Fatal(err)
		}

		runDone := make(chan error, 1)

		go func() { runDone <- rtm.Run(ctx) }()

		time.Sleep(50 * time.Millisecond)

		regDone := make(chan error, 1)

		go func() {
			regDone <- rtm.RegisterQController(&rt.QProbe{
				NameV: "c2", Concurrency: 1,
				InputsV: []controller.Input{
					rt.KindInput("n1", vh.IntType, controller.InputQPrimary), // accepted: c2 is now a dependent of the kind c1 watches
					rt.KindInput("n1", vh.StrType, controller.InputQMapped),  // accepted: the watch of a new kind is established (parked)
					rt.KindInput("n1", vh.IntType, controller.InputWeak),     // not allowed for a queue controller: the registration is rejected
				},
			})
		}()

		<-ps.entered

		// a change of the watched kind while the registration is half-way through
		if err = base.Create(ctx, vh.NewRes(vh.Key{NS: "n1", Typ: vh.IntType, ID: "x"}, vh.Obj{Spec: round, Phase: "running"})); err != nil {
			t.Fatal(err)
		}

		time.Sleep(100 * time.Millisecond) // the delivery goroutine has looked the dependents up and waits for the registration lock

		close(ps.release)

		if rerr := <-regDone; rerr == nil {
			t.Fatal("the invalid registration was accepted")
		}

		select {
		case id := <-woken:
			if id != "x" {
				t.Fatalf("unexpected item %q", id)
			}
		case <-time.After(5 * time.Second):
			t.Fatal("the registered controller was not notified")
		}

		cancel()

		select {
		case <-runDone:
		case <-time.After(5 * time.Second):
			t.Fatal("Run did not return")
		}
	}
}
