// Package c17 runs TLC-generated sequences of RegisterController / RegisterQController /
// UpdateInputs calls (valid and invalid declarations, before and after start) on the real runtime
// in a synctest bubble; records each outcome, the exported dependency graph and, for writes to
// probe resources, which controllers were notified. TraceDepDB judges.
package c17

import (
	"context"
	"fmt"
	"os"
	"sort"
	"sync"
	"testing"
	"testing/synctest"

	"github.com/siderolabs/gen/optional"

	"github.com/cosi-project/runtime/pkg/controller"
	"github.com/cosi-project/runtime/pkg/resource"
	"github.com/cosi-project/runtime/pkg/state"
	"github.com/cosi-project/runtime/pkg/state/impl/inmem"
	"github.com/cosi-project/runtime/pkg/state/impl/namespaced"

	"verifharness/rt"
	"verifharness/vh"
)

type Out struct {
	Typ  string `json:"typ"`
	Kind string `json:"kind"`
}

type In struct {
	Typ  string `json:"typ"`
	ID   string `json:"id"`
	Kind string `json:"kind"`
}

type Call struct {
	Op   string `json:"op"`
	C    string `json:"c"`
	Fl   string `json:"fl"`
	Outs []Out  `json:"outs"`
	Ins  []In   `json:"ins"`
}

type Beh struct {
	Calls   []Call `json:"calls"`
	StartAt int    `json:"startAt"`
}

type Edge struct {
	C    string `json:"c"`
	Typ  string `json:"typ"`
	ID   string `json:"id"`
	Kind string `json:"kind"`
}

type Line struct {
	Ev        string   `json:"ev"`
	Tid       string   `json:"tid"`
	Op        string   `json:"op"`
	C         string   `json:"c"`
	Fl        string   `json:"fl"`
	Outs      []Out    `json:"outs"`
	Ins       []In     `json:"ins"`
	Res       string   `json:"res"`
	Edges     []Edge   `json:"edges"`
	Typ       string   `json:"typ"`
	ID        string   `json:"id"`
	Phase     string   `json:"phase"`
	FinsEmpty bool     `json:"finsEmpty"`
	Woke      []string `json:"woke"`
	Note      string   `json:"note"`
}

const ns = "n1"

var typeOf = map[string]string{"tA": vh.IntType, "tB": vh.StrType}

func absType(t string) string {
	for a, c := range typeOf {
		if c == t {
			return a
		}
	}

	return t
}

var inKind = map[string]controller.InputKind{
	"weak": controller.InputWeak, "strong": controller.InputStrong, "destroyReady": controller.InputDestroyReady,
	"qPrimary": controller.InputQPrimary, "qMapped": controller.InputQMapped, "qMappedDestroyReady": controller.InputQMappedDestroyReady,
}

var edgeKind = map[controller.DependencyEdgeType]string{
	controller.EdgeOutputExclusive: "excl", controller.EdgeOutputShared: "shared",
	controller.EdgeInputStrong: "strong", controller.EdgeInputWeak: "weak", controller.EdgeInputDestroyReady: "destroyReady",
	controller.EdgeInputQPrimary: "qPrimary", controller.EdgeInputQMapped: "qMapped", controller.EdgeInputQMappedDestroyReady: "qMappedDestroyReady",
}

func inputs(ins []In) []controller.Input {
	res := make([]controller.Input, 0, len(ins))

	for _, i := range ins {
		in := controller.Input{Namespace: ns, Type: typeOf[i.Typ], Kind: inKind[i.Kind]}
		if i.ID != "-" {
			in.ID = optional.Some(i.ID)
		}

		res = append(res, in)
	}

	return res
}

func outputs(outs []Out) []controller.Output {
	res := make([]controller.Output, 0, len(outs))

	for _, o := range outs {
		k := controller.OutputExclusive
		if o.Kind == "shared" {
			k = controller.OutputShared
		}

		res = append(res, controller.Output{Type: typeOf[o.Typ], Kind: k})
	}

	return res
}

type wakes struct {
	mu sync.Mutex
	m  map[string]bool
}

func (w *wakes) add(c string) {
	w.mu.Lock()
	w.m[c] = true
	w.mu.Unlock()
}

func (w *wakes) take() []string {
	w.mu.Lock()
	defer w.mu.Unlock()

	res := []string{}
	for c := range w.m {
		res = append(res, c)
	}

	sort.Strings(res)
	w.m = map[string]bool{}

	return res
}

func runBehaviour(t *testing.T, tr *vh.Trace, tid string, beh Beh) {
	synctest.Test(t, func(t *testing.T) {
		ctx, cancel := context.WithCancel(context.Background())
		st := state.WrapCore(namespaced.NewState(inmem.Build))
		wk := &wakes{m: map[string]bool{}}
		emit := func(l Line) {
			l.Tid = tid
			if l.Outs == nil {
				l.Outs = []Out{}
			}

			if l.Ins == nil {
				l.Ins = []In{}
			}

			if l.Edges == nil {
				l.Edges = []Edge{}
			}

			if l.Woke == nil {
				l.Woke = []string{}
			}

			tr.Emit(l)
			tr.Flush()
		}

		emit(Line{Ev: "reset"})

		r, err := rt.NewRuntime(st)
		if err != nil {
			t.Fatal(err)
		}

		runDone := make(chan error, 1)
		started := false
		rts := map[string]controller.Runtime{} // runtime handles of running r-controllers

		var rtsMu sync.Mutex

		start := func() {
			if started {
				return
			}

			started = true

			go func() { runDone <- r.Run(ctx) }()

			synctest.Wait()
		}

		graph := func() {
			g, gerr := r.GetDependencyGraph()
			if gerr != nil {
				emit(Line{Ev: "note", Note: "graph error " + gerr.Error()})

				return
			}

			edges := []Edge{}

			for _, e := range g.Edges {
				id := e.ResourceID
				if id == "" {
					id = "-"
				}

				edges = append(edges, Edge{C: e.ControllerName, Typ: absType(e.ResourceType), ID: id, Kind: edgeKind[e.EdgeType]})
			}

			emit(Line{Ev: "graph", Edges: edges})
		}

		probeWrites := func() {
			if !started {
				return
			}

			synctest.Wait()
			wk.take()

			for _, typ := range []string{"tA", "tB"} {
				for _, id := range []string{"a", "b"} {
					k := vh.Key{NS: ns, Typ: typeOf[typ], ID: id}

					// running resource (create or update), then tearing down without finalizers, then destroy
					cur, gerr := st.Get(ctx, k.Pointer())
					if gerr != nil {
						if cerr := st.Create(ctx, vh.NewRes(k, vh.Obj{Spec: 1, Phase: "running"})); cerr != nil {
							t.Fatal(cerr)
						}
					} else {
						o := vh.Project(cur, nil)
						o.Spec++

						if uerr := st.Update(ctx, vh.NewRes(k, o)); uerr != nil {
							t.Fatal(uerr)
						}
					}

					synctest.Wait()
					emit(Line{Ev: "write", Typ: typ, ID: id, Phase: "running", FinsEmpty: true, Woke: wk.take()})

					if _, terr := st.Teardown(ctx, k.Pointer()); terr != nil {
						t.Fatal(terr)
					}

					synctest.Wait()
					emit(Line{Ev: "write", Typ: typ, ID: id, Phase: "tearingDown", FinsEmpty: true, Woke: wk.take()})

					if derr := st.Destroy(ctx, k.Pointer()); derr != nil {
						t.Fatal(derr)
					}

					synctest.Wait()
					emit(Line{Ev: "write", Typ: typ, ID: id, Phase: "tearingDown", FinsEmpty: true, Woke: wk.take()})
				}
			}
		}

		for i, c := range beh.Calls {
			if i == beh.StartAt {
				start()
			}

			var cerr error

			switch {
			case c.Op == "register" && c.Fl == "r":
				name := c.C
				cerr = r.RegisterController(&rt.Probe{
					NameV: name, InputsV: inputs(c.Ins), OutputsV: outputs(c.Outs),
					RunF: func(ctx context.Context, crt controller.Runtime) error {
						rtsMu.Lock()
						rts[name] = crt
						rtsMu.Unlock()

						for {
							select {
							case <-ctx.Done():
								return nil
							case <-crt.EventCh():
								wk.add(name)
							}
						}
					},
				})
			case c.Op == "register":
				name := c.C
				cerr = r.RegisterQController(&rt.QProbe{
					NameV: name, InputsV: inputs(c.Ins), OutputsV: outputs(c.Outs),
					ReconcileF: func(context.Context, controller.QRuntime, resource.Pointer) error {
						wk.add(name)

						return nil
					},
					MapF: func(context.Context, controller.QRuntime, controller.ReducedResourceMetadata) ([]resource.Pointer, error) {
						wk.add(name)

						return nil, nil
					},
				})
			case c.Op == "update":
				// UpdateInputs is available from inside the running controller only
				start()
				synctest.Wait()

				rtsMu.Lock()
				crt := rts[c.C]
				rtsMu.Unlock()

				if crt == nil {
					emit(Line{Ev: "note", Note: "update skipped: controller not running"})

					continue
				}

				cerr = crt.UpdateInputs(inputs(c.Ins))
			}

			res := "ok"
			if cerr != nil {
				res = "err"
			}

			synctest.Wait()
			emit(Line{Ev: "call", Op: c.Op, C: c.C, Fl: c.Fl, Outs: c.Outs, Ins: c.Ins, Res: res, Note: fmt.Sprint(cerr)})
			graph()
			probeWrites()
		}

		start()
		probeWrites()
		emit(Line{Ev: "end"})

		cancel()
		<-runDone
		synctest.Wait()
	})
}

func TestDepDB(t *testing.T) {
	var behs []Beh

	if err := vh.ReadJSON(vh.Env("VERIF_IN"), &behs); err != nil {
		t.Fatal(err)
	}

	from := vh.EnvInt("VERIF_FROM", 0)

	f, err := os.OpenFile(vh.Env("VERIF_OUT"), os.O_APPEND|os.O_CREATE|os.O_WRONLY, 0o644)
	if err != nil {
		t.Fatal(err)
	}

	tr := vh.NewTraceFile(f)

	defer tr.Close() //nolint:errcheck

	for i, b := range behs {
		if i < from {
			continue
		}

		runBehaviour(t, tr, fmt.Sprintf("d#%d", i), b)
	}
}
