// Package c06 runs the real generic Transform / QTransform controllers on the real runtime in a
// synctest bubble; an external actor executes TLC-generated operation histories on inputs and
// outputs, optionally while a transform is held in flight; a recording proxy between everybody and
// the store yields the totally ordered log of successful writes. TraceLifecycle judges (C06, C07).
package c06

import (
	"context"
	"errors"
	"fmt"
	"sort"
	"sync"
	"sync/atomic"
	"testing"
	"testing/synctest"
	"time"

	"go.uber.org/zap"

	"github.com/cosi-project/runtime/pkg/controller"
	"github.com/cosi-project/runtime/pkg/controller/generic/cleanup"
	"github.com/siderolabs/gen/optional"
	"github.com/siderolabs/gen/xerrors"

	"github.com/cosi-project/runtime/pkg/controller/generic/destroy"
	"github.com/cosi-project/runtime/pkg/controller/generic/qtransform"
	"github.com/cosi-project/runtime/pkg/controller/generic/transform"
	"github.com/cosi-project/runtime/pkg/resource"
	"github.com/cosi-project/runtime/pkg/resource/meta"
	"github.com/cosi-project/runtime/pkg/resource/typed"
	"github.com/cosi-project/runtime/pkg/state"
	"github.com/cosi-project/runtime/pkg/state/impl/inmem"
	"github.com/cosi-project/runtime/pkg/state/impl/namespaced"

	"verifharness/rt"
	"verifharness/vh"
)

const (
	aNS   = resource.Namespace("ns-a")
	aType = resource.Type("A.verif.cosi.dev")
	bNS   = resource.Namespace("ns-b")
	bType = resource.Type("B.verif.cosi.dev")
	// secondary inputs (configurations with Extra): the transform adds the value of the secondary of the same id
	cNS   = resource.Namespace("ns-c")
	cType = resource.Type("C.verif.cosi.dev")
)

type ASpec struct{ Val int }

func (a ASpec) DeepCopy() ASpec { return a }

type AE struct{}

func (AE) ResourceDefinition() meta.ResourceDefinitionSpec {
	return meta.ResourceDefinitionSpec{Type: aType, DefaultNamespace: aNS}
}

type A = typed.Resource[ASpec, AE]

func NewA(id resource.ID, v int) *A {
	return typed.NewResource[ASpec, AE](resource.NewMetadata(aNS, aType, id, resource.VersionUndefined), ASpec{Val: v})
}

// curBNS is the namespace of the outputs of the behaviour that is running (behaviours run one after the other): the
// configurations with SameNS keep inputs and outputs in ONE namespace (different types)
var curBNS = bNS

type BSpec struct{ Val int }

func (b BSpec) DeepCopy() BSpec { return b }

type BE struct{}

func (BE) ResourceDefinition() meta.ResourceDefinitionSpec {
	return meta.ResourceDefinitionSpec{Type: bType, DefaultNamespace: curBNS}
}

type B = typed.Resource[BSpec, BE]

func NewB(id resource.ID, v int) *B {
	return typed.NewResource[BSpec, BE](resource.NewMetadata(curBNS, bType, id, resource.VersionUndefined), BSpec{Val: v})
}

type CSpec struct{ Val int }

func (c CSpec) DeepCopy() CSpec { return c }

type CE struct{}

func (CE) ResourceDefinition() meta.ResourceDefinitionSpec {
	return meta.ResourceDefinitionSpec{Type: cType, DefaultNamespace: cNS}
}

type C = typed.Resource[CSpec, CE]

func NewC(id resource.ID, v int) *C {
	return typed.NewResource[CSpec, CE](resource.NewMetadata(cNS, cType, id, resource.VersionUndefined), CSpec{Val: v})
}

type Cmd struct {
	C  string `json:"c"`
	ID int    `json:"id"`
	V  int    `json:"v"`
}

type Val struct {
	Ver   int      `json:"ver"`
	Phase string   `json:"phase"`
	Fins  []string `json:"fins"`
	Val   int      `json:"val"`
	Owner string   `json:"owner"`
	// Lab: the resource carries the label "on" (configurations with Filtered list only such inputs)
	Lab bool `json:"lab"`
}

type Snap struct {
	ID int `json:"id"`
	V  Val `json:"v"`
}

type Line struct {
	Ev          string `json:"ev"`
	Tid         string `json:"tid"`
	Fin         bool   `json:"fin"`
	IgnoreTd    bool   `json:"ignoreTd"`
	IgnoreUntil bool   `json:"ignoreUntil"`
	Cleanup     bool   `json:"cleanup"`
	Destroyer   bool   `json:"destroyer"`
	Optional    bool   `json:"optional"`
	Filtered    bool   `json:"filtered"`
	Extra       bool   `json:"extra"`
	Ctrl        string `json:"ctrl"`
	Kind        string `json:"kind"`
	ID          int    `json:"id"`
	Op          string `json:"op"`
	V           Val    `json:"v"`
	Ins         []Snap `json:"ins"`
	Outs        []Snap `json:"outs"`
	Exts        []Snap `json:"exts"`
	T           int    `json:"t"`
}

func rid(id int) string { return fmt.Sprintf("r%d", id) }

func idOf(s string) int {
	var n int

	fmt.Sscanf(s, "r%d", &n) //nolint:errcheck

	return n
}

func valOf(r resource.Resource) Val {
	md := r.Metadata()
	v := Val{Ver: vh.VersionInt(md.Version()), Phase: vh.PhaseName(md.Phase()), Fins: []string{}, Owner: md.Owner()}
	_, v.Lab = md.Labels().Get("on")

	for _, f := range *md.Finalizers() {
		v.Fins = append(v.Fins, f)
	}

	sort.Strings(v.Fins)

	switch t := r.(type) {
	case *A:
		v.Val = t.TypedSpec().Val
	case *B:
		v.Val = t.TypedSpec().Val
	case *C:
		v.Val = t.TypedSpec().Val
	}

	return v
}

type extKey struct{}

// recorder logs every successful write in commit order; it can also park the controller's writes so
// that the external actor gets to act between any two store operations of a reconcile.
type recorder struct {
	state.CoreState

	mu    sync.Mutex
	emit  func(Line)
	last  map[string]Val
	count atomic.Int64

	gmu    sync.Mutex
	hold   bool
	parked []chan struct{}
}

// gate parks a write issued by the controller while the write gate is armed.
func (r *recorder) gate(ctx context.Context) {
	if ctx.Value(extKey{}) != nil {
		return
	}

	r.gmu.Lock()
	if !r.hold {
		r.gmu.Unlock()

		return
	}

	ch := make(chan struct{})
	r.parked = append(r.parked, ch)
	r.gmu.Unlock()

	select {
	case <-ch:
	case <-ctx.Done():
	}
}

func (r *recorder) holdWrites() {
	r.gmu.Lock()
	r.hold = true
	r.gmu.Unlock()
}

func (r *recorder) stepWrite() {
	r.gmu.Lock()
	defer r.gmu.Unlock()

	if len(r.parked) > 0 {
		close(r.parked[0])
		r.parked = r.parked[1:]
	}
}

func (r *recorder) freeWrites() {
	r.gmu.Lock()
	defer r.gmu.Unlock()

	r.hold = false

	for _, ch := range r.parked {
		close(ch)
	}

	r.parked = nil
}

func kindOf(typ resource.Type) string {
	if typ == aType {
		return "in"
	}

	if typ == cType {
		return "ext"
	}

	return "out"
}

func (r *recorder) Create(ctx context.Context, res resource.Resource, o ...state.CreateOption) error {
	r.gate(ctx)

	r.mu.Lock()
	defer r.mu.Unlock()

	err := r.CoreState.Create(ctx, res, o...)
	if err == nil {
		v := valOf(res)
		r.last[res.Metadata().Type()+"/"+res.Metadata().ID()] = v
		r.count.Add(1)
		r.emit(Line{Ev: "w", Kind: kindOf(res.Metadata().Type()), ID: idOf(res.Metadata().ID()), Op: "create", V: v})
	}

	return err
}

func (r *recorder) Update(ctx context.Context, res resource.Resource, o ...state.UpdateOption) error {
	r.gate(ctx)

	r.mu.Lock()
	defer r.mu.Unlock()

	err := r.CoreState.Update(ctx, res, o...)
	if err == nil {
		v := valOf(res)
		r.last[res.Metadata().Type()+"/"+res.Metadata().ID()] = v
		r.count.Add(1)
		r.emit(Line{Ev: "w", Kind: kindOf(res.Metadata().Type()), ID: idOf(res.Metadata().ID()), Op: "update", V: v})
	}

	return err
}

func (r *recorder) Destroy(ctx context.Context, ptr resource.Pointer, o ...state.DestroyOption) error {
	r.gate(ctx)

	r.mu.Lock()
	defer r.mu.Unlock()

	err := r.CoreState.Destroy(ctx, ptr, o...)
	if err == nil {
		v := r.last[ptr.Type()+"/"+ptr.ID()]
		if v.Fins == nil {
			v.Fins = []string{}
		}

		r.count.Add(1)
		r.emit(Line{Ev: "w", Kind: kindOf(ptr.Type()), ID: idOf(ptr.ID()), Op: "destroy", V: v})
	}

	return err
}

// Config selects the controller under test.
type Config struct {
	Name        string
	Q           bool
	Fin         bool
	IgnoreTd    bool
	IgnoreUntil bool
	Cleanup     bool
	Combined    bool // cleanup.Combine of two handlers, one per group of dependents
	IgnoreWhile bool // WithIgnoreTeardownWhile("X") instead of WithIgnoreTeardownUntil(): the same meaning while X is the only foreign finalizer
	Concurrency uint
	// Destroyer: destroy.Controller for the input type runs next to the controller under test (it removes unowned inputs that
	// are tearing down without finalizers): the complete life cycle without an external party destroying anything
	Destroyer bool
	// Optional: MapMetadataOptionalFunc - an input whose value is 3 is not mapped (no output); the mapping of an input flips
	// whenever its value changes to or from 3
	Optional bool
	// Extra: a secondary input kind (qtransform: WithExtraMappedInput with a mapper secondary rN -> input rN; transform:
	// WithExtraInputs); the transform reads the secondary of the same id: output = 10 * input + secondary (0 when absent)
	Extra bool
	// SameNS: inputs and outputs live in the same namespace
	SameNS bool
	// Filtered: transform.WithInputListOptions(label "on" exists): only labelled inputs are mapped; the external actor puts the
	// label on new inputs and takes it off / puts it back with its update operations (value 3 = no label)
	Filtered bool
}

var Configs = []Config{
	{Name: "T", Fin: true},
	{Name: "T", Fin: false},
	{Name: "T", Fin: false, IgnoreTd: true},
	{Name: "Q", Q: true, Fin: true, Concurrency: 1},
	{Name: "Q", Q: true, Fin: true, Concurrency: 2},
	{Name: "Q", Q: true, Fin: true, IgnoreUntil: true, Concurrency: 1},
	{Name: "CL", Cleanup: true},
	{Name: "CL", Cleanup: true, Combined: true},
	{Name: "Q", Q: true, Fin: true, IgnoreUntil: true, IgnoreWhile: true, Concurrency: 2},
	{Name: "T", Fin: true, Destroyer: true},
	{Name: "Q", Q: true, Fin: true, Concurrency: 2, Destroyer: true},
	{Name: "T", Fin: true, Optional: true},
	{Name: "Q", Q: true, Fin: true, Concurrency: 2, Extra: true},
	{Name: "T", Fin: true, Extra: true},
	{Name: "T", Fin: true, SameNS: true},
	{Name: "T", Fin: false, SameNS: true},
	{Name: "Q", Q: true, Fin: true, Concurrency: 2, SameNS: true},
	{Name: "T", Fin: true, Filtered: true},
	{Name: "T", Fin: false, Filtered: true},
}

type gateT struct {
	mu       sync.Mutex
	armed    bool
	ch       chan struct{}
	failNext atomic.Int32
	skip     atomic.Bool // from now on the transform asks to skip the reconcile (SkipReconcileTag)
}

var errSkip = errors.New("transform asks to skip")

func (g *gateT) pass(ctx context.Context) error {
	g.mu.Lock()
	armed, ch := g.armed, g.ch
	g.mu.Unlock()

	if armed {
		select {
		case <-ch:
		case <-ctx.Done():
			return ctx.Err()
		}
	}

	if g.failNext.Load() > 0 {
		g.failNext.Add(-1)

		return errors.New("transient transform failure")
	}

	if g.skip.Load() {
		return errSkip
	}

	return nil
}

func (g *gateT) arm() {
	g.mu.Lock()
	defer g.mu.Unlock()

	if !g.armed {
		g.armed = true
		g.ch = make(chan struct{})
	}
}

func (g *gateT) release() {
	g.mu.Lock()
	defer g.mu.Unlock()

	if g.armed {
		g.armed = false
		close(g.ch)
	}
}

func runBehaviour(t *testing.T, tr *vh.Trace, tid string, cfg Config, beh []Cmd) {
	curBNS = bNS
	if cfg.SameNS {
		curBNS = aNS
	}

	synctest.Test(t, func(t *testing.T) {
		rootCtx, cancel := context.WithCancel(context.Background())
		ctx := context.WithValue(rootCtx, extKey{}, true) // the external actor's context (never gated)
		start := time.Now()

		var emu sync.Mutex

		emit := func(l Line) {
			emu.Lock()
			defer emu.Unlock()

			l.Tid = tid
			l.T = int(time.Since(start) / time.Millisecond)

			if l.V.Fins == nil {
				l.V.Fins = []string{}
			}

			if l.Ins == nil {
				l.Ins = []Snap{}
			}

			if l.Outs == nil {
				l.Outs = []Snap{}
			}

			if l.Exts == nil {
				l.Exts = []Snap{}
			}

			tr.Emit(l)
		}

		emit(Line{Ev: "reset", Fin: cfg.Fin, IgnoreTd: cfg.IgnoreTd, IgnoreUntil: cfg.IgnoreUntil, Cleanup: cfg.Cleanup, Ctrl: cfg.Name, Destroyer: cfg.Destroyer, Optional: cfg.Optional, Extra: cfg.Extra, Filtered: cfg.Filtered})

		rec := &recorder{CoreState: namespaced.NewState(inmem.Build), emit: emit, last: map[string]Val{}}
		st := state.WrapCore(rec)
		g := &gateT{}

		rtm, err := rt.NewRuntime(st)
		if err != nil {
			t.Fatal(err)
		}

		transformF := func(ctx context.Context, r controller.Reader, _ *zap.Logger, in *A, out *B) error {
			if perr := g.pass(ctx); perr != nil {
				if errors.Is(perr, errSkip) {
					if cfg.Q {
						return xerrors.NewTagged[qtransform.SkipReconcileTag](perr)
					}

					return xerrors.NewTagged[transform.SkipReconcileTag](perr)
				}

				return perr
			}

			out.TypedSpec().Val = 10 * in.TypedSpec().Val

			if cfg.Extra {
				sec, serr := r.Get(ctx, NewC(in.Metadata().ID(), 0).Metadata())
				if serr != nil && !state.IsNotFoundError(serr) {
					return serr
				}

				if serr == nil {
					out.TypedSpec().Val += sec.(*C).TypedSpec().Val //nolint:forcetypeassert
				}
			}

			return nil
		}

		if cfg.Cleanup {
			// dependents of input rN are the B resources labelled parent=rN (ids rN and r(N+10))
			byGroup := func(grp string) cleanup.Handler[*A] {
				return cleanup.HasNoOutputs[*B](func(in *A) state.ListOption {
					return state.WithLabelQuery(resource.LabelEqual("parent", in.Metadata().ID()), resource.LabelEqual("grp", grp))
				})
			}

			handler := cleanup.HasNoOutputs[*B](func(in *A) state.ListOption {
				return state.WithLabelQuery(resource.LabelEqual("parent", in.Metadata().ID()))
			})
			if cfg.Combined {
				handler = cleanup.Combine(byGroup("x"), byGroup("f"))
			}

			err = rtm.RegisterController(cleanup.NewController(cleanup.Settings[*A]{
				Name:    cfg.Name,
				Handler: handler,
			}))
		} else if cfg.Q {
			opts := []qtransform.ControllerOption{qtransform.WithConcurrency(cfg.Concurrency)}
			switch {
			case cfg.IgnoreWhile:
				opts = append(opts, qtransform.WithIgnoreTeardownWhile("X"))
			case cfg.IgnoreUntil:
				opts = append(opts, qtransform.WithIgnoreTeardownUntil())
			}

			if cfg.Extra {
				opts = append(opts, qtransform.WithExtraMappedInput[*C](
					func(_ context.Context, _ *zap.Logger, _ controller.QRuntime, ptr controller.ReducedResourceMetadata) ([]resource.Pointer, error) {
						return []resource.Pointer{NewA(ptr.ID(), 0).Metadata()}, nil
					}))
			}

			err = rtm.RegisterQController(qtransform.NewQController(qtransform.Settings[*A, *B]{
				Name:              cfg.Name,
				MapMetadataFunc:   func(in *A) *B { return NewB(in.Metadata().ID(), 0) },
				UnmapMetadataFunc: func(out *B) *A { return NewA(out.Metadata().ID(), 0) },
				TransformFunc:     transformF,
			}, opts...))
		} else {
			var opts []transform.ControllerOption
			if cfg.Fin {
				opts = append(opts, transform.WithInputFinalizers())
			}

			if cfg.IgnoreTd {
				opts = append(opts, transform.WithIgnoreTearingDownInputs())
			}

			if cfg.Filtered {
				opts = append(opts, transform.WithInputListOptions(state.WithLabelQuery(resource.LabelExists("on"))))
			}

			if cfg.Extra {
				opts = append(opts, transform.WithExtraInputs(controller.Input{Namespace: cNS, Type: cType, Kind: controller.InputWeak}))
			}

			settings := transform.Settings[*A, *B]{
				Name:            cfg.Name,
				MapMetadataFunc: func(in *A) *B { return NewB(in.Metadata().ID(), 0) },
				TransformFunc:   transformF,
			}

			if cfg.Optional {
				settings.MapMetadataFunc = nil
				settings.MapMetadataOptionalFunc = func(in *A) optional.Optional[*B] {
					if in.TypedSpec().Val == 3 {
						return optional.None[*B]()
					}

					return optional.Some(NewB(in.Metadata().ID(), 0))
				}
			}

			if cfg.Fin {
				settings.FinalizerRemovalFunc = func(context.Context, controller.Reader, *zap.Logger, *A) error { return nil }
			}

			err = rtm.RegisterController(transform.NewController(settings, opts...))
		}

		if err != nil {
			t.Fatal(err)
		}

		if cfg.Destroyer {
			if err = rtm.RegisterQController(destroy.NewController[*A](optional.Some(uint(2)))); err != nil {
				t.Fatal(err)
			}
		}

		runDone := make(chan error, 1)

		go func() { runDone <- rtm.Run(rootCtx) }()

		synctest.Wait()

		aPtr := func(id int) resource.Pointer { return NewA(rid(id), 0).Metadata() }
		bPtr := func(id int) resource.Pointer { return NewB(rid(id), 0).Metadata() }

		for _, c := range beh {
			switch c.C {
			case "create":
				in := NewA(rid(c.ID), c.V)
				if cfg.Filtered && c.V != 3 {
					in.Metadata().Labels().Set("on", "")
				}

				st.Create(ctx, in) //nolint:errcheck
			case "update":
				if cur, gerr := st.Get(ctx, aPtr(c.ID)); gerr == nil {
					if a, ok := cur.(*A); ok && a.TypedSpec().Val != c.V {
						a.TypedSpec().Val = c.V

						if cfg.Filtered {
							if c.V == 3 {
								a.Metadata().Labels().Delete("on")
							} else {
								a.Metadata().Labels().Set("on", "")
							}
						}

						st.Update(ctx, a, state.WithExpectedPhaseAny()) //nolint:errcheck
					}
				}
			case "setC":
				if cfg.Extra {
					if cur, gerr := st.Get(ctx, NewC(rid(c.ID), 0).Metadata()); gerr == nil {
						if sec, ok := cur.(*C); ok && sec.TypedSpec().Val != c.V {
							sec.TypedSpec().Val = c.V
							st.Update(ctx, sec) //nolint:errcheck
						}
					} else {
						st.Create(ctx, NewC(rid(c.ID), c.V)) //nolint:errcheck
					}
				}
			case "delC":
				if cfg.Extra {
					st.Destroy(ctx, NewC(rid(c.ID), 0).Metadata()) //nolint:errcheck
				}
			case "td":
				st.Teardown(ctx, aPtr(c.ID)) //nolint:errcheck
			case "destroy":
				st.Destroy(ctx, aPtr(c.ID)) //nolint:errcheck
			case "addX", "addF", "remX", "remF":
				if !cfg.Cleanup {
					break
				}

				// cleanup mode: the external actor creates / destroys dependents (only while the parent is running)
				dep := c.ID
				if c.C == "addX" || c.C == "remX" {
					dep = c.ID + 10
				}

				if c.C == "addX" || c.C == "addF" {
					if cur, gerr := st.Get(ctx, aPtr(c.ID)); gerr == nil && cur.Metadata().Phase() == resource.PhaseRunning {
						b := NewB(rid(dep), 1)
						b.Metadata().Labels().Set("parent", rid(c.ID))
						b.Metadata().Labels().Set("grp", map[bool]string{true: "x", false: "f"}[c.C == "addX"])
						st.Create(ctx, b) //nolint:errcheck
					}
				} else {
					st.Destroy(ctx, bPtr(dep)) //nolint:errcheck
				}
			}

			if cfg.Cleanup {
				synctest.Wait()

				continue
			}

			switch c.C {
			case "addX":
				if cfg.IgnoreUntil {
					st.AddFinalizer(ctx, aPtr(c.ID), "X") //nolint:errcheck
				}
			case "remX":
				st.RemoveFinalizer(ctx, aPtr(c.ID), "X") //nolint:errcheck
			case "addF":
				st.AddFinalizer(ctx, bPtr(c.ID), "F") //nolint:errcheck
			case "remF":
				st.RemoveFinalizer(ctx, bPtr(c.ID), "F") //nolint:errcheck
			case "holdw":
				rec.holdWrites()
			case "stepw":
				rec.stepWrite()
			case "freew":
				rec.freeWrites()
			case "arm":
				g.arm()
			case "release":
				g.release()
			case "failnext":
				g.failNext.Add(1)
			case "skipmode":
				if !cfg.Cleanup {
					g.skip.Store(true)
					emit(Line{Ev: "skipmode"})
				}
			case "wait":
				time.Sleep(2 * time.Second)
			}

			synctest.Wait()
		}

		g.release()
		rec.freeWrites()

		for range 10 {
			before := rec.count.Load()

			synctest.Wait()
			time.Sleep(3 * time.Minute)
			synctest.Wait()

			if rec.count.Load() == before {
				break
			}
		}

		// quiet snapshot read from the store itself
		snap := func(ns resource.Namespace, typ resource.Type) []Snap {
			out := []Snap{}

			l, lerr := st.List(ctx, resource.NewMetadata(ns, typ, "", resource.VersionUndefined))
			if lerr != nil {
				return out
			}

			for _, r := range l.Items {
				out = append(out, Snap{ID: idOf(r.Metadata().ID()), V: valOf(r)})
			}

			return out
		}

		emit(Line{Ev: "quiet", Ins: snap(aNS, aType), Outs: snap(curBNS, bType), Exts: snap(cNS, cType)})

		cancel()
		<-runDone
		synctest.Wait()
	})
}

func TestLifecycle(t *testing.T) {
	var behs [][]Cmd

	if err := vh.ReadJSON(vh.Env("VERIF_IN"), &behs); err != nil {
		t.Fatal(err)
	}

	tr, err := vh.NewTrace(vh.Env("VERIF_OUT"))
	if err != nil {
		t.Fatal(err)
	}

	defer tr.Close() //nolint:errcheck

	for i, b := range behs {
		cfg := Configs[i%len(Configs)]
		runBehaviour(t, tr, fmt.Sprintf("l%d#%d", i%len(Configs), i), cfg, b)
	}
}
