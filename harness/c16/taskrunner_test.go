// Package c16 drives a real task.Runner (pkg/task) along TLC-generated command sequences inside a synctest bubble
// and records, after every command, which task instances are executing their body. TraceTaskRunner judges.
package c16

import (
	"context"
	"errors"
	"fmt"
	"sort"
	"sync"
	"testing"
	"testing/synctest"
	"time"

	"go.uber.org/zap"

	"github.com/cosi-project/runtime/pkg/task"

	"verifharness/vh"
)

type Cmd struct {
	C      string `json:"c"`
	ID     string `json:"id"`
	Spec   int    `json:"spec"`
	Should []Inst `json:"should"`
}

type Inst struct {
	ID   string `json:"id"`
	Spec int    `json:"spec"`
	Inst int    `json:"inst"`
}

type Line struct {
	Ev     string `json:"ev"`
	Tid    string `json:"tid"`
	I      int    `json:"i"`
	C      string `json:"c"`
	ID     string `json:"id"`
	Spec   int    `json:"spec"`
	Should []Inst `json:"should"`
	Live   []Inst `json:"live"`
	Leaked int    `json:"leaked"`
}

// env is the input handed to every task: the registry of bodies being executed and their control channels.
type env struct {
	mu     sync.Mutex
	inside map[Inst]chan string
}

type tspec struct {
	id   string
	ver  int
	inst int
}

func (s tspec) ID() task.ID { return s.id }

func (s tspec) RunTask(ctx context.Context, _ *zap.Logger, e *env) error {
	me := Inst{ID: s.id, Spec: s.ver, Inst: s.inst}
	ctl := make(chan string)

	e.mu.Lock()
	e.inside[me] = ctl
	e.mu.Unlock()

	defer func() {
		e.mu.Lock()
		delete(e.inside, me)
		e.mu.Unlock()
	}()

	select {
	case <-ctx.Done():
		return ctx.Err()
	case c := <-ctl:
		switch c {
		case "finish":
			return nil
		case "panic":
			panic("task body panics")
		}

		return errors.New("task body fails")
	}
}

func runTasks(t *testing.T, tr *vh.Trace, tid string, beh []Cmd) {
	synctest.Test(t, func(t *testing.T) {
		ctx, cancel := context.WithCancel(context.Background())
		defer cancel()

		e := &env{inside: map[Inst]chan string{}}
		runner := task.NewRunner[*env, tspec](func(x, y tspec) bool { return x.ver == y.ver })
		logger := zap.NewNop()

		tr.Emit(Line{Ev: "reset", Tid: tid, Should: []Inst{}, Live: []Inst{}})

		snapshot := func() []Inst {
			e.mu.Lock()
			defer e.mu.Unlock()

			out := []Inst{}
			for k := range e.inside {
				out = append(out, k)
			}

			sort.Slice(out, func(i, j int) bool {
				return out[i].ID < out[j].ID || out[i].ID == out[j].ID && out[i].Inst < out[j].Inst
			})

			return out
		}

		for i, c := range beh {
			n := i + 1
			line := Line{Ev: "cmd", Tid: tid, I: n, C: c.C, ID: c.ID, Spec: c.Spec, Should: []Inst{}}

			switch c.C {
			case "start":
				runner.StartTask(ctx, logger, c.ID, tspec{id: c.ID, ver: c.Spec, inst: n}, e)
			case "stop":
				runner.StopTask(logger, c.ID)
			case "reconcile":
				should := map[task.ID]tspec{}

				for _, x := range c.Should {
					should[x.ID] = tspec{id: x.ID, ver: x.Spec, inst: n}
					line.Should = append(line.Should, Inst{ID: x.ID, Spec: x.Spec})
				}

				sort.Slice(line.Should, func(i, j int) bool { return line.Should[i].ID < line.Should[j].ID })
				runner.Reconcile(ctx, logger, should, e)
			case "stopall":
				runner.Stop()
			case "finish", "fail", "panic":
				e.mu.Lock()
				var ctl chan string

				for k, ch := range e.inside {
					if k.ID == c.ID {
						ctl = ch
					}
				}
				e.mu.Unlock()

				if ctl != nil {
					ctl <- c.C
				}
			}

			// every restart back-off (at most 60 s * 1.5) passes
			synctest.Wait()
			time.Sleep(3 * time.Minute)
			synctest.Wait()

			line.Live = snapshot()
			tr.Emit(line)
		}

		runner.Stop()
		synctest.Wait()

		tr.Emit(Line{Ev: "end", Tid: tid, Should: []Inst{}, Live: snapshot(), Leaked: leakedTasks()})
	})
}

func TestTaskRunner(t *testing.T) {
	var behs [][]Cmd

	if err := vh.ReadJSON(vh.Env("VERIF_IN"), &behs); err != nil {
		t.Fatal(err)
	}

	tr, err := vh.NewTrace(vh.Env("VERIF_OUT"))
	if err != nil {
		t.Fatal(err)
	}

	defer tr.Close() //nolint:errcheck

	for i, b := range behs {
		runTasks(t, tr, fmt.Sprintf("t#%d", i), b)
	}
}

// leakedTasks counts the goroutines still executing code of pkg/task (by stack content: the process-wide goroutine count is
// noisy under load).
func leakedTasks() int {
	n, _ := vh.GoroutinesIn("github.com/cosi-project/runtime/pkg/task")

	return n
}
