// Package c20 executes TLC-generated sequences of key storage API calls and adversarial edits of the
// serialized form on the real KeyStorage with freshly generated PGP key pairs; TraceKeyStorage judges.
package c20

import (
	"bytes"
	"fmt"
	"testing"

	"github.com/ProtonMail/gopenpgp/v2/crypto"

	"github.com/cosi-project/runtime/api/key_storage"
	"github.com/cosi-project/runtime/pkg/keystorage"

	"verifharness/vh"
)

type Cmd struct {
	Op string `json:"op"`
	S  int    `json:"s"`
	Kp int    `json:"kp"`
	O  int    `json:"o"`
	Ko int    `json:"ko"`
	V  string `json:"v"`
}

type Line struct {
	Ev     string `json:"ev"`
	Tid    string `json:"tid"`
	Op     string `json:"op"`
	S      int    `json:"s"`
	Kp     int    `json:"kp"`
	O      int    `json:"o"`
	Ko     int    `json:"ko"`
	V      string `json:"v"`
	Ok     bool   `json:"ok"`
	Master string `json:"master"`
	Err    string `json:"err"`
}

type pair struct{ priv, pub string }

func genPair(t *testing.T, n int) pair {
	k, err := crypto.GenerateKey(fmt.Sprintf("slot%d", n), fmt.Sprintf("slot%d@verif.test", n), "x25519", 0)
	if err != nil {
		t.Fatal(err)
	}

	priv, err := k.Armor()
	if err != nil {
		t.Fatal(err)
	}

	pub, err := k.GetArmoredPublicKey()
	if err != nil {
		t.Fatal(err)
	}

	return pair{priv: priv, pub: pub}
}

func slotName(s int) string { return fmt.Sprintf("slot-%d", s) }

// edit applies an adversarial change to the serialized storage and loads it back.
// inPlace: the edited bytes are loaded into the SAME KeyStorage value the API calls were made on (a long-lived object that
// re-reads its serialized form), otherwise into a fresh one.
func edit(t *testing.T, ks *keystorage.KeyStorage, inPlace bool, f func(*key_storage.Storage)) *keystorage.KeyStorage {
	data, err := ks.MarshalBinary()
	if err != nil {
		t.Fatal(err)
	}

	var st key_storage.Storage

	if err = st.UnmarshalVT(data); err != nil {
		t.Fatal(err)
	}

	f(&st)

	out, err := st.MarshalVT()
	if err != nil {
		t.Fatal(err)
	}

	res := &keystorage.KeyStorage{}
	if inPlace {
		res = ks
	}

	if err = res.UnmarshalBinary(out); err != nil {
		t.Fatalf("unmarshal of the edited storage: %v", err)
	}

	return res
}

func runBehaviour(t *testing.T, tr *vh.Trace, tid string, beh []Cmd, pairs map[int]pair, inPlace bool) {
	ks := &keystorage.KeyStorage{}
	master := bytes.Repeat([]byte{0x5a}, 32)
	copy(master, []byte(tid))

	tr.Emit(Line{Ev: "reset", Tid: tid})

	for _, c := range beh {
		l := Line{Ev: "op", Tid: tid, Op: c.Op, S: c.S, Kp: c.Kp, O: c.O, Ko: c.Ko, V: c.V, Master: "none"}

		var err error

		switch c.Op {
		case "init":
			err = ks.Initialize(master, slotName(c.S), pairs[c.Kp].pub)
		case "add":
			pub := pairs[c.Kp].pub
			if c.Kp == 0 { // a public key that cannot be used (cut off): the call must be refused and have no effect
				pub = pairs[1].pub[:32]
			}

			err = ks.AddKeySlot(slotName(c.S), pub, slotName(c.O), pairs[c.Ko].priv)
		case "delete":
			err = ks.DeleteKeySlot(slotName(c.S), pairs[c.Kp].priv)
		case "get":
			var got []byte

			got, err = ks.GetMasterKey(slotName(c.S), pairs[c.Kp].priv)
			if err == nil {
				if bytes.Equal(got, master) {
					l.Master = "same"
				} else {
					l.Master = "different"
				}
			}
		case "roundtrip":
			data, merr := ks.MarshalBinary()
			if merr != nil {
				t.Fatal(merr)
			}

			if len(data) > 0 {
				fresh := &keystorage.KeyStorage{}
				if inPlace {
					fresh = ks
				}

				if uerr := fresh.UnmarshalBinary(data); uerr != nil {
					err = uerr
				} else {
					ks = fresh
				}
			}
		case "alterBlob":
			ks = edit(t, ks, inPlace, func(st *key_storage.Storage) {
				if sl := st.KeySlots[slotName(c.S)]; sl != nil && len(sl.EncryptedKey) > 40 {
					sl.EncryptedKey[len(sl.EncryptedKey)/2] ^= 0x01
				}
			})
		case "backdoorRemove":
			ks = edit(t, ks, inPlace, func(st *key_storage.Storage) { delete(st.KeySlots, slotName(c.S)) })
		case "backdoorAdd":
			ks = edit(t, ks, inPlace, func(st *key_storage.Storage) {
				slot := &key_storage.KeySlot{Algorithm: key_storage.Algorithm_PGP_AES_GCM_256}

				switch c.V {
				case "garbage":
					slot.EncryptedKey = []byte("-----BEGIN PGP MESSAGE-----\n\ngarbage\n-----END PGP MESSAGE-----")
				case "copy":
					for _, name := range []string{slotName(1), slotName(2), slotName(3)} {
						if src := st.KeySlots[name]; src != nil {
							slot.EncryptedKey = append([]byte{}, src.EncryptedKey...)

							break
						}
					}
				}

				if st.KeySlots == nil {
					st.KeySlots = map[string]*key_storage.KeySlot{}
				}

				st.KeySlots[slotName(c.S)] = slot
			})
		case "alterTag":
			ks = edit(t, ks, inPlace, func(st *key_storage.Storage) {
				// every way of damaging the integrity tag counts, including removing it altogether
				switch c.V {
				case "strip":
					st.KeysHmacHash = nil
				case "truncate":
					st.KeysHmacHash = st.KeysHmacHash[:len(st.KeysHmacHash)/2]
				case "zero":
					st.KeysHmacHash = make([]byte, len(st.KeysHmacHash))
				default:
					if len(st.KeysHmacHash) > 0 {
						st.KeysHmacHash[0] ^= 0x80
					}
				}
			})
		}

		l.Ok = err == nil
		if err != nil {
			l.Err = err.Error()
			if len(l.Err) > 120 {
				l.Err = l.Err[:120]
			}
		}

		tr.Emit(l)
	}
}

func TestKeyStorage(t *testing.T) {
	var behs [][]Cmd

	if err := vh.ReadJSON(vh.Env("VERIF_IN"), &behs); err != nil {
		t.Fatal(err)
	}

	tr, err := vh.NewTrace(vh.Env("VERIF_OUT"))
	if err != nil {
		t.Fatal(err)
	}

	defer tr.Close() //nolint:errcheck

	pairs := map[int]pair{}
	for i := 1; i <= 3; i++ {
		pairs[i] = genPair(t, i)
	}

	for i, b := range behs {
		runBehaviour(t, tr, fmt.Sprintf("k#%d", i), b, pairs, i%2 == 1)
	}
}
