package c20

import (
	"bytes"
	"fmt"
	"math/rand"
	"sort"
	"sync"
	"testing"

	"github.com/cosi-project/runtime/pkg/keystorage"

	"verifharness/vh"
)

// TestKeyStorageRace: API calls made at the same time on one KeyStorage (it carries a mutex: concurrent use is part of
// its contract). A round initializes the storage, then releases a group of calls at once on real threads: two additions of
// the SAME new slot with different key pairs (exactly one may win: a slot is never overwritten), an addition of another
// slot and retrievals through the untouched slot (both commute with everything). The group is written to the trace as
// ordinary calls, the successful ones first - for mutually exclusive calls that is the only order a sequential
// execution can have produced, for the commuting ones any order is - and a sequential epilogue retrieves the master key
// through every slot with every key pair, so the judge (TraceKeyStorage, unchanged) sees who really owns the contested
// slot afterwards.
func TestKeyStorageRace(t *testing.T) {
	tr, err := vh.NewTrace(vh.Env("VERIF_OUT"))
	if err != nil {
		t.Fatal(err)
	}

	defer tr.Close() //nolint:errcheck

	seed := int64(vh.EnvInt("VERIF_SEED", 1))
	rounds := vh.EnvInt("VERIF_ROUNDS", 20)

	pairs := map[int]pair{}
	for i := 1; i <= 3; i++ {
		pairs[i] = genPair(t, i)
	}

	for r := range rounds {
		rng := rand.New(rand.NewSource(seed*7919 + int64(r)))
		tid := fmt.Sprintf("kr#%d", r)

		ks := &keystorage.KeyStorage{}
		master := bytes.Repeat([]byte{0x3c}, 32)
		copy(master, []byte(tid))

		tr.Emit(Line{Ev: "reset", Tid: tid})

		if err = ks.Initialize(master, slotName(1), pairs[1].pub); err != nil {
			t.Fatal(err)
		}

		tr.Emit(Line{Ev: "op", Tid: tid, Op: "init", S: 1, Kp: 1, Ok: true, Master: "none"})

		// the group
		group := []Cmd{
			{Op: "add", S: 2, Kp: 2, O: 1, Ko: 1},
			{Op: "add", S: 2, Kp: 3, O: 1, Ko: 1},
		}

		if rng.Intn(2) == 0 {
			group = append(group, Cmd{Op: "add", S: 3, Kp: 2 + rng.Intn(2), O: 1, Ko: 1})
		}

		for range rng.Intn(3) {
			group = append(group, Cmd{Op: "get", S: 1, Kp: 1})
		}

		rng.Shuffle(len(group), func(i, j int) { group[i], group[j] = group[j], group[i] })

		lines := make([]Line, len(group))
		start := make(chan struct{})

		var wg sync.WaitGroup

		for i, c := range group {
			wg.Add(1)

			go func() {
				defer wg.Done()

				<-start

				lines[i] = call(ks, tid, c, pairs, master)
			}()
		}

		close(start)
		wg.Wait()

		sort.SliceStable(lines, func(i, j int) bool { return lines[i].Ok && !lines[j].Ok })

		for _, l := range lines {
			tr.Emit(l)
		}

		// epilogue: who holds what
		for s := 1; s <= 3; s++ {
			for kp := 1; kp <= 3; kp++ {
				tr.Emit(call(ks, tid, Cmd{Op: "get", S: s, Kp: kp}, pairs, master))
			}
		}
	}
}

func call(ks *keystorage.KeyStorage, tid string, c Cmd, pairs map[int]pair, master []byte) Line {
	l := Line{Ev: "op", Tid: tid, Op: c.Op, S: c.S, Kp: c.Kp, O: c.O, Ko: c.Ko, Master: "none"}

	var err error

	switch c.Op {
	case "add":
		err = ks.AddKeySlot(slotName(c.S), pairs[c.Kp].pub, slotName(c.O), pairs[c.Ko].priv)
	case "get":
		var got []byte

		got, err = ks.GetMasterKey(slotName(c.S), pairs[c.Kp].priv)
		if err == nil {
			if bytes.Equal(got, master) {
				l.Master = "same"
			} else {
				l.Master = "different"
			}
		}
	}

	l.Ok = err == nil
	if err != nil {
		l.Err = err.Error()
		if len(l.Err) > 120 {
			l.Err = l.Err[:120]
		}
	}

	return l
}
