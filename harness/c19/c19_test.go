// Package c19 executes TLC-generated programs - API calls interleaved with mutations of every object
// the caller still holds - on the in-memory state, the gRPC stack and the runtime read cache, and
// after every step logs the store contents (read independently), a replica fed from a kind watch and
// the projection of every held object. TraceAlias judges.
package c19

import (
	"context"
	"fmt"
	"github.com/cosi-project/runtime/api/v1alpha1"
	"github.com/cosi-project/runtime/pkg/resource/meta"
	"github.com/cosi-project/runtime/pkg/resource/protobuf"
	"github.com/cosi-project/runtime/pkg/resource/typed"
	"regexp"
	"sort"
	"strings"
	"sync"
	"testing"
	"time"

	"github.com/cosi-project/runtime/pkg/controller/conformance"
	"github.com/cosi-project/runtime/pkg/controller/runtime/options"
	"github.com/cosi-project/runtime/pkg/controller/runtime/verif"
	"github.com/cosi-project/runtime/pkg/resource"
	"github.com/cosi-project/runtime/pkg/resource/kvutils"
	"github.com/cosi-project/runtime/pkg/state"
	"github.com/cosi-project/runtime/pkg/state/impl/inmem"
	"github.com/cosi-project/runtime/pkg/state/impl/namespaced"

	"verifharness/vh"
)

type Cmd struct {
	Op    string `json:"op"`
	H     int    `json:"h"`
	G     int    `json:"g"`
	Field string `json:"field"`
	K     string `json:"k"`
}

type HeldP struct {
	H int    `json:"h"`
	V string `json:"v"`
}

type Line struct {
	Ev       string  `json:"ev"`
	Tid      string  `json:"tid"`
	Op       string  `json:"op"`
	H        int     `json:"h"`
	G        int     `json:"g"`
	Field    string  `json:"field"`
	Contents string  `json:"contents"`
	Replica  string  `json:"replica"`
	Held     []HeldP `json:"held"`
}

const ns = "n1"

// full is a complete, canonical rendering of a resource (everything a caller can mutate).
// Resources whose spec is a protobuf message (protobuf.ResourceSpec): the stacks "inmem-pb" and "cache-pb" run the same programs
// on this type. The base value of the spec is the EMPTY message (a marker resource), "spec" mutations set a field.
const pbType = resource.Type("PbMarkers.verif.cosi.dev")

type pbSpec = protobuf.ResourceSpec[v1alpha1.Metadata, *v1alpha1.Metadata]

type pbExt struct{}

func (pbExt) ResourceDefinition() meta.ResourceDefinitionSpec {
	return meta.ResourceDefinitionSpec{Type: pbType, DefaultNamespace: ns}
}

type pbRes = typed.Resource[pbSpec, pbExt]

// curType is the resource type of the program that is running (programs run one after the other).
var curType = resource.Type(vh.IntType)

func mkRes(key vh.Key, o vh.Obj) resource.Resource {
	if curType != pbType {
		return vh.NewRes(key, o)
	}

	r := typed.NewResource[pbSpec, pbExt](resource.NewMetadata(key.NS, pbType, key.ID, resource.VersionUndefined), protobuf.NewResourceSpec(&v1alpha1.Metadata{}))
	r.Metadata().SetPhase(vh.PhaseOf(o.Phase))

	for _, f := range o.Fins {
		r.Metadata().Finalizers().Add(f)
	}

	for _, l := range o.Labels {
		r.Metadata().Labels().Set(l[0], l[1])
	}

	return r
}

func full(r resource.Resource) string {
	if r == nil {
		return "nil"
	}

	if pr, ok := r.(*pbRes); ok {
		return fullMd(r.Metadata()) + fmt.Sprintf(" spec=pb(%s)", pr.TypedSpec().Value.GetOwner())
	}

	return fullMd(r.Metadata()) + fmt.Sprintf(" spec=%d", vh.SpecOf(r))
}

func fullMd(md *resource.Metadata) string {
	kvs := func(m map[string]string) string {
		keys := make([]string, 0, len(m))
		for k := range m {
			keys = append(keys, k+"="+m[k])
		}

		sort.Strings(keys)

		return strings.Join(keys, ",")
	}

	fins := append([]string{}, *md.Finalizers()...)
	sort.Strings(fins)

	return fmt.Sprintf("%s/%s v=%s owner=%q phase=%s fins=[%s] labels={%s} ann={%s}", md.Type(), md.ID(), md.Version(), md.Owner(), md.Phase(),
		strings.Join(fins, ","), kvs(md.Labels().Raw()), kvs(md.Annotations().Raw()))
}

type held struct {
	res resource.Resource  // nil for metadata-only handles
	md  *resource.Metadata // metadata copy handles
}

func (h held) String() string {
	if h.res != nil {
		return full(h.res)
	}

	if h.md != nil {
		return "md:" + fullMd(h.md)
	}

	return "-"
}

var mutN int

func mutate(md *resource.Metadata, res resource.Resource, field string) {
	mutN++
	tag := fmt.Sprintf("m%d", mutN)

	switch field {
	case "labelSet":
		md.Labels().Set("k", tag)
	case "labelDelete":
		md.Labels().Delete("base")
	case "labelDo":
		md.Labels().Do(func(t kvutils.TempKV) {
			t.Set("do", tag)
			t.Delete("base")
		})
	case "labelDoDel":
		// a transaction whose first effective step removes an existing key
		md.Labels().Do(func(t kvutils.TempKV) {
			t.Delete("missing")
			t.Delete("base")
			t.Set("do", tag)
		})
	case "annotationDo":
		md.Annotations().Do(func(t kvutils.TempKV) {
			t.Delete("base")
			t.Set("a", tag)
			t.Set("base", tag)
		})
	case "annotationSet":
		md.Annotations().Set("a", tag)
	case "annotationDelete":
		md.Annotations().Delete("base")
	case "finAdd":
		md.Finalizers().Add(tag)
	case "finRemove":
		md.Finalizers().Remove("basefin")
	case "finSet":
		md.Finalizers().Set(resource.Finalizers{tag, "x"})
	case "phase":
		if md.Phase() == resource.PhaseRunning {
			md.SetPhase(resource.PhaseTearingDown)
		} else {
			md.SetPhase(resource.PhaseRunning)
		}
	case "version":
		md.SetVersion(md.Version().Next())
	case "owner":
		md.SetOwner(tag) //nolint:errcheck
	case "spec":
		if ir, ok := res.(*conformance.IntResource); ok {
			ir.SetValue(ir.Value() + 1000)
		}

		if pr, ok := res.(*pbRes); ok {
			pr.TypedSpec().Value.Owner = tag
		}
	}
}

// stack abstracts the three ways a caller reaches the store.
type stack struct {
	name    string
	st      state.State                  // API used by the program
	base    state.State                  // independent access for snapshots
	cache   *verif.ResourceCache         // non-nil: reads go through the runtime cache
	replica map[string]resource.Resource // fed from a kind watch on base
	mu      sync.Mutex
}

func (s *stack) snapshot(ctx context.Context) string {
	l, err := s.base.List(ctx, resource.NewMetadata(ns, curType, "", resource.VersionUndefined))
	if err != nil {
		return "!" + err.Error()
	}

	parts := []string{}
	for _, r := range l.Items {
		parts = append(parts, full(r))
	}

	return strings.Join(parts, " | ")
}

func (s *stack) replicaString() string {
	s.mu.Lock()
	defer s.mu.Unlock()

	ids := make([]string, 0, len(s.replica))
	for id := range s.replica {
		ids = append(ids, id)
	}

	sort.Strings(ids)

	parts := []string{}
	for _, id := range ids {
		parts = append(parts, full(s.replica[id]))
	}

	return strings.Join(parts, " | ")
}

func newStack(t *testing.T, ctx context.Context, name string) *stack {
	base := state.WrapCore(namespaced.NewState(inmem.Build))
	s := &stack{name: name, st: base, base: base, replica: map[string]resource.Resource{}}

	switch name {
	case "remote":
		_, cl := vh.NewRemote(t, base)
		s.st = state.WrapCore(cl)
	case "cache", "cache-pb":
		s.cache = verif.NewResourceCache([]options.CachedResource{{Namespace: ns, Type: curType}})
		s.cache.MarkBootstrapped(ns, curType)
	}

	ch := make(chan state.Event, 256)
	if err := base.WatchKind(ctx, resource.NewMetadata(ns, curType, "", resource.VersionUndefined), ch); err != nil {
		t.Fatal(err)
	}

	go func() {
		for {
			select {
			case <-ctx.Done():
				return
			case ev := <-ch:
				s.mu.Lock()

				switch ev.Type {
				case state.Created, state.Updated:
					// the replica keeps the very object the watch delivered (watchers must not see later mutations)
					s.replica[ev.Resource.Metadata().ID()] = ev.Resource

					if s.cache != nil {
						s.cache.CachePut(ev.Resource) // exactly what the runtime does with watch events
					}
				case state.Destroyed:
					delete(s.replica, ev.Resource.Metadata().ID())

					if s.cache != nil {
						s.cache.CacheRemove(ev.Resource)
					}
				}

				s.mu.Unlock()
			}
		}
	}()

	return s
}

func (s *stack) get(ctx context.Context, ptr resource.Pointer) (resource.Resource, error) {
	if s.cache != nil {
		return s.cache.Get(ctx, ptr)
	}

	return s.st.Get(ctx, ptr)
}

func (s *stack) list(ctx context.Context, opts ...state.ListOption) (resource.List, error) {
	kind := resource.NewMetadata(ns, curType, "", resource.VersionUndefined)
	if s.cache != nil {
		return s.cache.List(ctx, kind, opts...)
	}

	return s.st.List(ctx, kind, opts...)
}

func runProgram(t *testing.T, tr *vh.Trace, tid string, stackName string, prog []Cmd) {
	ctx, cancel := context.WithCancel(context.Background())
	defer cancel()

	curType = vh.IntType
	if strings.HasSuffix(stackName, "-pb") {
		curType = pbType
	}

	s := newStack(t, ctx, stackName)
	hs := map[int]held{}

	tr.Emit(Line{Ev: "reset", Tid: tid, Held: []HeldP{}})

	settle := func() {
		// the replica (and the cache) follow the store through a watch: wait until they caught up
		deadline := time.Now().Add(2 * time.Second)
		for time.Now().Before(deadline) {
			if s.replicaString() == s.snapshot(ctx) {
				return
			}

			time.Sleep(time.Millisecond)
		}
	}

	log := func(ev string, c Cmd) {
		settle()

		hp := []HeldP{}

		for h := 1; h <= 4; h++ {
			if v, ok := hs[h]; ok {
				hp = append(hp, HeldP{H: h, V: v.String()})
			}
		}

		tr.Emit(Line{Ev: ev, Tid: tid, Op: c.Op, H: c.H, G: c.G, Field: c.Field, Contents: s.snapshot(ctx), Replica: s.replicaString(), Held: hp})
	}

	for _, c := range prog {
		key := vh.Key{NS: ns, Typ: curType, ID: c.K}

		switch c.Op {
		case "create":
			// one or three finalizers: a set of three built by appends has spare capacity in its backing array (the hazard of
			// appending in place to a slice that copies of the metadata share)
			fins := []string{"basefin"}
			if mutN%2 == 1 {
				fins = []string{"basefin", "f2", "f3"}
			}

			r := mkRes(key, vh.Obj{Spec: 1, Phase: "running", Labels: [][2]string{{"base", "1"}}, Fins: fins})
			r.Metadata().Annotations().Set("base", "1")

			if err := s.st.Create(ctx, r); err == nil {
				hs[c.H] = held{res: r}
			}

			log("api", c)
		case "get", "watchget":
			if r, err := s.get(ctx, key.Pointer()); err == nil {
				hs[c.H] = held{res: r}
			}

			log("api", c)
		case "list":
			if l, err := s.list(ctx); err == nil && len(l.Items) > 0 {
				hs[c.H] = held{res: l.Items[len(l.Items)-1]}
			}

			log("api", c)
		case "listlabel", "listid":
			// filtered lists take their own path through every implementation (and through the runtime cache)
			opt := state.WithLabelQuery(resource.LabelExists("base"))
			if c.Op == "listid" {
				opt = state.WithIDQuery(resource.IDRegexpMatch(regexp.MustCompile("^[ab]$")))
			}

			if l, err := s.list(ctx, opt); err == nil && len(l.Items) > 0 {
				hs[c.H] = held{res: l.Items[len(l.Items)-1]}
			}

			log("api", c)
		case "strip":
			// a fresh read, every label and annotation and finalizer deleted one by one, written back: the stored
			// object then holds allocated-but-empty containers
			if r, err := s.base.Get(ctx, key.Pointer()); err == nil {
				for k := range r.Metadata().Labels().Raw() {
					r.Metadata().Labels().Delete(k)
				}

				for k := range r.Metadata().Annotations().Raw() {
					r.Metadata().Annotations().Delete(k)
				}

				for _, f := range append([]string{}, *r.Metadata().Finalizers()...) {
					r.Metadata().Finalizers().Remove(f)
				}

				if err = s.st.Update(ctx, r, state.WithExpectedPhaseAny()); err == nil {
					hs[c.H] = held{res: r}
				}
			}

			log("api", c)
		case "update":
			if cur, ok := hs[c.H]; ok && cur.res != nil {
				// a fresh read, changed and written; the written object stays held
				if r, err := s.base.Get(ctx, cur.res.Metadata()); err == nil {
					r.Metadata().Labels().Set("upd", fmt.Sprint(mutN))
					mutN++

					if err = s.st.Update(ctx, r, state.WithExpectedPhaseAny()); err == nil {
						hs[c.H] = held{res: r}
					}
				}
			}

			log("api", c)
		case "modify":
			var captured resource.Resource

			err := s.st.Modify(ctx, mkRes(key, vh.Obj{Spec: 1, Phase: "running"}), func(r resource.Resource) error {
				mutN++
				r.Metadata().Labels().Set("mod", fmt.Sprint(mutN))
				captured = r

				return nil
			}, state.WithExpectedPhaseAny())
			if err == nil && captured != nil {
				hs[c.H] = held{res: captured} // the object handed to the callback stays with the caller
			}

			log("api", c)
		case "mdcopy":
			if src, ok := hs[c.H]; ok && c.G != c.H {
				var md resource.Metadata

				switch {
				case src.res != nil && mutN%2 == 0:
					md = src.res.Metadata().Copy()
				case src.res != nil:
					md = *src.res.Metadata() // struct assignment
				case src.md != nil:
					md = src.md.Copy()
				}

				hs[c.G] = held{md: &md}
			}

			log("api", c)
		case "twinadd", "twinremadd":
			// two holders of one lineage (two reads, or a read and a struct copy of its metadata) each add a finalizer of their
			// own; "twinremadd": the first holder removed one before the copy was taken (a slice with spare capacity).
			// Logged as the primitive steps it consists of.
			g := c.G
			if g == c.H {
				g = c.H%4 + 1
			}

			r1, err1 := s.get(ctx, key.Pointer())
			if err1 == nil {
				hs[c.H] = held{res: r1}
			}

			log("api", Cmd{Op: "get", H: c.H, G: c.H, Field: c.Field, K: c.K})

			if err1 != nil {
				break
			}

			if c.Op == "twinremadd" {
				mutate(r1.Metadata(), r1, "finRemove")
				log("mutate", Cmd{Op: "mutate", H: c.H, G: c.H, Field: "finRemove", K: c.K})

				md := *r1.Metadata()
				hs[g] = held{md: &md}

				log("api", Cmd{Op: "mdcopy", H: c.H, G: g, Field: c.Field, K: c.K})
			} else {
				if r2, err2 := s.get(ctx, key.Pointer()); err2 == nil {
					hs[g] = held{res: r2}
				}

				log("api", Cmd{Op: "get", H: g, G: g, Field: c.Field, K: c.K})
			}

			for _, h := range []int{c.H, g} {
				if cur, ok := hs[h]; ok {
					if cur.res != nil {
						mutate(cur.res.Metadata(), cur.res, "finAdd")
					} else if cur.md != nil {
						mutate(cur.md, nil, "finAdd")
					}

					log("mutate", Cmd{Op: "mutate", H: h, G: h, Field: "finAdd", K: c.K})
				}
			}
		case "mutate":
			if cur, ok := hs[c.H]; ok {
				if cur.res != nil {
					mutate(cur.res.Metadata(), cur.res, c.Field)
				} else if cur.md != nil {
					mutate(cur.md, nil, c.Field)
				}

				log("mutate", c)
			}
		}
	}
}

func TestAlias(t *testing.T) {
	var progs [][]Cmd

	if err := vh.ReadJSON(vh.Env("VERIF_IN"), &progs); err != nil {
		t.Fatal(err)
	}

	tr, err := vh.NewTrace(vh.Env("VERIF_OUT"))
	if err != nil {
		t.Fatal(err)
	}

	defer tr.Close() //nolint:errcheck

	stacks := []string{"inmem", "remote", "cache", "inmem-pb", "cache-pb"}

	for i, p := range progs {
		runProgram(t, tr, fmt.Sprintf("%s#%d", stacks[i%len(stacks)], i), stacks[i%len(stacks)], p)
	}
}
