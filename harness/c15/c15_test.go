// Package c15 drives the runtime's ResourceCache (through the verif facade) white box inside a
// synctest bubble with TLC-generated operation sequences: appends before Bootstrapped, put/remove
// after it, readers that must block until the initial contents are complete, teardown-bound
// contexts. It records only; TraceCache judges.
package c15

import (
	"context"
	"fmt"
	"regexp"
	"sort"
	"sync"
	"testing"
	"testing/synctest"

	"github.com/cosi-project/runtime/pkg/controller/runtime/options"
	"github.com/cosi-project/runtime/pkg/controller/runtime/verif"
	"github.com/cosi-project/runtime/pkg/resource"
	"github.com/cosi-project/runtime/pkg/state"

	"verifharness/vh"
)

type Cmd struct {
	C   string `json:"c"`
	ID  int    `json:"id"`
	Ver int    `json:"ver"`
	Td  bool   `json:"td"`
	R   int    `json:"r"`
	Op  string `json:"op"`
}

type Item struct {
	ID  int  `json:"id"`
	Ver int  `json:"ver"`
	Td  bool `json:"td"`
}

type Line struct {
	Ev        string `json:"ev"`
	Tid       string `json:"tid"`
	ID        int    `json:"id"`
	Ver       int    `json:"ver"`
	Td        bool   `json:"td"`
	R         int    `json:"r"`
	Op        string `json:"op"`
	Note      string `json:"note"`
	Blocked   bool   `json:"blocked"`
	Res       []Item `json:"res"`
	N         int    `json:"n"`
	Cancelled bool   `json:"cancelled"`
}

const ns = "n1"

func rid(id int) string { return fmt.Sprintf("r%d", id) }

// hooked is a cached resource whose Metadata() runs a one-shot hook: the way to make something happen at the exact
// moment a scan of the cache contents looks at a resource.
type hooked struct {
	resource.Resource
	hook *func()
}

func (h *hooked) Metadata() *resource.Metadata {
	if f := *h.hook; f != nil {
		*h.hook = nil

		f()
	}

	return h.Resource.Metadata()
}

func (h *hooked) DeepCopy() resource.Resource { return h.Resource.DeepCopy() } //nolint:ireturn

var scanHook func()

func mk(id, ver int, td bool) resource.Resource {
	phase := "running"
	if td {
		phase = "tearingDown"
	}

	return &hooked{Resource: vh.NewRes(vh.Key{NS: ns, Typ: vh.IntType, ID: rid(id)}, vh.Obj{Ver: ver, Spec: ver, Phase: phase}), hook: &scanHook}
}

func item(r resource.Resource) Item {
	var id int

	fmt.Sscanf(r.Metadata().ID(), "r%d", &id) //nolint:errcheck

	return Item{ID: id, Ver: vh.VersionInt(r.Metadata().Version()), Td: r.Metadata().Phase() == resource.PhaseTearingDown}
}

type ctxRec struct {
	n, id  int
	ctx    context.Context
	cancel context.CancelFunc // cancels the parent of this teardown-bound context
}

func runBehaviour(t *testing.T, tr *vh.Trace, tid string, beh []Cmd) {
	synctest.Test(t, func(t *testing.T) {
		root, cancel := context.WithCancel(context.Background())
		cache := verif.NewResourceCache([]options.CachedResource{{Namespace: ns, Type: vh.IntType}})

		var mu sync.Mutex

		emit := func(l Line) {
			mu.Lock()
			defer mu.Unlock()

			l.Tid = tid
			if l.Res == nil {
				l.Res = []Item{}
			}

			tr.Emit(l)
		}

		emit(Line{Ev: "reset"})

		var (
			ctxs    []ctxRec
			wg      sync.WaitGroup
			pending = map[int]chan []Item{} // reader -> completion
			seq     = 0
		)

		collect := func() {
			synctest.Wait()

			rs := make([]int, 0, len(pending))
			for r := range pending {
				rs = append(rs, r)
			}

			sort.Ints(rs)

			for _, r := range rs {
				select {
				case res := <-pending[r]:
					emit(Line{Ev: "done", R: r, Res: res})
					delete(pending, r)
				default:
				}
			}
		}

		ctxStates := func() {
			synctest.Wait()

			for _, c := range ctxs {
				emit(Line{Ev: "ctxstate", N: c.n, ID: c.id, Cancelled: c.ctx.Err() != nil})
			}
		}

		for _, c := range beh {
			switch c.C {
			case "append":
				cache.CacheAppend(mk(c.ID, c.Ver, c.Td))
				emit(Line{Ev: "append", ID: c.ID, Ver: c.Ver, Td: c.Td})
			case "put":
				cache.CachePut(mk(c.ID, c.Ver, c.Td))
				emit(Line{Ev: "put", ID: c.ID, Ver: c.Ver, Td: c.Td})
			case "remove":
				cache.CacheRemove(mk(c.ID, 1, false))
				emit(Line{Ev: "remove", ID: c.ID})
			case "boot":
				cache.MarkBootstrapped(ns, vh.IntType)
				emit(Line{Ev: "boot"})
			case "read":
				seq++
				r := seq
				ch := make(chan []Item, 1)
				pending[r] = ch

				wg.Add(1)

				go func() {
					defer wg.Done()

					var res []Item

					if c.Op == "get" {
						got, err := cache.Get(root, vh.Key{NS: ns, Typ: vh.IntType, ID: rid(c.ID)}.Pointer())

						switch {
						case err == nil:
							res = append(res, item(got))
						case state.IsNotFoundError(err):
						default:
							return
						}
					} else {
						l, err := cache.List(root, resource.NewMetadata(ns, vh.IntType, "", resource.VersionUndefined))
						if err != nil {
							return
						}

						for _, it := range l.Items {
							res = append(res, item(it))
						}
					}

					ch <- res
				}()

				synctest.Wait()

				blocked := true

				select {
				case res := <-ch:
					blocked = false
					ch <- res
				default:
				}

				emit(Line{Ev: "issue", R: r, Op: c.Op, ID: c.ID, Blocked: blocked})
			case "racelist":
				// a filtered List; the moment its scan looks at the first cached resource, the cache applies one mutation
				fired := false
				apply := func() {
					if c.Op == "put" {
						cache.CachePut(mk(c.ID, c.Ver, c.Td))
					} else {
						cache.CacheRemove(mk(c.ID, 1, false))
					}
				}

				scanHook = func() {
					fired = true

					apply()
				}

				var (
					res     = []Item{}
					outcome = "ok"
				)

				func() {
					defer func() {
						if p := recover(); p != nil {
							outcome = fmt.Sprint("panic: ", p)
						}
					}()

					l, err := cache.List(root, resource.NewMetadata(ns, vh.IntType, "", resource.VersionUndefined),
						state.WithIDQuery(resource.IDRegexpMatch(regexp.MustCompile("^r[0-9]+$"))))
					if err != nil {
						outcome = "error: " + err.Error()

						return
					}

					for _, it := range l.Items {
						res = append(res, item(it))
					}
				}()

				scanHook = nil

				if !fired {
					apply()
				}

				emit(Line{Ev: "racelist", Op: c.Op, ID: c.ID, Ver: c.Ver, Td: c.Td, Res: res, Note: outcome})
			case "cancelctx":
				for _, cr := range ctxs {
					if cr.n == c.ID {
						cr.cancel()
						emit(Line{Ev: "cancelctx", N: cr.n})
					}
				}
			case "ctx":
				parent, pcancel := context.WithCancel(root)

				tctx, err := cache.ContextWithTeardown(parent, vh.Key{NS: ns, Typ: vh.IntType, ID: rid(c.ID)}.Pointer())
				if err != nil {
					pcancel()

					continue
				}

				ctxs = append(ctxs, ctxRec{n: len(ctxs) + 1, id: c.ID, ctx: tctx, cancel: pcancel})
				emit(Line{Ev: "ctx", N: len(ctxs), ID: c.ID})
			}

			collect()
			ctxStates()
		}

		emit(Line{Ev: "end"})
		cancel()
		wg.Wait()
		synctest.Wait()
	})
}

func TestCache(t *testing.T) {
	var behs [][]Cmd

	if err := vh.ReadJSON(vh.Env("VERIF_IN"), &behs); err != nil {
		t.Fatal(err)
	}

	tr, err := vh.NewTrace(vh.Env("VERIF_OUT"))
	if err != nil {
		t.Fatal(err)
	}

	defer tr.Close() //nolint:errcheck

	for i, b := range behs {
		runBehaviour(t, tr, fmt.Sprintf("c#%d", i), b)
	}
}
