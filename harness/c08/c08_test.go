// Package c08 executes the TLC-emitted confinement matrix through the real runtime adapters:
// for every declaration set a probe Controller / QController is registered on a real runtime and
// performs each operation through its runtime handle against a freshly seeded target.
package c08

import (
	"context"
	"encoding/json"
	"fmt"
	"slices"
	"sort"
	"strings"
	"testing"
	"testing/synctest"

	"github.com/siderolabs/gen/optional"

	"github.com/cosi-project/runtime/pkg/controller"
	"github.com/cosi-project/runtime/pkg/controller/conformance"
	"github.com/cosi-project/runtime/pkg/controller/runtime/options"
	"github.com/cosi-project/runtime/pkg/resource"
	"github.com/cosi-project/runtime/pkg/state"
	"github.com/cosi-project/runtime/pkg/state/impl/inmem"
	"github.com/cosi-project/runtime/pkg/state/impl/namespaced"

	"verifharness/rt"
	"verifharness/vh"
)

type In struct {
	Typ  string `json:"typ"`
	ID   string `json:"id"`
	Kind string `json:"kind"`
}

type Row struct {
	Fl   string   `json:"fl"`
	Outs []string `json:"outs"`
	Ins  []In     `json:"ins"`
	Op   string   `json:"op"`
	Typ  string   `json:"typ"`
	ID   string   `json:"id"`
	Ex   string   `json:"ex"`
	Opt  string   `json:"opt"`
}

type Val struct {
	Ver   int      `json:"ver"`
	Owner string   `json:"owner"`
	Phase string   `json:"phase"`
	Fins  []string `json:"fins"`
}

type Line struct {
	Ev     string `json:"ev"`
	Tid    string `json:"tid"`
	Cached bool   `json:"cached"`
	Row
	Cls   string `json:"cls"`
	After Val    `json:"after"`
	Err   string `json:"err"`
}

const (
	ns    = "n1"
	self  = "ctrl"
	other = "other"
)

var typeOf = map[string]string{"tA": vh.IntType, "tB": vh.StrType}

var inKind = map[string]controller.InputKind{
	"weak": controller.InputWeak, "strong": controller.InputStrong, "destroyReady": controller.InputDestroyReady,
	"qPrimary": controller.InputQPrimary, "qMapped": controller.InputQMapped, "qMappedDestroyReady": controller.InputQMappedDestroyReady,
}

func declKey(r Row) string {
	b, _ := json.Marshal(struct {
		Fl   string
		Outs []string
		Ins  []In
	}{r.Fl, r.Outs, r.Ins})

	return string(b)
}

func valueOf(r resource.Resource) Val {
	if r == nil {
		return Val{Phase: "running", Fins: []string{}}
	}

	o := vh.Project(r, nil)

	return Val{Ver: o.Ver, Owner: o.Owner, Phase: o.Phase, Fins: o.Fins}
}

// handle is what both runtime flavours offer to a controller.
type handle interface {
	controller.ReaderWriter
	controller.UncachedReader
}

func seed(ctx context.Context, t *testing.T, st state.State, k vh.Key, ex string) {
	// remove whatever is there
	if cur, err := st.Get(ctx, k.Pointer()); err == nil {
		if !cur.Metadata().Finalizers().Empty() {
			o := vh.Project(cur, nil)
			o.Fins = nil

			if err = st.Update(ctx, vh.NewRes(k, o), state.WithUpdateOwner(cur.Metadata().Owner()), state.WithExpectedPhaseAny()); err != nil {
				t.Fatal(err)
			}
		}

		if err = st.Destroy(ctx, k.Pointer(), state.WithDestroyOwner(cur.Metadata().Owner())); err != nil {
			t.Fatal(err)
		}
	}

	o := vh.Obj{Spec: 1, Phase: "running"}

	switch ex {
	case "absent":
		return
	case "self":
		o.Owner = self
	case "other":
		o.Owner = other
	case "none":
	case "selfFin":
		o.Owner = self
		o.Fins = []string{"x"}
	case "selfTd":
		o.Owner = self
		o.Phase = "tearingDown"
	}

	if err := st.Create(ctx, vh.NewRes(k, o), state.WithCreateOwner(o.Owner)); err != nil {
		t.Fatal(err)
	}
}

func bump(r resource.Resource) error {
	switch v := r.(type) {
	case *conformance.IntResource:
		v.SetValue(v.Value() + 1)
	case *conformance.StrResource:
		v.SetValue(v.Value() + "1")
	}

	return nil
}

func perform(ctx context.Context, h handle, row Row, k vh.Key) error {
	ptr := k.Pointer()

	var delOpts []controller.DeleteOption
	if row.Opt == "ownerOther" {
		delOpts = append(delOpts, controller.WithOwner(other))
	}

	switch row.Op {
	case "get":
		_, err := h.Get(ctx, ptr)

		return err
	case "getUncached":
		_, err := h.GetUncached(ctx, ptr)

		return err
	case "list":
		_, err := h.List(ctx, resource.NewMetadata(k.NS, k.Typ, "", resource.VersionUndefined))

		return err
	case "ctx":
		c, err := h.ContextWithTeardown(ctx, ptr)
		_ = c

		return err
	case "create":
		var opts []controller.CreateOption
		if row.Opt == "noOwner" {
			opts = append(opts, controller.WithCreateNoOwner())
		}

		return h.Create(ctx, vh.NewRes(k, vh.Obj{Spec: 5, Phase: "running"}), opts...)
	case "update":
		// the update carries the target's current metadata (only the payload changes)
		o := vh.Obj{Ver: 1, Spec: 7, Phase: "running", Owner: self}

		switch row.Ex {
		case "selfFin":
			o.Fins = []string{"x"}
		case "selfTd":
			o.Phase = "tearingDown"
		case "other":
			o.Owner = other
		case "none":
			o.Owner = ""
		}

		return h.Update(ctx, vh.NewRes(k, o))
	case "modify":
		var opts []controller.ModifyOption
		if row.Opt == "noOwner" {
			opts = append(opts, controller.WithModifyNoOwner())
		}

		switch row.Opt {
		case "phaseAny":
			opts = append(opts, controller.WithExpectedPhaseAny())
		case "phaseTd":
			opts = append(opts, controller.WithExpectedPhase(resource.PhaseTearingDown))
		}

		return h.Modify(ctx, vh.NewRes(k, vh.Obj{Spec: 1, Phase: "running"}), bump, opts...)
	case "teardown":
		_, err := h.Teardown(ctx, ptr, delOpts...)

		return err
	case "destroy":
		return h.Destroy(ctx, ptr, delOpts...)
	case "addfin":
		return h.AddFinalizer(ctx, ptr, "fin")
	case "remfin":
		return h.RemoveFinalizer(ctx, ptr, "x")
	}

	panic("unknown op " + row.Op)
}

func inputsOfRow(d Row) []controller.Input {
	var ins []controller.Input

	for _, i := range d.Ins {
		in := controller.Input{Namespace: ns, Type: typeOf[i.Typ], Kind: inKind[i.Kind]}
		if i.ID != "-" {
			in.ID = optional.Some(i.ID)
		}

		ins = append(ins, in)
	}

	return ins
}

// runGroup executes the rows of one declaration through one controller handle. next (reduced-runtime flavour only): afterwards
// the SAME controller re-declares its inputs (UpdateInputs) to the declaration of next and executes those rows: what a controller
// may access is a function of its current declaration only, never of what it was allowed to do before.
func runGroup(t *testing.T, tr *vh.Trace, tid string, rows []Row, cached bool, next []Row) {
	synctest.Test(t, func(t *testing.T) {
		ctx, cancel := context.WithCancel(context.Background())
		st := state.WrapCore(namespaced.NewState(inmem.Build))

		var ropts []options.Option
		if cached {
			ropts = append(ropts, options.WithCachedResource(ns, vh.IntType), options.WithCachedResource(ns, vh.StrType))
		}

		r, err := rt.NewRuntime(st, ropts...)
		if err != nil {
			t.Fatal(err)
		}

		d := rows[0]

		var (
			ins  []controller.Input
			outs []controller.Output
		)

		for _, i := range d.Ins {
			in := controller.Input{Namespace: ns, Type: typeOf[i.Typ], Kind: inKind[i.Kind]}
			if i.ID != "-" {
				in.ID = optional.Some(i.ID)
			}

			ins = append(ins, in)
		}

		for _, o := range d.Outs {
			outs = append(outs, controller.Output{Type: typeOf[o], Kind: controller.OutputExclusive})
		}

		hch := make(chan handle, 1)

		if d.Fl == "r" {
			err = r.RegisterController(&rt.Probe{NameV: self, InputsV: ins, OutputsV: outs, RunF: func(ctx context.Context, crt controller.Runtime) error {
				// the same inputs once more through UpdateInputs; the slice handed over stays the caller's: it is scribbled
				// over afterwards, which must not change what the controller may access
				mine := slices.Clone(ins)
				if uerr := crt.UpdateInputs(mine); uerr != nil {
					return uerr
				}

				for i := range mine {
					mine[i] = controller.Input{Namespace: "elsewhere", Type: "Scratch", Kind: controller.InputStrong}
				}

				hch <- crt
				<-ctx.Done()

				return nil
			}})
		} else {
			err = r.RegisterQController(&rt.QProbe{NameV: self, InputsV: ins, OutputsV: outs, RunHookF: func(ctx context.Context, qrt controller.QRuntime) error {
				hch <- qrt
				<-ctx.Done()

				return nil
			}})
		}

		if err != nil {
			t.Fatalf("registering %v: %v", d, err)
		}

		runDone := make(chan error, 1)

		go func() { runDone <- r.Run(ctx) }()

		h := <-hch

		exec := func(rows []Row, tid string) {
			for _, row := range rows {
				k := vh.Key{NS: ns, Typ: typeOf[row.Typ], ID: row.ID}

				seed(ctx, t, st, k, row.Ex)
				synctest.Wait()

				opErr := perform(ctx, h, row, k)

				synctest.Wait()

				var after resource.Resource
				if cur, gerr := st.Get(ctx, k.Pointer()); gerr == nil {
					after = cur
				}

				line := Line{Ev: "row", Tid: tid, Cached: cached, Row: row, Cls: vh.Class(opErr), After: valueOf(after)}
				if opErr != nil {
					line.Err = opErr.Error()
				}

				sort.Strings(line.After.Fins)
				tr.Emit(line)
			}
		}

		exec(rows, tid)

		// once more in the opposite order through the same handle: what a call is allowed to do never depends on the calls made
		// before it (an option of an earlier call must not stick)
		if next == nil {
			rev := slices.Clone(rows)
			slices.Reverse(rev)
			exec(rev, tid+"-again")
		}

		if next != nil {
			if uerr := h.(interface {
				UpdateInputs([]controller.Input) error
			}).UpdateInputs(inputsOfRow(next[0])); uerr != nil {
				t.Fatalf("UpdateInputs %v -> %v: %v", d.Ins, next[0].Ins, uerr)
			}

			synctest.Wait()
			exec(next, tid+"-redeclared")
		}

		cancel()
		<-runDone
		synctest.Wait()
	})
}

func TestAccess(t *testing.T) {
	var rows []Row

	if err := vh.ReadJSON(vh.Env("VERIF_IN"), &rows); err != nil {
		t.Fatal(err)
	}

	tr, err := vh.NewTrace(vh.Env("VERIF_OUT"))
	if err != nil {
		t.Fatal(err)
	}

	defer tr.Close() //nolint:errcheck

	groups := map[string][]Row{}
	order := []string{}

	for _, r := range rows {
		k := declKey(r)
		if _, ok := groups[k]; !ok {
			order = append(order, k)
		}

		groups[k] = append(groups[k], r)
	}

	for gi, k := range order {
		for _, cached := range []bool{false, true} {
			runGroup(t, tr, fmt.Sprintf("g%d-%v", gi, cached), groups[k], cached, nil)
		}
	}

	// chained declarations: reduced-runtime controllers whose outputs agree, each re-declaring its inputs to the next one's
	var rkeys []string

	for _, k := range order {
		if groups[k][0].Fl == "r" {
			rkeys = append(rkeys, k)
		}
	}

	for i := range rkeys {
		a, b := groups[rkeys[i]], groups[rkeys[(i+1)%len(rkeys)]]
		if len(rkeys) < 2 || strings.Join(a[0].Outs, ",") != strings.Join(b[0].Outs, ",") {
			continue
		}

		runGroup(t, tr, fmt.Sprintf("chain%d", i), a, i%2 == 1, b)
	}
}
