package c08

import (
	"context"
	"fmt"
	"testing"
	"testing/synctest"
	"time"

	"golang.org/x/time/rate"

	"github.com/cosi-project/runtime/pkg/controller"
	"github.com/cosi-project/runtime/pkg/controller/runtime/options"
	"github.com/cosi-project/runtime/pkg/resource"
	"github.com/cosi-project/runtime/pkg/state"
	"github.com/cosi-project/runtime/pkg/state/impl/inmem"
	"github.com/cosi-project/runtime/pkg/state/impl/namespaced"

	"verifharness/rt"
	"verifharness/vh"
)

// RCmd is one call of the rate-limit driver (RateLimit.tla): after gap ms of idle time the probe controller issues c on key k.
type RCmd struct {
	C   string `json:"c"`
	Gap int    `json:"gap"`
	K   string `json:"k"`
}

type RLine struct {
	Ev     string `json:"ev"`
	Tid    string `json:"tid"`
	C      string `json:"c"`
	K      string `json:"k"`
	Tokens int    `json:"tokens"`
	T0     int    `json:"t0"`
	T1     int    `json:"t1"`
	Cls    string `json:"cls"`
}

func runRateLimit(t *testing.T, tr *vh.Trace, tid string, beh []RCmd) {
	synctest.Test(t, func(t *testing.T) {
		ctx, cancel := context.WithCancel(context.Background())
		st := state.WrapCore(namespaced.NewState(inmem.Build))

		r, err := rt.NewRuntime(st, options.WithChangeRateLimit(rate.Limit(10), 3))
		if err != nil {
			t.Fatal(err)
		}

		hch := make(chan controller.Runtime, 1)

		err = r.RegisterController(&rt.Probe{
			NameV:    self,
			InputsV:  []controller.Input{{Namespace: ns, Type: vh.StrType, Kind: controller.InputStrong}},
			OutputsV: []controller.Output{{Type: vh.IntType, Kind: controller.OutputExclusive}},
			RunF: func(ctx context.Context, crt controller.Runtime) error {
				hch <- crt
				<-ctx.Done()

				return nil
			},
		})
		if err != nil {
			t.Fatal(err)
		}

		runDone := make(chan error, 1)

		go func() { runDone <- r.Run(ctx) }()

		crt := <-hch

		// the inputs the finalizer calls act on exist from the start (created behind the controller)
		for _, id := range []string{"a", "b"} {
			if err = st.Create(ctx, vh.NewRes(vh.Key{NS: ns, Typ: vh.StrType, ID: id}, vh.Obj{Spec: 1, Phase: "running"})); err != nil {
				t.Fatal(err)
			}
		}

		synctest.Wait()

		start := time.Now()
		now := func() int { return int(time.Since(start) / time.Millisecond) }

		tr.Emit(RLine{Ev: "reset", Tid: tid, T0: now()})

		ownedOutputs := func() int {
			l, lerr := st.List(ctx, resource.NewMetadata(ns, vh.IntType, "", resource.VersionUndefined))
			if lerr != nil {
				return 0
			}

			n := 0

			for _, x := range l.Items {
				if x.Metadata().Owner() == self {
					n++
				}
			}

			return n
		}

		for _, c := range beh {
			time.Sleep(time.Duration(c.Gap) * time.Millisecond)

			k := oKey(c.K)
			line := RLine{Ev: "call", Tid: tid, C: c.C, K: c.K, Tokens: 1, T0: now()}

			var opErr error

			switch c.C {
			case "create":
				k.Typ = vh.IntType
				opErr = crt.Create(ctx, vh.NewRes(k, vh.Obj{Spec: 5, Phase: "running"}))
			case "createDenied":
				k.Typ = vh.StrType
				opErr = crt.Create(ctx, vh.NewRes(k, vh.Obj{Spec: 5, Phase: "running"}))
			case "modify":
				k.Typ = vh.IntType
				opErr = crt.Modify(ctx, vh.NewRes(k, vh.Obj{Spec: 1, Phase: "running"}), bump)
			case "teardown":
				k.Typ = vh.IntType
				_, opErr = crt.Teardown(ctx, k.Pointer())
			case "destroy":
				k.Typ = vh.IntType
				opErr = crt.Destroy(ctx, k.Pointer())
			case "addfin":
				k.Typ = vh.StrType
				opErr = crt.AddFinalizer(ctx, k.Pointer(), "fin")
			case "remfin":
				k.Typ = vh.StrType
				opErr = crt.RemoveFinalizer(ctx, k.Pointer(), "fin")
			case "get":
				k.Typ = vh.IntType
				line.Tokens = 0
				_, opErr = crt.Get(ctx, k.Pointer())
			case "list":
				line.Tokens = 0
				_, opErr = crt.List(ctx, resource.NewMetadata(ns, vh.IntType, "", resource.VersionUndefined))
			case "cleanup":
				// nothing touched in this cycle: every owned output is destroyed, one limited Destroy each
				line.Tokens = ownedOutputs()

				crt.StartTrackingOutputs()
				opErr = crt.CleanupOutputs(ctx, resource.NewMetadata(ns, vh.IntType, "", resource.VersionUndefined))
			}

			line.T1 = now()
			line.Cls = vh.Class(opErr)

			if opErr != nil && line.Cls == "other" {
				line.Cls = "other: " + opErr.Error()
			}

			tr.Emit(line)
		}

		cancel()
		<-runDone
		synctest.Wait()
	})
}

func TestRateLimit(t *testing.T) {
	var behs [][]RCmd

	if err := vh.ReadJSON(vh.Env("VERIF_IN"), &behs); err != nil {
		t.Fatal(err)
	}

	tr, err := vh.NewTrace(vh.Env("VERIF_OUT"))
	if err != nil {
		t.Fatal(err)
	}

	defer tr.Close() //nolint:errcheck

	for i, b := range behs {
		runRateLimit(t, tr, fmt.Sprintf("r#%d", i), b)
	}
}
