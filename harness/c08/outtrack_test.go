package c08

import (
	"context"
	"errors"
	"fmt"
	"runtime"
	"sort"
	"strings"
	"testing"
	"testing/synctest"
	"time"

	"github.com/cosi-project/runtime/pkg/controller"
	"github.com/cosi-project/runtime/pkg/resource"
	"github.com/cosi-project/runtime/pkg/state"
	"github.com/cosi-project/runtime/pkg/state/impl/inmem"
	"github.com/cosi-project/runtime/pkg/state/impl/namespaced"

	"verifharness/rt"
	"verifharness/vh"
)

// OCmd is one command of an output-tracking behaviour (OutTrack.tla): controller commands are executed
// by a probe controller through its runtime handle, x-commands by an external actor on the store.
type OCmd struct {
	C  string   `json:"c"`
	K  string   `json:"k"`
	Ks []string `json:"ks"`
}

type OLine struct {
	Ev  string         `json:"ev"`
	Tid string         `json:"tid"`
	C   string         `json:"c"`
	K   string         `json:"k"`
	Ks  []string       `json:"ks"`
	Cls string         `json:"cls"`
	Res map[string]Val `json:"res"`
	Err string         `json:"err"`
	// Tw: the twin controller's output exists
	Tw bool `json:"tw"`
}

var oKeys = []string{"tA/a", "tA/b", "tB/a", "tB/b"}

func oKey(k string) vh.Key {
	p := strings.SplitN(k, "/", 2)

	return vh.Key{NS: ns, Typ: typeOf[p[0]], ID: p[1]}
}

type oResult struct {
	cls string
	err string
}

func runOutTrack(t *testing.T, tr *vh.Trace, tid string, beh []OCmd) {
	synctest.Test(t, func(t *testing.T) {
		ctx, cancel := context.WithCancel(context.Background())
		st := state.WrapCore(namespaced.NewState(inmem.Build))

		r, err := rt.NewRuntime(st)
		if err != nil {
			t.Fatal(err)
		}

		cmds := make(chan OCmd)
		results := make(chan oResult, 1)

		exec := func(ctx context.Context, crt controller.Runtime, c OCmd) (opErr error) {
			defer func() {
				if p := recover(); p != nil {
					results <- oResult{cls: "panic", err: fmt.Sprint(p)}

					panic(p)
				}
			}()

			k := oKey(c.K)

			switch c.C {
			case "start":
				crt.StartTrackingOutputs()
			case "cleanup":
				kinds := []resource.Kind{}
				for _, t := range c.Ks {
					kinds = append(kinds, resource.NewMetadata(ns, typeOf[t], "", resource.VersionUndefined))
				}

				return crt.CleanupOutputs(ctx, kinds...)
			case "create":
				return crt.Create(ctx, vh.NewRes(k, vh.Obj{Spec: 5, Phase: "running"}))
			case "modify":
				return crt.Modify(ctx, vh.NewRes(k, vh.Obj{Spec: 1, Phase: "running"}), bump)
			case "teardown":
				_, terr := crt.Teardown(ctx, k.Pointer())

				return terr
			case "destroy":
				return crt.Destroy(ctx, k.Pointer())
			}

			return nil
		}

		err = r.RegisterController(&rt.Probe{
			NameV: self,
			OutputsV: []controller.Output{
				{Type: vh.IntType, Kind: controller.OutputExclusive},
				{Type: vh.StrType, Kind: controller.OutputShared},
			},
			RunF: func(ctx context.Context, crt controller.Runtime) error {
				for {
					select {
					case <-ctx.Done():
						return nil
					case c := <-cmds:
						if c.C == "restart" {
							results <- oResult{cls: "ok"}

							return errors.New("restart requested")
						}

						opErr := exec(ctx, crt, c)

						res := oResult{cls: vh.Class(opErr)}
						if opErr != nil {
							res.err = opErr.Error()
						}

						results <- res
					}
				}
			},
		})
		if err != nil {
			t.Fatal(err)
		}

		// the twin: a second controller of the same runtime with a tracking cycle of its own (its output tB/t is of the shared kind)
		tcmds := make(chan string)
		tresults := make(chan oResult, 1)
		twinKey := vh.Key{NS: ns, Typ: vh.StrType, ID: "t"}

		err = r.RegisterController(&rt.Probe{
			NameV:    "twin",
			OutputsV: []controller.Output{{Type: vh.StrType, Kind: controller.OutputShared}},
			RunF: func(ctx context.Context, crt controller.Runtime) error {
				for {
					select {
					case <-ctx.Done():
						return nil
					case c := <-tcmds:
						var opErr error

						switch c {
						case "tstart":
							crt.StartTrackingOutputs()
						case "tmodify":
							opErr = crt.Modify(ctx, vh.NewRes(twinKey, vh.Obj{Spec: 1, Phase: "running"}), bump)
						case "tcleanup":
							opErr = crt.CleanupOutputs(ctx, resource.NewMetadata(ns, vh.StrType, "", resource.VersionUndefined))
						}

						res := oResult{cls: vh.Class(opErr)}
						if opErr != nil {
							res.err = opErr.Error()
						}

						tresults <- res
					}
				}
			},
		})
		if err != nil {
			t.Fatal(err)
		}

		runDone := make(chan error, 1)

		go func() { runDone <- r.Run(ctx) }()

		synctest.Wait()

		twinExists := func() bool {
			_, gerr := st.Get(ctx, twinKey.Pointer())

			return gerr == nil
		}

		snapshot := func() map[string]Val {
			out := map[string]Val{}

			for _, ks := range oKeys {
				var cur resource.Resource

				if got, gerr := st.Get(ctx, oKey(ks).Pointer()); gerr == nil {
					cur = got
				}

				v := valueOf(cur)
				sort.Strings(v.Fins)
				out[ks] = v
			}

			return out
		}

		tr.Emit(OLine{Ev: "reset", Tid: tid, Ks: []string{}, Res: snapshot(), Tw: twinExists()})

		for _, c := range beh {
			if c.Ks == nil {
				c.Ks = []string{}
			}

			line := OLine{Ev: "cmd", Tid: tid, C: c.C, K: c.K, Ks: c.Ks}

			if strings.HasPrefix(c.C, "t") && c.C != "teardown" {
				tcmds <- c.C

				res := <-tresults
				line.Cls, line.Err = res.cls, res.err
			} else if strings.HasPrefix(c.C, "x") {
				k := oKey(c.K)

				var xerr error

				switch c.C {
				case "xcreate":
					xerr = st.Create(ctx, vh.NewRes(k, vh.Obj{Spec: 9, Phase: "running", Owner: other}), state.WithCreateOwner(other))
				case "xaddfin":
					xerr = st.AddFinalizer(ctx, k.Pointer(), "x")
				case "xremfin":
					xerr = st.RemoveFinalizer(ctx, k.Pointer(), "x")
				case "xdestroy":
					if cur, gerr := st.Get(ctx, k.Pointer()); gerr == nil {
						xerr = st.Destroy(ctx, k.Pointer(), state.WithDestroyOwner(cur.Metadata().Owner()))
					} else {
						xerr = gerr
					}
				}

				line.Cls = vh.Class(xerr)
			} else {
				cmds <- c

				res := <-results
				line.Cls, line.Err = res.cls, res.err

				if c.C == "restart" || res.cls == "panic" {
					// let the restart back-off of the runtime pass (virtual time)
					synctest.Wait()
					time.Sleep(30 * time.Minute)
				}
			}

			synctest.Wait()

			line.Res = snapshot()
			line.Tw = twinExists()
			tr.Emit(line)
		}

		cancel()
		<-runDone
		synctest.Wait()
	})
}

func TestOutTrack(t *testing.T) {
	var behs [][]OCmd

	if err := vh.ReadJSON(vh.Env("VERIF_IN"), &behs); err != nil {
		t.Fatal(err)
	}

	tr, err := vh.NewTrace(vh.Env("VERIF_OUT"))
	if err != nil {
		t.Fatal(err)
	}

	defer tr.Close() //nolint:errcheck

	for i, b := range behs {
		// every other behaviour on one processor: pooled objects (the trackers) are then handed from one controller to the next
		prev := runtime.GOMAXPROCS(0)
		if i%2 == 1 {
			runtime.GOMAXPROCS(1)
		}

		runOutTrack(t, tr, fmt.Sprintf("o#%d", i), b)

		runtime.GOMAXPROCS(prev)
	}
}
