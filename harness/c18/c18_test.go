// Package c18 concretises the TLC-enumerated metadata shapes, sends them through every codec the
// system uses (protobuf wire form, metadata YAML, the store marshaler with compression and
// encryption in every stacking, on both sides of the compression threshold, text forms), and decodes
// every truncation and single-byte substitution of valid encodings plus wrong keys. TraceCodec judges.
package c18

import (
	"crypto/sha256"
	"fmt"
	"strings"
	"testing"
	"time"

	"go.yaml.in/yaml/v4"

	"github.com/cosi-project/runtime/api/v1alpha1"
	"github.com/cosi-project/runtime/pkg/resource"
	"github.com/cosi-project/runtime/pkg/resource/protobuf"
	"github.com/cosi-project/runtime/pkg/state/impl/store"
	"github.com/cosi-project/runtime/pkg/state/impl/store/compression"
	"github.com/cosi-project/runtime/pkg/state/impl/store/encryption"

	"verifharness/vh"
)

type Shape struct {
	ID      string `json:"id"`
	Ver     int    `json:"ver"`
	Phase   string `json:"phase"`
	Nfins   int    `json:"nfins"`
	Nlabels int    `json:"nlabels"`
	Nann    int    `json:"nann"`
	Ts      string `json:"ts"`
	Owner   string `json:"owner"`
	Size    string `json:"size"`
	Txt     string `json:"txt"`
	Tv      int    `json:"tv"`
}

// special texts: scalars that a text format (YAML) gives a meaning of its own to
var specialTexts = map[string][]string{
	"null":   {"~", "null", "Null", "NULL"},
	"bool":   {"true", "no", "on", "Y"},
	"num":    {"1", "0x1f", "1e3", ".5"},
	"struct": {"- a", "a: b", "[x]", "#c"},
	"blank":  {" lead", "trail ", "a\nb", ""},
}

type Input struct {
	Shapes    []Shape  `json:"shapes"`
	Stackings []string `json:"stackings"`
}

type Line struct {
	Ev      string `json:"ev"`
	Codec   string `json:"codec"`
	Shape   Shape  `json:"shape"`
	Tamper  string `json:"tamper"`
	Pos     int    `json:"pos"`
	Outcome string `json:"outcome"`
	Note    string `json:"note"`
}

func concretise(s Shape) resource.Resource {
	id := map[string]string{"a": "a", "with/slash": "with/slash:and.dots", "unicode": "rés-ü-名"}[s.ID]
	o := vh.Obj{Ver: s.Ver, Owner: s.Owner, Phase: s.Phase, Spec: 7}

	for i := range s.Nfins {
		o.Fins = append(o.Fins, fmt.Sprintf("fin-%d", i))
	}

	for i := range s.Nlabels {
		o.Labels = append(o.Labels, [2]string{fmt.Sprintf("l%d", i), fmt.Sprintf("v %d", i)})
	}

	r := vh.NewRes(vh.Key{NS: "n1", Typ: vh.IntType, ID: id}, o)

	for i := range s.Nann {
		r.Metadata().Annotations().Set(fmt.Sprintf("ann%d", i), "x")
	}

	if txts, ok := specialTexts[s.Txt]; ok {
		// the special text everywhere a metadata string can be: id, owner, a finalizer, a label value, an annotation value
		txt := txts[s.Tv%len(txts)]

		o2 := o
		o2.Owner = txt
		o2.Fins = append([]string{txt}, o.Fins...)
		o2.Labels = append([][2]string{{"special", txt}}, o.Labels...)

		idt := txt
		if idt == "" {
			idt = "empty-text"
		}

		r = vh.NewRes(vh.Key{NS: "n1", Typ: vh.IntType, ID: idt}, o2)
		r.Metadata().Annotations().Set("special", txt)
	}

	if s.Size == "large" {
		r.Metadata().Annotations().Set("pad", strings.Repeat("0123456789", 30))
	}

	switch s.Ts {
	case "zero": // timestamps never set (metadata parsed from a manifest without them, zero Metadata)
		r.Metadata().SetCreated(time.Time{})
		r.Metadata().SetUpdated(time.Time{})
	case "sec":
		r.Metadata().SetCreated(time.Unix(1700000000, 0).UTC())
		r.Metadata().SetUpdated(time.Unix(1700000300, 0).UTC())
	case "nano":
		r.Metadata().SetCreated(time.Unix(1700000000, 123456789).UTC())
		r.Metadata().SetUpdated(time.Unix(1700000300, 987654321).UTC())
	}

	return r
}

// generic turns r into a resource of an unregistered type in the generic protobuf form, with a YAML spec and (both) protobuf bytes.
func generic(r resource.Resource, both bool) resource.Resource {
	md, err := protobuf.FromResource(r, protobuf.WithoutYAML())
	if err != nil {
		panic(err)
	}

	pm, err := md.Marshal()
	if err != nil {
		panic(err)
	}

	pm.Metadata.Type = "Unregistereds.verif.cosi.dev"
	pm.Spec = &v1alpha1.Spec{YamlSpec: "foo: bar\n"}

	if both {
		pm.Spec.ProtoSpec = []byte{0x0a, 0x03, 'b', 'a', 'r'}
	}

	out, err := protobuf.Unmarshal(pm)
	if err != nil {
		panic(err)
	}

	return out
}

func specYAML(r resource.Resource) string {
	out, err := yaml.Marshal(r.Spec())
	if err != nil {
		return "!" + err.Error()
	}

	return string(out)
}

func same(a, b resource.Resource) bool {
	if _, ok := a.(*protobuf.Resource); ok {
		// generic resources: equal, and the spec still renders as the same YAML
		return resource.Equal(a, b) && a.Metadata().Created().Equal(b.Metadata().Created()) && a.Metadata().Updated().Equal(b.Metadata().Updated()) &&
			specYAML(a) == specYAML(b)
	}

	return resource.Equal(a, b) && a.Metadata().Created().Equal(b.Metadata().Created()) && a.Metadata().Updated().Equal(b.Metadata().Updated()) &&
		vh.SpecOf(a) == vh.SpecOf(b)
}

var (
	key1 = []byte("this key len is exactly 32 bytes")
	key2 = []byte("another key, also 32 bytes long!")
)

func cipher(key []byte) *encryption.Cipher {
	return encryption.NewCipher(encryption.KeyProviderFunc(func() ([]byte, error) { return key, nil }))
}

// marshaler builds the named stacking with the compression threshold at (compress) or just above
// (do not compress) the size of the inner encoding of r.
func marshaler(name string, r resource.Resource, key []byte) store.Marshaler {
	pb := store.ProtobufMarshaler{}
	thr := func(inner store.Marshaler, compress bool) int {
		b, err := inner.MarshalResource(r)
		if err != nil {
			return 1
		}

		if compress {
			return len(b)
		}

		return len(b) + 1
	}

	switch name {
	case "zstd":
		return compression.NewMarshaler(pb, compression.ZStd(), thr(pb, true))
	case "zstd-big":
		return compression.NewMarshaler(pb, compression.ZStd(), thr(pb, false))
	case "enc":
		return encryption.NewMarshaler(pb, cipher(key))
	case "enc-zstd":
		return encryption.NewMarshaler(compression.NewMarshaler(pb, compression.ZStd(), thr(pb, true)), cipher(key))
	case "zstd-enc":
		inner := encryption.NewMarshaler(pb, cipher(key))

		return compression.NewMarshaler(inner, compression.ZStd(), thr(inner, true))
	}

	return pb
}

// batchMarshaler is one long-lived marshaler per stacking (compression whenever possible), as a backing store uses it.
func batchMarshaler(name string, key []byte) store.Marshaler {
	pb := store.ProtobufMarshaler{}

	switch name {
	case "zstd", "zstd-big":
		return compression.NewMarshaler(pb, compression.ZStd(), 1)
	case "enc":
		return encryption.NewMarshaler(pb, cipher(key))
	case "enc-zstd":
		return encryption.NewMarshaler(compression.NewMarshaler(pb, compression.ZStd(), 1), cipher(key))
	case "zstd-enc":
		return compression.NewMarshaler(encryption.NewMarshaler(pb, cipher(key)), compression.ZStd(), 1)
	}

	return pb
}

func decode(m store.Marshaler, b []byte, orig resource.Resource) (outcome, note string) {
	defer func() {
		if p := recover(); p != nil {
			outcome, note = "panic", fmt.Sprint(p)
		}
	}()

	r, err := m.UnmarshalResource(b)
	if err != nil {
		return "error", ""
	}

	// a decoded resource must be well formed: it can be rendered and encoded again
	_ = r.Metadata().String()
	if _, merr := (store.ProtobufMarshaler{}).MarshalResource(r); merr != nil {
		return "error", "re-encode: " + merr.Error()
	}

	if same(r, orig) {
		return "same", ""
	}

	return "different", ""
}

func TestCodecs(t *testing.T) {
	var in Input

	if err := vh.ReadJSON(vh.Env("VERIF_IN"), &in); err != nil {
		t.Fatal(err)
	}

	tr, err := vh.NewTrace(vh.Env("VERIF_OUT"))
	if err != nil {
		t.Fatal(err)
	}

	defer tr.Close() //nolint:errcheck

	tamperShapes := vh.EnvInt("VERIF_TAMPER_SHAPES", 6)
	distinct := map[[32]byte]struct{}{}
	evals := 0

	for si, s := range in.Shapes {
		r := concretise(s)

		isGeneric := strings.HasPrefix(s.Txt, "generic-")
		if isGeneric {
			r = generic(r, s.Txt == "generic-both")
		}

		// --- round trips ---
		for _, name := range in.Stackings {
			func() {
				l := Line{Ev: "roundtrip", Codec: name, Shape: s, Outcome: "same"}

				defer func() {
					if p := recover(); p != nil {
						l.Outcome, l.Note = "panic", fmt.Sprint(p)
					}

					tr.Emit(l)
				}()

				m := marshaler(name, r, key1)

				b, merr := m.MarshalResource(r)
				if merr != nil {
					l.Outcome, l.Note = "error", merr.Error()

					return
				}

				l.Outcome, l.Note = decode(m, b, r)
				evals++
			}()
		}

		if isGeneric {
			// the other codecs (wire form of typed resources, metadata YAML, text forms) are exercised by the typed shapes
			continue
		}

		// protobuf wire form (with the YAML spec representation)
		func() {
			l := Line{Ev: "roundtrip", Codec: "pbwire", Shape: s, Outcome: "same"}

			defer func() {
				if p := recover(); p != nil {
					l.Outcome, l.Note = "panic", fmt.Sprint(p)
				}

				tr.Emit(l)
			}()

			pr, perr := protobuf.FromResource(r)
			if perr != nil {
				l.Outcome, l.Note = "error", perr.Error()

				return
			}

			msg, perr := pr.Marshal()
			if perr != nil {
				l.Outcome, l.Note = "error", perr.Error()

				return
			}

			wire, perr := protobuf.ProtoMarshal(msg)
			if perr != nil {
				l.Outcome, l.Note = "error", perr.Error()

				return
			}

			var back v1alpha1.Resource

			if perr = protobuf.ProtoUnmarshal(wire, &back); perr != nil {
				l.Outcome, l.Note = "error", perr.Error()

				return
			}

			pr2, perr := protobuf.Unmarshal(&back)
			if perr != nil {
				l.Outcome, l.Note = "error", perr.Error()

				return
			}

			r2, perr := protobuf.UnmarshalResource(pr2)
			if perr != nil {
				l.Outcome, l.Note = "error", perr.Error()

				return
			}

			if !same(r, r2) {
				l.Outcome = "different"
			}

			evals++
		}()

		// metadata YAML
		func() {
			l := Line{Ev: "roundtrip", Codec: "yaml-md", Shape: s, Outcome: "same"}

			defer func() {
				if p := recover(); p != nil {
					l.Outcome, l.Note = "panic", fmt.Sprint(p)
				}

				tr.Emit(l)
			}()

			out, yerr := yaml.Marshal(r.Metadata())
			if yerr != nil {
				l.Outcome, l.Note = "error", yerr.Error()

				return
			}

			var md resource.Metadata

			if yerr = yaml.Unmarshal(out, &md); yerr != nil {
				l.Outcome, l.Note = "error", yerr.Error()

				return
			}

			switch {
			case !md.Equal(*r.Metadata()):
				l.Outcome, l.Note = "different", string(out)
			case md.Created().Equal(r.Metadata().Created()) && md.Updated().Equal(r.Metadata().Updated()):
			case md.Created().Equal(r.Metadata().Created().Truncate(time.Second)) && md.Updated().Equal(r.Metadata().Updated().Truncate(time.Second)):
				l.Outcome, l.Note = "different", "subsecond-timestamps-truncated"
			default:
				l.Outcome, l.Note = "different", "timestamps: "+string(out)
			}

			evals++
		}()

		// text forms
		func() {
			l := Line{Ev: "text", Codec: "version-phase", Shape: s, Outcome: "same"}

			defer func() {
				if p := recover(); p != nil {
					l.Outcome, l.Note = "panic", fmt.Sprint(p)
				}

				tr.Emit(l)
			}()

			v, verr := resource.ParseVersion(r.Metadata().Version().String())
			if verr != nil || !v.Equal(r.Metadata().Version()) {
				l.Outcome, l.Note = "different", fmt.Sprintf("version %q: %v", r.Metadata().Version().String(), verr)
			}

			p, perr := resource.ParsePhase(r.Metadata().Phase().String())
			if perr != nil || p != r.Metadata().Phase() {
				l.Outcome, l.Note = "different", fmt.Sprintf("phase %q: %v", r.Metadata().Phase().String(), perr)
			}

			evals++
		}()

		// --- tampering: bounded exhaustive neighbourhoods of the valid encodings ---
		if si >= tamperShapes {
			continue
		}

		for _, name := range in.Stackings {
			m := marshaler(name, r, key1)

			b, merr := m.MarshalResource(r)
			if merr != nil {
				continue
			}

			emit := func(tamper string, pos int, data []byte, dm store.Marshaler) {
				outcome, note := decode(dm, data, r)
				evals++
				distinct[sha256.Sum256(append([]byte(name+tamper), data...))] = struct{}{}

				// only outcomes that matter are logged individually; the rest is counted
				if outcome == "panic" || outcome == "different" || (tamper == "wrongkey") || pos%37 == 0 {
					tr.Emit(Line{Ev: "tamper", Codec: name, Shape: s, Tamper: tamper, Pos: pos, Outcome: outcome, Note: note})
				}
			}

			for n := range len(b) {
				emit("truncate", n, b[:n], m)
			}

			for pos := range len(b) {
				for _, nb := range []byte{b[pos] ^ 0x01, 0x00, 0xff, b[pos] ^ 0x80} {
					if nb == b[pos] {
						continue
					}

					c := append([]byte{}, b...)
					c[pos] = nb
					emit("subst", pos, c, m)
				}
			}

			emit("wrongkey", 0, b, marshaler(name, r, key2))
		}

		// decoders without a stacking: every prefix / substitution must not panic
		if out, yerr := yaml.Marshal(r.Metadata()); yerr == nil {
			for n := 0; n < len(out); n += 3 {
				func() {
					l := Line{Ev: "tamper", Codec: "yaml-md", Shape: s, Tamper: "truncate", Pos: n, Outcome: "error"}

					defer func() {
						if p := recover(); p != nil {
							l.Outcome, l.Note = "panic", fmt.Sprint(p)
							tr.Emit(l)
						}
					}()

					var md resource.Metadata

					c := append([]byte{}, out[:n]...)
					if n%2 == 0 && n > 0 {
						c[n-1] ^= 0x20
					}

					_ = yaml.Unmarshal(c, &md)
					evals++
					distinct[sha256.Sum256(append([]byte("yaml"), c...))] = struct{}{}
				}()
			}
		}
	}

	// --- records are independent values: every shape is encoded with ONE marshaler per stacking, the encodings are
	// kept (as a store keeps them) and decoded only after all later encodings were produced; also a copy taken right
	// after encoding must equal the kept bytes at the end
	for _, name := range in.Stackings {
		m := batchMarshaler(name, key1)
		recs := make([][]byte, len(in.Shapes))
		copies := make([][]byte, len(in.Shapes))
		origs := make([]resource.Resource, len(in.Shapes))

		for i, s := range in.Shapes {
			origs[i] = concretise(s)

			b, merr := m.MarshalResource(origs[i])
			if merr != nil {
				continue
			}

			recs[i] = b
			copies[i] = append([]byte(nil), b...)
		}

		for i, s := range in.Shapes {
			if recs[i] == nil {
				continue
			}

			l := Line{Ev: "roundtrip", Codec: name, Shape: s}
			l.Outcome, l.Note = decode(m, recs[i], origs[i])

			if l.Outcome == "same" && string(recs[i]) != string(copies[i]) {
				l.Outcome = "different"
			}

			if l.Outcome != "same" {
				l.Note = "kept-encoding-changed-by-later-encodings " + l.Note
			}

			evals++

			tr.Emit(l)
		}
	}

	tr.Emit(Line{Ev: "summary", Codec: "all", Outcome: "same", Pos: evals, Note: fmt.Sprint(len(distinct))})
}
