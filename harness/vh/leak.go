package vh

import (
	"runtime"
	"strings"
)

// GoroutinesIn returns how many goroutines (other than the caller) have a frame of the given package path prefix on their
// stack, with their stacks. Counting by stack content instead of runtime.NumGoroutine keeps process noise out of leak checks
// (the finalizer goroutine, goroutines of the testing framework, goroutines of an earlier test that are still on their way
// out are counted by NumGoroutine now and then).
func GoroutinesIn(prefix string) (int, string) {
	buf := make([]byte, 1<<20)
	buf = buf[:runtime.Stack(buf, true)]

	blocks := strings.Split(string(buf), "\n\n")

	var (
		n    int
		dump []string
	)

	for i, b := range blocks {
		if i == 0 { // the caller
			continue
		}

		if strings.Contains(b, prefix) {
			n++

			dump = append(dump, b)
		}
	}

	out := strings.Join(dump, "\n\n")
	if len(out) > 3000 {
		out = out[:3000]
	}

	return n, out
}
