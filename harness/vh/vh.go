// Package vh holds what every conformance driver shares: the abstract projection of resources
// and errors used by the TLA+ specifications, ndjson trace I/O and behaviour input.
//
// The Go side drives and records only; TLC judges every trace.
package vh

import (
	"bufio"
	"encoding/json"
	"fmt"
	"os"
	"sort"
	"strconv"
	"sync"
	"time"

	"github.com/cosi-project/runtime/pkg/controller/conformance"
	"github.com/cosi-project/runtime/pkg/resource"
	"github.com/cosi-project/runtime/pkg/resource/protobuf"
	"github.com/cosi-project/runtime/pkg/state"
)

const (
	IntType = conformance.IntResourceType
	StrType = conformance.StrResourceType
)

func init() {
	// needed for the protobuf marshaler (bbolt backing store) and the gRPC stack
	_ = protobuf.RegisterResource(conformance.IntResourceType, &conformance.IntResource{})
	_ = protobuf.RegisterResource(conformance.StrResourceType, &conformance.StrResource{})
}

// Key is the abstract resource key.
type Key struct {
	NS  string `json:"ns"`
	Typ string `json:"typ"`
	ID  string `json:"id"`
}

func (k Key) Pointer() resource.Pointer {
	return resource.NewMetadata(k.NS, k.Typ, k.ID, resource.VersionUndefined)
}

func KeyOf(md *resource.Metadata) Key {
	return Key{NS: md.Namespace(), Typ: md.Type(), ID: md.ID()}
}

// Obj is the abstract resource value [ver, owner, phase, fins, labels, spec, cr].
type Obj struct {
	Ver    int         `json:"ver"`
	Owner  string      `json:"owner"`
	Phase  string      `json:"phase"`
	Fins   []string    `json:"fins"`
	Labels [][2]string `json:"labels"`
	Spec   int         `json:"spec"`
	Cr     int         `json:"cr"`
}

// MarshalJSON never emits null for the slices (the TLA+ Json module rejects null).
func (o Obj) MarshalJSON() ([]byte, error) {
	type plain Obj

	p := plain(o)
	if p.Fins == nil {
		p.Fins = []string{}
	}

	if p.Labels == nil {
		p.Labels = [][2]string{}
	}

	if p.Phase == "" {
		p.Phase = "running"
	}

	return json.Marshal(p)
}

// KV is one element of a contents set.
type KV struct {
	K Key `json:"k"`
	V Obj `json:"v"`
}

// Req is one request of a TLC-generated behaviour (MC_Store!hist).
type Req struct {
	Op    string `json:"op"`
	K     Key    `json:"k"`
	Owner string `json:"owner"`
	Exp   string `json:"exp"`
	Obj   Obj    `json:"obj"`
}

func PhaseName(p resource.Phase) string {
	if p == resource.PhaseTearingDown {
		return "tearingDown"
	}

	return "running"
}

func PhaseOf(s string) resource.Phase {
	if s == "tearingDown" {
		return resource.PhaseTearingDown
	}

	return resource.PhaseRunning
}

// NewRes builds a concrete resource for key k carrying the abstract value o (version o.Ver,
// 0 = undefined; creation class is not settable).
func NewRes(k Key, o Obj) resource.Resource {
	var r resource.Resource

	switch k.Typ {
	case StrType:
		r = conformance.NewStrResource(k.NS, k.ID, strconv.Itoa(o.Spec))
	default:
		r = conformance.NewIntResource(k.NS, k.ID, o.Spec)
	}

	md := r.Metadata()

	if o.Ver > 0 {
		v, err := resource.ParseVersion(strconv.Itoa(o.Ver))
		if err != nil {
			panic(err)
		}

		md.SetVersion(v)
	}

	if o.Owner != "" {
		if err := md.SetOwner(o.Owner); err != nil {
			panic(err)
		}
	}

	md.SetPhase(PhaseOf(o.Phase))

	for _, f := range o.Fins {
		md.Finalizers().Add(f)
	}

	for _, l := range o.Labels {
		md.Labels().Set(l[0], l[1])
	}

	return r
}

// CrMap renames creation timestamps to small integers (injective, first seen first).
type CrMap struct {
	mu sync.Mutex
	m  map[int64]int
	// Raw: classes that agree across processes (microseconds modulo 2e9 instead of first-seen numbering)
	Raw bool
}

func (c *CrMap) Class(t time.Time) int {
	if c.Raw {
		if t.IsZero() {
			return 0
		}

		return int((t.UnixNano()/1000)%2_000_000_000) + 1
	}

	c.mu.Lock()
	defer c.mu.Unlock()

	if c.m == nil {
		c.m = map[int64]int{}
	}

	if t.IsZero() {
		return 0
	}

	n := t.UnixNano()
	if v, ok := c.m[n]; ok {
		return v
	}

	c.m[n] = len(c.m) + 1

	return c.m[n]
}

// SpecOf extracts the integer payload.
func SpecOf(r resource.Resource) int {
	switch v := r.(type) {
	case conformance.IntegerResource:
		return v.Value()
	case conformance.StringResource:
		n, err := strconv.Atoi(v.Value())
		if err != nil {
			return -1
		}

		return n
	}

	return -2
}

// VersionInt is the numeric version (0 = undefined).
func VersionInt(v resource.Version) int {
	if v.Equal(resource.VersionUndefined) {
		return 0
	}

	return int(v.Value())
}

// Project maps a concrete resource to its abstract value.
func Project(r resource.Resource, crs *CrMap) Obj {
	md := r.Metadata()
	o := Obj{
		Ver:    VersionInt(md.Version()),
		Owner:  md.Owner(),
		Phase:  PhaseName(md.Phase()),
		Fins:   []string{},
		Labels: [][2]string{},
		Spec:   SpecOf(r),
	}

	if crs != nil {
		o.Cr = crs.Class(md.Created())
	}

	for _, f := range *md.Finalizers() {
		o.Fins = append(o.Fins, f)
	}

	sort.Strings(o.Fins)

	for k, v := range md.Labels().Raw() {
		o.Labels = append(o.Labels, [2]string{k, v})
	}

	sort.Slice(o.Labels, func(i, j int) bool { return o.Labels[i][0] < o.Labels[j][0] })

	return o
}

// PredVector evaluates every error predicate of the API on err; a panic in a predicate is the
// value "p". nsOther / tyOther are qualifiers different from the resource's.
func PredVector(err error, k Key) map[string]string {
	b := func(f func() bool) (res string) {
		defer func() {
			if r := recover(); r != nil {
				res = "p"
			}
		}()

		if f() {
			return "t"
		}

		return "f"
	}

	return map[string]string{
		"nf":      b(func() bool { return state.IsNotFoundError(err) }),
		"cf":      b(func() bool { return state.IsConflictError(err) }),
		"oc":      b(func() bool { return state.IsOwnerConflictError(err) }),
		"pc":      b(func() bool { return state.IsPhaseConflictError(err) }),
		"cfNsOk":  b(func() bool { return state.IsConflictError(err, state.WithResourceNamespace(k.NS)) }),
		"cfTyOk":  b(func() bool { return state.IsConflictError(err, state.WithResourceType(k.Typ)) }),
		"cfNsBad": b(func() bool { return state.IsConflictError(err, state.WithResourceNamespace(k.NS+"-other")) }),
		"cfTyBad": b(func() bool { return state.IsConflictError(err, state.WithResourceType(k.Typ+"-other")) }),
	}
}

// Class is the coarse class derived from the unqualified predicates (pure projection; the full
// vector is logged next to it and judged by the specification).
func Class(err error) string {
	if err == nil {
		return "ok"
	}

	switch {
	case state.IsNotFoundError(err):
		return "notfound"
	case state.IsOwnerConflictError(err):
		return "ownerconflict"
	case state.IsPhaseConflictError(err):
		return "phaseconflict"
	case state.IsConflictError(err):
		return "conflict"
	}

	return "other"
}

// Trace is an ndjson trace writer (one JSON object per line, safe for concurrent use).
type Trace struct {
	mu sync.Mutex
	f  *os.File
	w  *bufio.Writer
	N  int
}

func NewTrace(path string) (*Trace, error) {
	f, err := os.Create(path)
	if err != nil {
		return nil, err
	}

	return &Trace{f: f, w: bufio.NewWriterSize(f, 1<<20)}, nil
}

func (t *Trace) Emit(v any) {
	b, err := json.Marshal(v)
	if err != nil {
		panic(err)
	}

	t.mu.Lock()
	defer t.mu.Unlock()

	t.w.Write(b)
	t.w.WriteByte('\n')
	t.N++
}

// NewTraceFile wraps an already opened file (append mode for restartable drivers).
func NewTraceFile(f *os.File) *Trace {
	return &Trace{f: f, w: bufio.NewWriterSize(f, 1<<16)}
}

// Flush forces the buffered lines to disk (drivers that may crash the process).
func (t *Trace) Flush() {
	t.mu.Lock()
	defer t.mu.Unlock()

	t.w.Flush() //nolint:errcheck
}

func (t *Trace) Close() error {
	t.mu.Lock()
	defer t.mu.Unlock()

	if err := t.w.Flush(); err != nil {
		return err
	}

	return t.f.Close()
}

// ReadJSON reads a JSON file into v.
func ReadJSON(path string, v any) error {
	b, err := os.ReadFile(path)
	if err != nil {
		return err
	}

	return json.Unmarshal(b, v)
}

// Env returns a required environment variable.
func Env(name string) string {
	v := os.Getenv(name)
	if v == "" {
		panic(fmt.Sprintf("environment variable %s not set", name))
	}

	return v
}

// EnvInt returns an integer environment variable with a default.
func EnvInt(name string, def int) int {
	v := os.Getenv(name)
	if v == "" {
		return def
	}

	n, err := strconv.Atoi(v)
	if err != nil {
		return def
	}

	return n
}
