package vh

import (
	"context"
	"errors"
	"net"
	"os"
	"path/filepath"
	"sync/atomic"
	"testing"

	"go.etcd.io/bbolt"
	"google.golang.org/grpc"
	"google.golang.org/grpc/credentials/insecure"

	"github.com/cosi-project/runtime/api/v1alpha1"
	"github.com/cosi-project/runtime/pkg/resource"
	"github.com/cosi-project/runtime/pkg/state"
	"github.com/cosi-project/runtime/pkg/state/impl/inmem"
	"github.com/cosi-project/runtime/pkg/state/impl/namespaced"
	"github.com/cosi-project/runtime/pkg/state/impl/store"
	"github.com/cosi-project/runtime/pkg/state/impl/store/bolt"
	"github.com/cosi-project/runtime/pkg/state/impl/store/compression"
	"github.com/cosi-project/runtime/pkg/state/impl/store/encryption"
	"github.com/cosi-project/runtime/pkg/state/protobuf/client"
	"github.com/cosi-project/runtime/pkg/state/protobuf/server"
)

// StackNames lists every CoreState implementation / wrapper stack the drivers know.
var StackNames = []string{"inmem", "inmem-small", "bolt", "bolt-enc", "bolt-zstd", "bolt-faulty", "filter", "remote"}

// Marshaler returns a named store marshaler stacking.
func Marshaler(name string) store.Marshaler {
	key := encryption.NewCipher(encryption.KeyProviderFunc(func() ([]byte, error) {
		return []byte("this key len is exactly 32 bytes"), nil
	}))

	switch name {
	case "enc":
		return encryption.NewMarshaler(store.ProtobufMarshaler{}, key)
	case "zstd":
		return compression.NewMarshaler(store.ProtobufMarshaler{}, compression.ZStd(), 16)
	case "zstd-big":
		return compression.NewMarshaler(store.ProtobufMarshaler{}, compression.ZStd(), 1<<20)
	case "enc-zstd": // encryption(compression(protobuf))
		return encryption.NewMarshaler(compression.NewMarshaler(store.ProtobufMarshaler{}, compression.ZStd(), 16), key)
	case "zstd-enc": // compression(encryption(protobuf))
		return compression.NewMarshaler(encryption.NewMarshaler(store.ProtobufMarshaler{}, key), compression.ZStd(), 16)
	}

	return store.ProtobufMarshaler{}
}

// NewStack builds a fresh, empty CoreState stack; everything is torn down by t.Cleanup.
func NewStack(t testing.TB, name string) state.CoreState {
	t.Helper()

	switch name {
	case "inmem":
		return namespaced.NewState(inmem.Build)
	case "inmem-small":
		return namespaced.NewState(func(ns resource.Namespace) state.CoreState {
			return inmem.NewStateWithOptions(inmem.WithHistoryInitialCapacity(2), inmem.WithHistoryMaxCapacity(4), inmem.WithHistoryGap(1))(ns)
		})
	case "bolt", "bolt-enc", "bolt-zstd", "bolt-faulty":
		m := "pb"
		if len(name) > 5 && name != "bolt-faulty" {
			m = name[5:]
		}

		dir := t.TempDir()

		bs, err := bolt.NewBackingStore(func() (*bbolt.DB, error) {
			return bbolt.Open(filepath.Join(dir, "test.db"), 0o600, &bbolt.Options{NoSync: true})
		}, Marshaler(m))
		if err != nil {
			t.Fatal(err)
		}

		t.Cleanup(func() { bs.Close() }) //nolint:errcheck

		if name == "bolt-faulty" {
			// every third write to the backing store is rejected (deterministic): the operation must fail and leave no trace
			n := &atomic.Int64{}

			return namespaced.NewState(func(ns resource.Namespace) state.CoreState {
				return inmem.NewStateWithOptions(inmem.WithBackingStore(&FaultyStore{BackingStore: bs.WithNamespace(ns), N: n, Every: 3}))(ns)
			})
		}

		return namespaced.NewState(func(ns resource.Namespace) state.CoreState {
			return inmem.NewStateWithOptions(inmem.WithBackingStore(bs.WithNamespace(ns)))(ns)
		})
	case "filter":
		return state.Filter(namespaced.NewState(inmem.Build), func(context.Context, state.Access) error { return nil })
	case "remote":
		_, cl := NewRemote(t, state.WrapCore(namespaced.NewState(inmem.Build)))

		return cl
	}

	t.Fatalf("unknown stack %q", name)

	return nil
}

// NewRemote serves backing over a real gRPC unix socket and returns the server and a client adapter.
func NewRemote(t testing.TB, backing state.State, opts ...client.AdapterOption) (*grpc.Server, *client.Adapter) {
	t.Helper()

	dir, err := os.MkdirTemp("", "vh")
	if err != nil {
		t.Fatal(err)
	}

	t.Cleanup(func() { os.RemoveAll(dir) }) //nolint:errcheck

	sock := filepath.Join(dir, "s.sock")

	l, err := (&net.ListenConfig{}).Listen(context.Background(), "unix", sock)
	if err != nil {
		t.Fatal(err)
	}

	srv := grpc.NewServer()
	v1alpha1.RegisterStateServer(srv, server.NewState(backing))

	done := make(chan struct{})

	go func() {
		defer close(done)

		srv.Serve(l) //nolint:errcheck
	}()

	t.Cleanup(func() {
		srv.Stop()
		<-done
	})

	conn, err := grpc.NewClient("unix://"+sock, grpc.WithTransportCredentials(insecure.NewCredentials()))
	if err != nil {
		t.Fatal(err)
	}

	t.Cleanup(func() { conn.Close() }) //nolint:errcheck

	return srv, client.NewAdapter(v1alpha1.NewStateClient(conn), opts...)
}

// ErrInjected is the error of a write the FaultyStore rejects.
var ErrInjected = errors.New("verif: injected backing store failure")

// FaultyStore rejects every Every-th Put / Destroy (counted over all namespaces sharing N).
type FaultyStore struct {
	inmem.BackingStore

	N     *atomic.Int64
	Every int64
}

func (f *FaultyStore) Put(ctx context.Context, typ resource.Type, r resource.Resource) error {
	if f.N.Add(1)%f.Every == 0 {
		return ErrInjected
	}

	return f.BackingStore.Put(ctx, typ, r)
}

func (f *FaultyStore) Destroy(ctx context.Context, typ resource.Type, ptr resource.Pointer) error {
	if f.N.Add(1)%f.Every == 0 {
		return ErrInjected
	}

	return f.BackingStore.Destroy(ctx, typ, ptr)
}
