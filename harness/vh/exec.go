package vh

import (
	"context"
	"sort"
	"sync"

	"github.com/cosi-project/runtime/pkg/resource"
	"github.com/cosi-project/runtime/pkg/state"
)

// Universe of kinds the drivers use (for full-contents dumps).
var (
	Namespaces = []string{"n1", "n2"}
	Types      = []string{IntType, StrType}
)

// OpRec is one executed store operation as logged for Trace_Store / Trace_StoreLin.
type OpRec struct {
	Ev       string            `json:"ev"`
	Tid      string            `json:"tid"`
	Req      Req               `json:"req"`
	Cls      string            `json:"cls"`
	Pv       map[string]string `json:"pv"`
	Out      []KV              `json:"out"`
	Contents []KV              `json:"contents"`
	Err      string            `json:"err"`
}

// LastUpdFact is set by Exec after a successful create/update: "eq" if the update time written back
// into the caller's object equals the stored resource's update time, "ne" otherwise ("n/a" else).
// Sequential drivers only.
var LastUpdFact = "n/a"

// lastUpdMu guards LastUpdFact: Exec is called from several client goroutines in the concurrent drivers.
var lastUpdMu sync.Mutex

func setUpdFact(s string) {
	lastUpdMu.Lock()
	LastUpdFact = s
	lastUpdMu.Unlock()
}

func updFact(ctx context.Context, st state.CoreState, r resource.Resource) string {
	cur, err := st.Get(ctx, r.Metadata())
	if err != nil {
		return "n/a"
	}

	if r.Metadata().Updated().Equal(cur.Metadata().Updated()) {
		return "eq"
	}

	return "ne"
}

// Exec executes one abstract request on st and returns the result projection.
// variant perturbs spec-invisible details of how the request is formed.
func Exec(ctx context.Context, st state.CoreState, rq Req, crs *CrMap, variant int) (cls string, pv map[string]string, out []KV, errText string) {
	var err error

	out = []KV{}
	setUpdFact("n/a")

	switch rq.Op {
	case "create":
		o := rq.Obj
		if variant%2 == 1 {
			o.Owner = "" // the owner option alone must stamp the owner
		}

		r := NewRes(rq.K, o)

		err = st.Create(ctx, r, state.WithCreateOwner(rq.Owner))
		if err == nil {
			out = append(out, KV{rq.K, Project(r, crs)})
			setUpdFact(updFact(ctx, st, r))
		}
	case "update":
		r := NewRes(rq.K, rq.Obj)

		opts := []state.UpdateOption{state.WithUpdateOwner(rq.Owner)}

		switch rq.Exp {
		case "any":
			opts = append(opts, state.WithExpectedPhaseAny())
		case "running":
			if variant%2 == 0 { // running is the default expectation
				opts = append(opts, state.WithExpectedPhase(resource.PhaseRunning))
			}
		default:
			opts = append(opts, state.WithExpectedPhase(PhaseOf(rq.Exp)))
		}

		err = st.Update(ctx, r, opts...)
		if err == nil {
			out = append(out, KV{rq.K, Project(r, crs)})
			setUpdFact(updFact(ctx, st, r))
		}
	case "destroy":
		err = st.Destroy(ctx, rq.K.Pointer(), state.WithDestroyOwner(rq.Owner))
	case "get":
		var r resource.Resource

		r, err = st.Get(ctx, rq.K.Pointer())
		if err == nil {
			out = append(out, KV{KeyOf(r.Metadata()), Project(r, crs)})
		}
	case "list":
		var l resource.List

		l, err = st.List(ctx, rq.K.Pointer())
		if err == nil {
			for _, r := range l.Items {
				out = append(out, KV{KeyOf(r.Metadata()), Project(r, crs)})
			}
		}
	default:
		panic("unknown op " + rq.Op)
	}

	if err != nil {
		errText = err.Error()
	}

	return Class(err), PredVector(err, rq.K), out, errText
}

// Dump lists every kind of the universe.
func Dump(ctx context.Context, st state.CoreState, crs *CrMap) []KV {
	return DumpNS(ctx, st, crs, Namespaces)
}

// DumpNS lists every kind of the given namespaces.
func DumpNS(ctx context.Context, st state.CoreState, crs *CrMap, namespaces []string) []KV {
	res := []KV{}

	for _, ns := range namespaces {
		for _, typ := range Types {
			l, err := st.List(ctx, resource.NewMetadata(ns, typ, "", resource.VersionUndefined))
			if err != nil {
				res = append(res, KV{Key{NS: ns, Typ: typ, ID: "!list-error:" + err.Error()}, Obj{Fins: []string{}, Labels: [][2]string{}}})

				continue
			}

			for _, r := range l.Items {
				res = append(res, KV{KeyOf(r.Metadata()), Project(r, crs)})
			}
		}
	}

	sort.Slice(res, func(i, j int) bool {
		a, b := res[i].K, res[j].K
		if a.NS != b.NS {
			return a.NS < b.NS
		}

		if a.Typ != b.Typ {
			return a.Typ < b.Typ
		}

		return a.ID < b.ID
	})

	return res
}
