// Package c09 drives the real reconcile queue (through the verif facade) in a synctest bubble with
// TLC-generated command sequences in virtual time. It records only; TraceQueue judges.
package c09

import (
	"context"
	"fmt"
	"testing"
	"testing/synctest"
	"time"

	"github.com/cosi-project/runtime/pkg/controller/runtime/verif"

	"verifharness/vh"
)

type Cmd struct {
	C string `json:"c"`
	K string `json:"k"`
	V int    `json:"v"`
	W int    `json:"w"`
	D int    `json:"d"`
}

type Line struct {
	Ev  string `json:"ev"`
	Tid string `json:"tid"`
	K   string `json:"k"`
	V   int    `json:"v"`
	W   int    `json:"w"`
	Got string `json:"got"`
	At  int    `json:"at"`
	Now int    `json:"now"`
	N   int    `json:"n"`
}

const unit = 100 * time.Millisecond

func runBehaviour(t *testing.T, tr *vh.Trace, tid string, beh []Cmd) {
	synctest.Test(t, func(t *testing.T) {
		ctx, cancel := context.WithCancel(context.Background())
		q := verif.NewQueue[string, int]()
		done := make(chan struct{})

		go func() {
			defer close(done)

			q.Run(ctx)
		}()

		start := time.Now()
		now := func() int { return int(time.Since(start) / time.Millisecond) }
		held := map[int]*verif.QueueItem[string, int]{}
		old := map[int]*verif.QueueItem[string, int]{} // handles that were already released / requeued
		emit := func(l Line) {
			l.Tid = tid
			l.Now = now()
			tr.Emit(l)
		}

		emit(Line{Ev: "reset"})

		length := func() {
			synctest.Wait()
			emit(Line{Ev: "len", N: int(q.Len())})
		}

		for _, c := range beh {
			switch c.C {
			case "put":
				q.Put(c.K, c.V)
				emit(Line{Ev: "put", K: c.K, V: c.V})
			case "get":
				if held[c.W] != nil {
					continue
				}

				synctest.Wait()

				select {
				case item := <-q.Get():
					k, v := item.Get()
					held[c.W] = item
					emit(Line{Ev: "get", W: c.W, Got: "item", K: k, V: v})
				default:
					emit(Line{Ev: "get", W: c.W, Got: "none"})
				}
			case "release":
				if held[c.W] == nil {
					continue
				}

				held[c.W].Release()
				old[c.W] = held[c.W]
				delete(held, c.W)
				emit(Line{Ev: "release", W: c.W, At: 0})
			case "stale":
				// Release / Requeue on a handle that was already released: no effect, no trace line
				if old[c.W] != nil {
					if c.D == 0 {
						old[c.W].Release()
					} else {
						old[c.W].Requeue(start.Add(time.Duration(now()+int(unit/time.Millisecond)) * time.Millisecond))
					}
				}
			case "requeue":
				if held[c.W] == nil {
					continue
				}

				// D = 0: "requeue now" (a non-zero instant that is not after the moment the loop handles the release)
				at := max(now()+c.D*int(unit/time.Millisecond), 1)
				held[c.W].Requeue(start.Add(time.Duration(at) * time.Millisecond))
				old[c.W] = held[c.W]
				delete(held, c.W)
				emit(Line{Ev: "release", W: c.W, At: at})
			case "sleep":
				time.Sleep(time.Duration(c.D) * unit)
			}

			length()
		}

		// drain: everything still pending must come out once it is due
		for w := range held {
			held[w].Release()
			delete(held, w)
			emit(Line{Ev: "release", W: w, At: 0})
		}

		time.Sleep(10 * unit)

		for range 20 {
			synctest.Wait()

			select {
			case item := <-q.Get():
				k, v := item.Get()
				emit(Line{Ev: "get", W: 99, Got: "item", K: k, V: v})
				item.Release()
				emit(Line{Ev: "release", W: 99, At: 0})

				continue
			default:
				emit(Line{Ev: "get", W: 99, Got: "none"})
			}

			break
		}

		length()

		cancel()
		<-done
	})
}

func TestQueue(t *testing.T) {
	var behs [][]Cmd

	if err := vh.ReadJSON(vh.Env("VERIF_IN"), &behs); err != nil {
		t.Fatal(err)
	}

	tr, err := vh.NewTrace(vh.Env("VERIF_OUT"))
	if err != nil {
		t.Fatal(err)
	}

	defer tr.Close() //nolint:errcheck

	for i, b := range behs {
		runBehaviour(t, tr, fmt.Sprintf("q#%d", i), b)
	}
}
