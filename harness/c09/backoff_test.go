package c09

import (
	"expvar"

	"context"
	"errors"
	"fmt"
	"github.com/cosi-project/runtime/pkg/controller/runtime/metrics"
	"sync"
	"testing"
	"testing/synctest"
	"time"

	"github.com/cosi-project/runtime/pkg/controller"
	"github.com/cosi-project/runtime/pkg/controller/generic/qtransform"
	"github.com/cosi-project/runtime/pkg/resource"
	"github.com/cosi-project/runtime/pkg/state"
	"github.com/cosi-project/runtime/pkg/state/impl/inmem"
	"github.com/cosi-project/runtime/pkg/state/impl/namespaced"
	"github.com/siderolabs/gen/xerrors"

	"verifharness/rt"
	"verifharness/vh"
)

type Outcome struct {
	O string `json:"o"`
	D int    `json:"d"`
	// B: how long (virtual ms) the reconcile runs before it returns the outcome
	B int `json:"b"`
}

type ScriptStep struct {
	Gap int `json:"gap"`
	Ta  int `json:"ta"`
	Tb  int `json:"tb"`
}

type BBeh struct {
	Outcomes []Outcome `json:"outcomes"`
	// OutcomesB: what item "b" returns (empty: "b" always succeeds)
	OutcomesB []Outcome    `json:"outcomesB"`
	Script    []ScriptStep `json:"script"`
}

type BLine struct {
	Ev  string `json:"ev"`
	Tid string `json:"tid"`
	ID  string `json:"id"`
	T   int    `json:"t"`
	O   string `json:"o"`
	D   int    `json:"d"`
	B   int    `json:"b"`
	// M: the runtime's own accounting of the controller over the behaviour (deltas of the exported metrics)
	M *Metrics `json:"m,omitempty"`
}

type Metrics struct {
	Processed int `json:"processed"`
	Crashes   int `json:"crashes"`
	Skips     int `json:"skips"`
	Requeues  int `json:"requeues"`
}

func metricsOf(name string) Metrics {
	get := func(m *expvar.Map) int {
		if v, ok := m.Get(name).(*expvar.Int); ok {
			return int(v.Value())
		}

		return 0
	}

	return Metrics{
		Processed: get(metrics.QControllerProcessed), Crashes: get(metrics.QControllerCrashes),
		Skips: get(metrics.QControllerSkips), Requeues: get(metrics.QControllerRequeues),
	}
}

// outcomeError turns an abstract outcome into what Reconcile returns (or panics).
func outcomeError(o Outcome) error {
	switch o.O {
	case "err":
		return errors.New("probe failure")
	case "panic":
		panic("probe panic")
	case "requeue":
		return controller.NewRequeueInterval(time.Duration(o.D) * time.Millisecond)
	case "requeueErr":
		return controller.NewRequeueError(errors.New("probe failure"), time.Duration(o.D)*time.Millisecond)
	case "skip":
		return xerrors.NewTaggedf[qtransform.SkipReconcileTag]("skip")
	}

	return nil
}

func runBackoff(t *testing.T, tr *vh.Trace, tid string, beh BBeh, concurrency uint) {
	synctest.Test(t, func(t *testing.T) {
		ctx, cancel := context.WithCancel(context.Background())
		st := state.WrapCore(namespaced.NewState(inmem.Build))
		start := time.Now()
		now := func() int { return int(time.Since(start) / time.Millisecond) }

		var mu sync.Mutex

		emit := func(l BLine) {
			l.Tid = tid
			tr.Emit(l)
		}

		emit(BLine{Ev: "reset"})

		m0 := metricsOf("probe")

		next, nextB := 0, 0

		probe := &rt.QProbe{
			NameV:       "probe",
			InputsV:     []controller.Input{rt.KindInput("n1", vh.IntType, controller.InputQPrimary)},
			Concurrency: concurrency,
			ReconcileF: func(_ context.Context, _ controller.QRuntime, ptr resource.Pointer) error {
				mu.Lock()

				o := Outcome{O: "ok"}

				if ptr.ID() == "a" && next < len(beh.Outcomes) {
					o = beh.Outcomes[next]
					next++
				}

				if ptr.ID() == "b" && nextB < len(beh.OutcomesB) {
					o = beh.OutcomesB[nextB]
					nextB++
				}

				emit(BLine{Ev: "rec", ID: ptr.ID(), T: now(), O: o.O, D: o.D, B: o.B})
				mu.Unlock()

				if o.B > 0 {
					time.Sleep(time.Duration(o.B) * time.Millisecond)
				}

				return outcomeError(o)
			},
		}

		r, err := rt.NewRuntime(st)
		if err != nil {
			t.Fatal(err)
		}

		if err = r.RegisterQController(probe); err != nil {
			t.Fatal(err)
		}

		runDone := make(chan error, 1)

		go func() { runDone <- r.Run(ctx) }()

		synctest.Wait()

		touch := func(id string) {
			k := vh.Key{NS: "n1", Typ: vh.IntType, ID: id}

			mu.Lock()
			emit(BLine{Ev: "touch", ID: id, T: now()})
			mu.Unlock()

			cur, gerr := st.Get(ctx, k.Pointer())
			if gerr != nil {
				if cerr := st.Create(ctx, vh.NewRes(k, vh.Obj{Spec: 1, Phase: "running"})); cerr != nil {
					t.Fatal(cerr)
				}
			} else {
				o := vh.Project(cur, nil)
				o.Spec++

				if uerr := st.Update(ctx, vh.NewRes(k, o)); uerr != nil {
					t.Fatal(uerr)
				}
			}

			synctest.Wait()
		}

		touch("a")

		for _, s := range beh.Script {
			time.Sleep(time.Duration(s.Gap) * time.Millisecond)
			synctest.Wait()

			if s.Ta == 1 {
				touch("a")
			}

			if s.Tb == 1 {
				touch("b")
			}
		}

		// let the outcome sequence play out (each retry comes after at most 90 s), then a long quiet period: every pending
		// retry must have fired
		touchedB := false

		for _, s := range beh.Script {
			touchedB = touchedB || s.Tb == 1
		}

		for range (len(beh.Outcomes)+len(beh.OutcomesB))/5 + 1 {
			mu.Lock()
			left := len(beh.Outcomes) - next

			if touchedB {
				left += len(beh.OutcomesB) - nextB
			}
			mu.Unlock()

			if left <= 0 {
				break
			}

			time.Sleep(10 * time.Minute)
			synctest.Wait()
		}

		time.Sleep(10 * time.Minute)
		synctest.Wait()

		m1 := metricsOf("probe")

		mu.Lock()
		emit(BLine{Ev: "end", T: now(), M: &Metrics{
			Processed: m1.Processed - m0.Processed, Crashes: m1.Crashes - m0.Crashes, Skips: m1.Skips - m0.Skips, Requeues: m1.Requeues - m0.Requeues,
		}})
		mu.Unlock()

		cancel()

		if rerr := <-runDone; rerr != nil {
			t.Logf("run returned %v", rerr)
		}

		synctest.Wait()
	})
}

func TestBackoff(t *testing.T) {
	var behs []BBeh

	if err := vh.ReadJSON(vh.Env("VERIF_IN"), &behs); err != nil {
		t.Fatal(err)
	}

	tr, err := vh.NewTrace(vh.Env("VERIF_OUT"))
	if err != nil {
		t.Fatal(err)
	}

	defer tr.Close() //nolint:errcheck

	for i, b := range behs {
		runBackoff(t, tr, fmt.Sprintf("b#%d", i), b, uint(1+i%3))
	}
}
