// Package c05 runs the real controller runtime with probe controllers inside a synctest bubble,
// driven by TLC-generated schedules: external writes, aggregated-watch batches held and flushed by
// an interposing CoreState, controller reconciles released one at a time (optionally failing),
// late registrations. Probes record what every reconcile read; at the end everything is released
// and a "quiet" point is recorded. TraceRuntime judges (C05, C15, C16).
package c05

import (
	"context"
	"errors"
	"fmt"
	"os"
	"slices"
	"sort"
	"sync"
	"sync/atomic"
	"testing"
	"testing/synctest"
	"time"

	"github.com/siderolabs/gen/optional"

	"github.com/cosi-project/runtime/pkg/controller"
	cosiruntime "github.com/cosi-project/runtime/pkg/controller/runtime"
	"github.com/cosi-project/runtime/pkg/controller/runtime/options"
	"github.com/cosi-project/runtime/pkg/resource"
	"github.com/cosi-project/runtime/pkg/state"
	"github.com/cosi-project/runtime/pkg/state/impl/inmem"
	"github.com/cosi-project/runtime/pkg/state/impl/namespaced"

	"verifharness/rt"
	"verifharness/vh"
)

type In struct {
	K  string `json:"k"`
	ID int    `json:"id"`
	Ik string `json:"ik"`
}

type CtrlCfg struct {
	Fl   string `json:"fl"`
	Late bool   `json:"late"`
	Ins  []In   `json:"ins"`
	Alt  []In   `json:"alt"` // inputs the controller switches to by UpdateInputs (empty: never)
}

type Cmd struct {
	C    string `json:"c"`
	K    string `json:"k"`
	ID   int    `json:"id"`
	How  string `json:"how"`
	Ctrl string `json:"ctrl"`
	Fail bool   `json:"fail"`
}

type Beh struct {
	Cfg      map[string]CtrlCfg `json:"cfg"`
	Cached   []string           `json:"cached"`
	Cmds     []Cmd              `json:"cmds"`
	CancelAt int                `json:"cancelAt"` // index of the command before which Run's context is cancelled (-1: never)
	ErrAt    int                `json:"errAt"`    // index of the command before which a watch error is injected (-1: never)
}

type Obs struct {
	K   string `json:"k"`
	ID  int    `json:"id"`
	Ver int    `json:"ver"`
	Td  bool   `json:"td"`
	Fe  bool   `json:"fe"`
}

type Line struct {
	Ev     string `json:"ev"`
	Tid    string `json:"tid"`
	C      string `json:"c"`
	Fl     string `json:"fl"`
	Ins    []In   `json:"ins"`
	K      string `json:"k"`
	ID     int    `json:"id"`
	Ver    int    `json:"ver"`
	Td     bool   `json:"td"`
	Fe     bool   `json:"fe"`
	Del    bool   `json:"del"`
	Inc    int    `json:"inc"`
	Reader int    `json:"reader"`
	Obs    []Obs  `json:"obs"`
	Cached []Obs  `json:"cached"`
	T      int    `json:"t"`
	Err    bool   `json:"err"`
	N      int    `json:"n"`
	What   string `json:"what"`
	Note   string `json:"note"`
}

const ns = "n1"

var (
	typeOf = map[string]string{"K1": vh.IntType, "K2": vh.StrType}
	kindOf = map[string]string{vh.IntType: "K1", vh.StrType: "K2"}
	inKind = map[string]controller.InputKind{
		"weak": controller.InputWeak, "strong": controller.InputStrong, "destroyReady": controller.InputDestroyReady,
		"qPrimary": controller.InputQPrimary, "qMapped": controller.InputQMapped, "qMappedDestroyReady": controller.InputQMappedDestroyReady,
	}
)

func rid(id int) string { return fmt.Sprintf("r%d", id) }

func idOf(s string) int {
	var n int

	fmt.Sscanf(s, "r%d", &n) //nolint:errcheck

	return n
}

func key(k string, id int) vh.Key { return vh.Key{NS: ns, Typ: typeOf[k], ID: rid(id)} }

func obsOf(k string, id int, r resource.Resource) Obs {
	if r == nil {
		return Obs{K: k, ID: id, Fe: true}
	}

	md := r.Metadata()

	return Obs{K: k, ID: id, Ver: vh.VersionInt(md.Version()), Td: md.Phase() == resource.PhaseTearingDown, Fe: md.Finalizers().Empty()}
}

// holder interposes one aggregated kind watch: batches are held until flushed.
type holder struct {
	kind string
	sig  chan struct{}
	inj  chan []state.Event
	// part: deliver only the first n held events (the rest stays held): events that were committed together do not have to
	// reach the runtime together
	part chan int
}

type interposer struct {
	state.CoreState

	mu      sync.Mutex
	holders []*holder
	free    atomic.Bool
	// mergeBoot: the very first batch of a watch (bootstrap contents + Bootstrapped, or the initial bookmark) is held like any
	// other batch, so that it reaches the runtime merged with the events that followed it
	mergeBoot bool
}

func (ip *interposer) WatchKindAggregated(ctx context.Context, kind resource.Kind, ch chan<- []state.Event, opts ...state.WatchKindOption) error {
	inner := make(chan []state.Event)

	if err := ip.CoreState.WatchKindAggregated(ctx, kind, inner, opts...); err != nil {
		return err
	}

	h := &holder{kind: kindOf[kind.Type()], sig: make(chan struct{}, 64), inj: make(chan []state.Event, 1), part: make(chan int, 64)}

	ip.mu.Lock()
	ip.holders = append(ip.holders, h)
	ip.mu.Unlock()

	go func() {
		var held []state.Event

		first := true

		send := func(evs []state.Event) bool {
			select {
			case ch <- evs:
				return true
			case <-ctx.Done():
				return false
			}
		}

		for {
			select {
			case <-ctx.Done():
				return
			case evs := <-inner:
				if (first && !ip.mergeBoot) || ip.free.Load() {
					// the bootstrap batch (and everything in free-running mode) is forwarded as is
					first = false

					if len(held) > 0 {
						evs = append(held, evs...)
						held = nil
					}

					if !send(evs) {
						return
					}

					continue
				}

				held = append(held, evs...)
			case evs := <-h.inj:
				if !send(evs) {
					return
				}
			case n := <-h.part:
				if len(held) > 0 {
					n = min(n, len(held))
					batch := append([]state.Event(nil), held[:n]...)
					held = held[n:]

					if !send(batch) {
						return
					}
				}
			case <-h.sig:
				if len(held) > 0 {
					batch := held
					held = nil

					if !send(batch) {
						return
					}
				}
			}
		}
	}()

	return nil
}

func (ip *interposer) flush(kind string) {
	ip.mu.Lock()
	defer ip.mu.Unlock()

	for _, h := range ip.holders {
		if kind == "" || h.kind == kind {
			select {
			case h.sig <- struct{}{}:
			default:
			}
		}
	}
}

// flushPart delivers only the first n held events of the kind.
func (ip *interposer) flushPart(kind string, n int) {
	ip.mu.Lock()
	defer ip.mu.Unlock()

	for _, h := range ip.holders {
		if kind == "" || h.kind == kind {
			select {
			case h.part <- n:
			default:
			}
		}
	}
}

// injectNoop makes the aggregated watch of one kind deliver a batch that carries nothing to notify about (a bookmark).
func (ip *interposer) injectNoop(kind string) bool {
	ip.mu.Lock()
	defer ip.mu.Unlock()

	for _, h := range ip.holders {
		if h.kind != kind {
			continue
		}

		select {
		case h.inj <- []state.Event{{Type: state.Noop, Resource: resource.NewTombstone(resource.NewMetadata(ns, typeOf[kind], "", resource.VersionUndefined))}}:
			return true
		default:
		}
	}

	return false
}

// dgate parks the runtime's delivery goroutine (verif hook: after it took a key and handed the dedup map back, before it
// triggers the dependents) until the schedule releases it.
type dgate struct {
	credits chan struct{}
	free    chan struct{}
}

func (d *dgate) wait(string, string, string) {
	select {
	case <-d.free:
		return
	default:
	}

	select {
	case <-d.credits:
	case <-d.free:
	}
}

// injectError makes one aggregated watch deliver an Errored event (an underlying watch failed).
func (ip *interposer) injectError() bool {
	ip.mu.Lock()
	defer ip.mu.Unlock()

	for _, h := range ip.holders {
		select {
		case h.inj <- []state.Event{{Type: state.Errored, Error: errors.New("injected watch failure")}}:
			return true
		default:
		}
	}

	return false
}

// gate releases reconciles of one controller one at a time.
type gate struct {
	tokens   chan struct{}
	free     chan struct{}
	failNext atomic.Int32
	update   atomic.Bool // the next reconcile calls UpdateInputs first
	updated  atomic.Bool
}

func newGate() *gate { return &gate{tokens: make(chan struct{}, 1024), free: make(chan struct{})} }

func (g *gate) wait(ctx context.Context) bool {
	select {
	case <-g.free:
		return true
	default:
	}

	select {
	case <-g.tokens:
		return true
	case <-g.free:
		return true
	case <-ctx.Done():
		return false
	}
}

type run struct {
	t     *testing.T
	tr    *vh.Trace
	tid   string
	mu    sync.Mutex
	n     int
	start time.Time
	ids   []int
	beh   Beh
	gates map[string]*gate
	crs   *vh.CrMap
}

func (r *run) emit(l Line) {
	r.mu.Lock()
	defer r.mu.Unlock()

	l.Tid = r.tid
	l.T = int(time.Since(r.start) / time.Millisecond)

	if l.Ins == nil {
		l.Ins = []In{}
	}

	if l.Obs == nil {
		l.Obs = []Obs{}
	}

	if l.Cached == nil {
		l.Cached = []Obs{}
	}

	r.tr.Emit(l)

	if l.Ev != "cread" {
		r.n++
	}
}

func (r *run) lines() int {
	r.mu.Lock()
	defer r.mu.Unlock()

	return r.n
}

func inputsOf(c CtrlCfg) []controller.Input {
	res := []controller.Input{}

	for _, i := range c.Ins {
		in := controller.Input{Namespace: ns, Type: typeOf[i.K], Kind: inKind[i.Ik]}
		if i.ID != 0 {
			in.ID = optional.Some(rid(i.ID))
		}

		res = append(res, in)
	}

	return res
}

type reader interface {
	Get(context.Context, resource.Pointer, ...state.GetOption) (resource.Resource, error)
	List(context.Context, resource.Kind, ...state.ListOption) (resource.List, error)
}

// readInputs reads every universe key matched by the controller's inputs through its runtime handle.
func (r *run) readInputs(ctx context.Context, h reader, c CtrlCfg) ([]Obs, error) {
	seen := map[string]Obs{}

	for _, in := range c.Ins {
		if in.ID == 0 {
			l, err := h.List(ctx, resource.NewMetadata(ns, typeOf[in.K], "", resource.VersionUndefined))
			if err != nil {
				return nil, err
			}

			for _, id := range r.ids {
				seen[fmt.Sprintf("%s/%d", in.K, id)] = obsOf(in.K, id, nil)
			}

			for _, it := range l.Items {
				id := idOf(it.Metadata().ID())
				seen[fmt.Sprintf("%s/%d", in.K, id)] = obsOf(in.K, id, it)
			}

			continue
		}

		res, err := h.Get(ctx, key(in.K, in.ID).Pointer())

		switch {
		case err == nil:
			seen[fmt.Sprintf("%s/%d", in.K, in.ID)] = obsOf(in.K, in.ID, res)
		case state.IsNotFoundError(err):
			seen[fmt.Sprintf("%s/%d", in.K, in.ID)] = obsOf(in.K, in.ID, nil)
		default:
			return nil, err
		}
	}

	keys := make([]string, 0, len(seen))
	for k := range seen {
		keys = append(keys, k)
	}

	sort.Strings(keys)

	out := make([]Obs, 0, len(keys))
	for _, k := range keys {
		out = append(out, seen[k])
	}

	return out, nil
}

var errProbe = errors.New("probe failure")

var probeFailures atomic.Int64

// probeError: the failures of the probes alternate between a plain error, an error that wraps context.DeadlineExceeded (a
// sub-operation of the controller timed out while the runtime is alive) and an error that wraps context.Canceled (the controller
// cancelled a sub-operation of its own): a failure is a failure whatever it wraps, as long as the runtime has not been cancelled.
func probeError() error {
	switch probeFailures.Add(1) % 3 {
	case 1:
		return fmt.Errorf("probe sub-operation: %w", context.DeadlineExceeded)
	case 2:
		return fmt.Errorf("probe sub-operation: %w", context.Canceled)
	}

	return errProbe
}

func (r *run) register(rtm interface {
	RegisterController(controller.Controller) error
	RegisterQController(controller.QController) error
}, name string,
) {
	c := r.beh.Cfg[name]
	g := r.gates[name]

	var err error

	if c.Fl == "r" {
		err = rtm.RegisterController(&rt.Probe{
			NameV: name, InputsV: inputsOf(c),
			ReconcileF: func(ctx context.Context, h controller.Runtime) error {
				if !g.wait(ctx) {
					return nil
				}

				if g.failNext.Load() > 0 {
					g.failNext.Add(-1)

					return probeError()
				}

				if g.update.Load() && !g.updated.Load() && len(c.Alt) > 0 {
					alt := c
					alt.Ins = c.Alt

					if uerr := h.UpdateInputs(inputsOf(alt)); uerr != nil {
						r.emit(Line{Ev: "violation", What: "valid-update-inputs-rejected", Note: uerr.Error()})
					} else {
						g.updated.Store(true)
						r.emit(Line{Ev: "cfg", C: name, Fl: c.Fl, Ins: c.Alt})
					}
				}

				cur := c
				if g.updated.Load() {
					cur.Ins = c.Alt
				}

				obs, rerr := r.readInputs(ctx, h, cur)
				if rerr != nil {
					if ctx.Err() != nil {
						return nil
					}

					return rerr
				}

				r.emit(Line{Ev: "rrec", C: name, Obs: obs})

				return nil
			},
		})
	} else {
		hasPrimaryK1 := false

		for _, in := range c.Ins {
			if in.Ik == "qPrimary" && in.K == "K1" {
				hasPrimaryK1 = true
			}
		}

		err = rtm.RegisterQController(&rt.QProbe{
			NameV: name, InputsV: inputsOf(c), Concurrency: 2,
			ReconcileF: func(ctx context.Context, h controller.QRuntime, ptr resource.Pointer) error {
				if !g.wait(ctx) {
					return nil
				}

				if g.failNext.Load() > 0 {
					g.failNext.Add(-1)

					return probeError()
				}

				k, id := kindOf[ptr.Type()], idOf(ptr.ID())

				res, gerr := h.Get(ctx, ptr)

				switch {
				case gerr == nil:
				case state.IsNotFoundError(gerr):
					res = nil
				default:
					if ctx.Err() != nil {
						return nil
					}

					return gerr
				}

				o := obsOf(k, id, res)
				r.emit(Line{Ev: "qrec", C: name, K: k, ID: id, Ver: o.Ver, Td: o.Td, Fe: o.Fe})

				return nil
			},
			MapF: func(_ context.Context, _ controller.QRuntime, md controller.ReducedResourceMetadata) ([]resource.Pointer, error) {
				r.emit(Line{Ev: "qmap", C: name, K: kindOf[md.Type()], ID: idOf(md.ID())})

				if !hasPrimaryK1 {
					return nil, nil
				}

				return []resource.Pointer{key("K1", idOf(md.ID())).Pointer()}, nil
			},
		})
	}

	if err != nil {
		r.emit(Line{Ev: "violation", What: "valid-registration-rejected", Note: err.Error()})

		return
	}

	r.emit(Line{Ev: "cfg", C: name, Fl: c.Fl, Ins: c.Ins})
}

func (r *run) write(ctx context.Context, st state.State, c Cmd) {
	k := key(c.K, c.ID)

	var (
		err error
		res resource.Resource
		del bool
	)

	switch c.How {
	case "create":
		time.Sleep(time.Millisecond) // distinct creation times for distinct incarnations
		res = vh.NewRes(k, vh.Obj{Spec: 1, Phase: "running"})
		err = st.Create(ctx, res)
	case "flip":
		var cur resource.Resource

		if cur, err = st.Get(ctx, k.Pointer()); err == nil {
			if cur.Metadata().Finalizers().Empty() {
				err = st.AddFinalizer(ctx, k.Pointer(), "x")
			} else {
				err = st.RemoveFinalizer(ctx, k.Pointer(), "x")
			}

			if err == nil {
				res, err = st.Get(ctx, k.Pointer())
			}
		}
	case "td":
		if _, err = st.Teardown(ctx, k.Pointer()); err == nil {
			res, err = st.Get(ctx, k.Pointer())
		}
	case "destroy":
		if res, err = st.Get(ctx, k.Pointer()); err == nil {
			err = st.Destroy(ctx, k.Pointer())
			del = true
		}
	}

	if err != nil {
		r.emit(Line{Ev: "note", Note: "write skipped: " + err.Error()})

		return
	}

	o := obsOf(c.K, c.ID, res)
	r.emit(Line{Ev: "write", K: c.K, ID: c.ID, Ver: o.Ver, Td: o.Td, Fe: o.Fe, Del: del})
}

func runBehaviour(t *testing.T, tr *vh.Trace, tid string, beh Beh, variant int) {
	synctest.Test(t, func(t *testing.T) {
		ctx, cancel := context.WithCancel(context.Background())
		base := state.WrapCore(namespaced.NewState(inmem.Build))
		ip := &interposer{CoreState: base, mergeBoot: variant%3 == 1}

		// every second behaviour gates the delivery goroutine: it moves on only at the schedule's "dltrigger" commands
		var dg *dgate

		if variant%2 == 0 {
			dg = &dgate{credits: make(chan struct{}, 4096), free: make(chan struct{})}
			cosiruntime.SetVerifDeliverGate(dg.wait)

			defer cosiruntime.SetVerifDeliverGate(nil)
		}

		freeDelivery := func() {
			if dg != nil {
				select {
				case <-dg.free:
				default:
					close(dg.free)
				}
			}
		}
		r := &run{t: t, tr: tr, tid: tid, start: time.Now(), beh: beh, gates: map[string]*gate{}, crs: &vh.CrMap{}, ids: []int{1, 2}}

		r.emit(Line{Ev: "reset"})

		var ropts []options.Option
		for _, k := range beh.Cached {
			ropts = append(ropts, options.WithCachedResource(ns, typeOf[k]))
		}

		rtm, err := rt.NewRuntime(state.WrapCore(ip), ropts...)
		if err != nil {
			t.Fatal(err)
		}


		names := make([]string, 0, len(beh.Cfg))
		for n := range beh.Cfg {
			names = append(names, n)
			r.gates[n] = newGate()
		}

		sort.Strings(names)

		for _, n := range names {
			if !beh.Cfg[n].Late {
				r.register(rtm, n)
			}
		}

		runDone := make(chan error, 1)

		go func() { runDone <- rtm.Run(ctx) }()

		synctest.Wait()

		cachedState := rtm.CachedState()

		cachedReads := func(readerID int) []Obs {
			var out []Obs

			for _, k := range beh.Cached {
				for _, id := range r.ids {
					// never block on a cache that is not bootstrapped yet
					rctx, rcancel := context.WithTimeout(ctx, time.Millisecond)
					res, gerr := cachedState.Get(rctx, key(k, id).Pointer())
					rcancel()

					switch {
					case gerr == nil:
						o := obsOf(k, id, res)
						out = append(out, o)
						r.emit(Line{Ev: "cread", Reader: readerID, K: k, ID: id, Ver: o.Ver, Td: o.Td, Fe: o.Fe, Inc: r.crs.Class(res.Metadata().Created())})
					case state.IsNotFoundError(gerr):
						out = append(out, obsOf(k, id, nil))
						r.emit(Line{Ev: "cread", Reader: readerID, K: k, ID: id, Fe: true})
					}
				}
			}

			return out
		}

		// teardown-bound contexts obtained through the cached state (C15): each is bound to the incarnation that exists when it is
		// handed out and must be cancelled exactly when that resource is torn down, removed or absent
		type cctx struct {
			n   int
			k   string
			id  int
			ctx context.Context
		}

		var (
			cctxMu sync.Mutex
			cctxs  []*cctx
			cctxN  int
			ctxReq = make(chan [3]int, 16)
			// reads of the cached kinds made by a controller (controller.Reader.Get: the path through the controller's state
			// adapter, which is not the one of Runtime.CachedState()), served by the same extra controller
			readReq = make(chan chan struct{})
		)

		hasCtx := func(k string, id int) bool {
			cctxMu.Lock()
			defer cctxMu.Unlock()

			for _, c := range cctxs {
				if c.k == k && c.id == id && c.ctx.Err() == nil {
					return true
				}
			}

			return false
		}

		obtainCtx := func(k string, id int) {
			// only while the cache knows the very incarnation that is in the store (cached reads may lag: a context handed out for
			// a resource the cache has not seen yet is cancelled at once, one for an incarnation the store no longer has is
			// cancelled as soon as the cache catches up - both correct, but not what the judge computes from the write log)
			ptr := key(k, id).Pointer()

			rctx, rcancel := context.WithTimeout(ctx, time.Millisecond)
			cres, cerr := cachedState.Get(rctx, ptr)
			rcancel()

			bres, berr := base.Get(ctx, ptr)
			if cerr != nil || berr != nil || !cres.Metadata().Created().Equal(bres.Metadata().Created()) ||
				cres.Metadata().Phase() != resource.PhaseRunning || bres.Metadata().Phase() != resource.PhaseRunning {
				return
			}

			cctxMu.Lock()
			cctxN++
			n := cctxN
			cctxMu.Unlock()

			if n > 8 {
				return
			}

			select {
			case ctxReq <- [3]int{n, map[string]int{"K1": 1, "K2": 2}[k], id}:
			default:
			}
		}

		// the contexts are handed out by the runtime to a controller (controller.Reader.ContextWithTeardown: the path through the
		// read cache for cached kinds); this extra controller only serves those requests, it is not part of the judged
		// configuration (no cfg line, no reconcile lines)
		if len(beh.Cached) > 0 {
			var ctxIns []controller.Input
			for _, k := range beh.Cached {
				ctxIns = append(ctxIns, rt.KindInput(ns, typeOf[k], controller.InputWeak))
			}

			if rerr := rtm.RegisterController(&rt.Probe{NameV: "zz-ctx-probe", InputsV: ctxIns, RunF: func(pctx context.Context, crt controller.Runtime) error {
				for {
					select {
					case <-pctx.Done():
						return nil
					case <-crt.EventCh():
					case done := <-readReq:
						for _, k := range beh.Cached {
							for _, id := range r.ids {
								rctx, rcancel := context.WithTimeout(pctx, time.Millisecond)
								res, gerr := crt.Get(rctx, key(k, id).Pointer())
								rcancel()

								switch {
								case gerr == nil:
									o := obsOf(k, id, res)
									r.emit(Line{Ev: "cread", Reader: 10, K: k, ID: id, Ver: o.Ver, Td: o.Td, Fe: o.Fe, Inc: r.crs.Class(res.Metadata().Created())})
								case state.IsNotFoundError(gerr):
									r.emit(Line{Ev: "cread", Reader: 10, K: k, ID: id, Fe: true})
								}
							}
						}

						close(done)
					case rq := <-ctxReq:
						k := map[int]string{1: "K1", 2: "K2"}[rq[1]]

						// blocks until the cache of the kind is bootstrapped
						tctx, cerr := crt.ContextWithTeardown(pctx, key(k, rq[2]).Pointer())
						if cerr != nil || pctx.Err() != nil {
							continue
						}

						cctxMu.Lock()
						cctxs = append(cctxs, &cctx{n: rq[0], k: k, id: rq[2], ctx: tctx})
						r.emit(Line{Ev: "cctx", N: rq[0], K: k, ID: rq[2]})
						cctxMu.Unlock()
					}
				}
			}}); rerr != nil {
				t.Fatal(rerr)
			}
		}

		ctrlReads := func() {
			if len(beh.Cached) == 0 {
				return
			}

			done := make(chan struct{})

			select {
			case readReq <- done:
				select {
				case <-done:
				case <-time.After(time.Second):
				}
			case <-time.After(time.Second):
			}
		}

		reportCtxs := func() {
			cctxMu.Lock()
			defer cctxMu.Unlock()

			for _, c := range cctxs {
				r.emit(Line{Ev: "cctxstate", N: c.n, K: c.k, ID: c.id, Err: c.ctx.Err() != nil})
			}
		}

		stopped := false

		finishRun := func() {
			stopped = true

			// release everything that may be parked and see whether Run comes back
			ip.free.Store(true)
			freeDelivery()

			for _, g := range r.gates {
				close(g.free)
			}

			select {
			case rerr := <-runDone:
				r.emit(Line{Ev: "runret", Err: rerr != nil, Note: fmt.Sprint(rerr)})
			case <-time.After(time.Minute):
			}

			synctest.Wait()
			cancel()
			synctest.Wait()

			// everything the runtime started must be gone (the harness' own goroutines end with ctx)
			time.Sleep(time.Second)
			synctest.Wait()

			// goroutines still executing code of the repository after Run returned (counted by stack content: the process-wide
			// goroutine count is noisy under load)
			leaked, note := vh.GoroutinesIn("github.com/cosi-project/runtime/pkg/")

			r.emit(Line{Ev: "leak", N: leaked, Note: note})
			r.emit(Line{Ev: "end"})
		}

		nflush := 0

		for ci, c := range beh.Cmds {
			if ci == beh.CancelAt {
				r.emit(Line{Ev: "cancel"})
				cancel()
				finishRun()

				return
			}

			if ci == beh.ErrAt {
				if ip.injectError() {
					r.emit(Line{Ev: "watcherr"})
					synctest.Wait()
					finishRun()

					return
				}
			}

			switch c.C {
			case "write":
				r.write(ctx, base, c)

				// a cached resource that is destroyed is, every other time, re-created at once: removal and re-creation reach the
				// runtime in ONE batch whenever batches are being held (a teardown-bound context of the old incarnation has to be
				// cancelled all the same)
				if c.How == "destroy" && slices.Contains(beh.Cached, c.K) && (ci%2 == 0 || hasCtx(c.K, c.ID)) {
					rc := c
					rc.How = "create"
					r.write(ctx, base, rc)
				}

			case "flush":
				// every other flush delivers only the oldest held event (a batch of one)
				if nflush++; nflush%2 == 0 {
					ip.flushPart(c.K, 1)
				} else {
					ip.flush(c.K)
				}
			case "step":
				g := r.gates[c.Ctrl]
				if c.Fail {
					g.failNext.Add(1)
				}

				select {
				case g.tokens <- struct{}{}:
				default:
				}
			case "start":
				r.register(rtm, c.Ctrl)
			case "update":
				r.gates[c.Ctrl].update.Store(true)
			case "noop":
				ip.injectNoop(c.K)
			case "dltrigger":
				if dg != nil {
					select {
					case dg.credits <- struct{}{}:
					default:
					}
				}
			}

			synctest.Wait()
			cachedReads(1)
			ctrlReads()

			// now and then a teardown-bound context for a cached resource the cache is up to date about
			for _, k := range beh.Cached {
				obtainCtx(k, r.ids[ci%len(r.ids)])
			}

			synctest.Wait()
		}

		// late controllers that were never started are started now
		for _, n := range names {
			if beh.Cfg[n].Late {
				started := false

				for _, c := range beh.Cmds {
					if c.C == "start" && c.Ctrl == n {
						started = true
					}
				}

				if !started {
					r.register(rtm, n)
				}
			}
		}

		// release everything and wait until nothing moves during a whole window
		ip.free.Store(true)
		freeDelivery()

		for _, g := range r.gates {
			close(g.free)
		}

		stopped = true

		for range 12 {
			before := r.lines()

			ip.flush("")
			synctest.Wait()
			time.Sleep(3 * time.Minute)
			synctest.Wait()
			cachedReads(2)
			ctrlReads()

			if r.lines() == before {
				break
			}
		}

		reportCtxs()
		r.emit(Line{Ev: "quiet", Cached: cachedReads(3)})

		_ = stopped

		r.emit(Line{Ev: "cancel"})
		cancel()

		select {
		case rerr := <-runDone:
			r.emit(Line{Ev: "runret", Err: rerr != nil, Note: fmt.Sprint(rerr)})
		case <-time.After(time.Minute):
		}

		synctest.Wait()
		time.Sleep(time.Second)
		synctest.Wait()

		leaked, note := vh.GoroutinesIn("github.com/cosi-project/runtime/pkg/")
		r.emit(Line{Ev: "leak", N: leaked, Note: note})
		r.emit(Line{Ev: "end"})
	})
}

func TestRuntime(t *testing.T) {
	var behs []Beh

	if err := vh.ReadJSON(vh.Env("VERIF_IN"), &behs); err != nil {
		t.Fatal(err)
	}

	tr, err := vh.NewTrace(vh.Env("VERIF_OUT"))
	if err != nil {
		t.Fatal(err)
	}

	defer tr.Close() //nolint:errcheck

	mode := os.Getenv("VERIF_MODE") // "" | "shutdown"

	for i, b := range behs {
		if mode != "shutdown" {
			b.CancelAt, b.ErrAt = -1, -1
		}

		runBehaviour(t, tr, fmt.Sprintf("r#%d", i), b, i)
	}
}
