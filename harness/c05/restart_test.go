package c05

import (
	"context"
	"errors"
	"fmt"
	"sync"
	"testing"
	"testing/synctest"
	"time"

	"go.uber.org/zap"

	"github.com/cosi-project/runtime/pkg/controller"
	"github.com/cosi-project/runtime/pkg/resource"
	"github.com/cosi-project/runtime/pkg/state"
	"github.com/cosi-project/runtime/pkg/state/impl/inmem"
	"github.com/cosi-project/runtime/pkg/state/impl/namespaced"
	"github.com/cosi-project/runtime/pkg/task"

	"verifharness/rt"
	"verifharness/vh"
)

// Restart behaviour (C16): a reduced-runtime controller, a queue controller's run hook and a task
// fail / panic following TLC-generated outcome sequences; every invocation is recorded with its
// virtual time and judged against the back-off envelope by TraceBackoff.

type ROutcome struct {
	O string `json:"o"`
	D int    `json:"d"`
}

type RBeh struct {
	Outcomes []ROutcome `json:"outcomes"`
}

type RLine struct {
	Ev    string `json:"ev"`
	Tid   string `json:"tid"`
	ID    string `json:"id"`
	T     int    `json:"t"`
	O     string `json:"o"`
	D     int    `json:"d"`
	Fresh bool   `json:"fresh"`
}

type taskSpec struct {
	f func(context.Context) error
}

func (taskSpec) ID() task.ID { return "task" }
func (s taskSpec) RunTask(ctx context.Context, _ *zap.Logger, _ struct{}) error {
	return s.f(ctx)
}

// failure maps the generator's outcomes onto what a controller run / hook / task can do.
func failure(o string) string {
	switch o {
	case "panic":
		return "panic"
	case "requeue", "skip": // a run that resets the restart back-off before failing
		return "reseterr"
	}

	return "err"
}

func runRestarts(t *testing.T, tr *vh.Trace, tid string, beh RBeh) {
	synctest.Test(t, func(t *testing.T) {
		ctx, cancel := context.WithCancel(context.Background())
		st := state.WrapCore(namespaced.NewState(inmem.Build))
		start := time.Now()

		var mu sync.Mutex

		emit := func(l RLine) {
			mu.Lock()
			defer mu.Unlock()

			l.Tid = tid
			l.T = int(time.Since(start) / time.Millisecond)
			tr.Emit(l)
		}

		emit(RLine{Ev: "reset"})

		idx := map[string]int{}

		// next outcome of the given subject; "ok" once the sequence is exhausted
		next := func(id string, resettable bool) string {
			mu.Lock()
			defer mu.Unlock()

			i := idx[id]
			idx[id]++

			if i >= len(beh.Outcomes) {
				return "ok"
			}

			o := failure(beh.Outcomes[i].O)
			if o == "reseterr" && !resettable {
				o = "err"
			}

			return o
		}

		act := func(ctx context.Context, id, o string) error {
			switch o {
			case "ok":
				<-ctx.Done()

				return nil
			case "panic":
				panic("probe panic")
			}

			return errors.New("probe failure")
		}

		rtm, err := rt.NewRuntime(st)
		if err != nil {
			t.Fatal(err)
		}

		if err = rtm.RegisterController(&rt.Probe{
			NameV:   "rc",
			InputsV: []controller.Input{rt.KindInput("n1", vh.IntType, controller.InputWeak)},
			RunF: func(ctx context.Context, r controller.Runtime) error {
				o := next("rc", true)

				fresh := false

				select {
				case <-r.EventCh():
					fresh = true
				default:
				}

				emit(RLine{Ev: "rec", ID: "rc", O: o, Fresh: fresh})

				if o == "reseterr" {
					r.ResetRestartBackoff()
				}

				return act(ctx, "rc", o)
			},
		}); err != nil {
			t.Fatal(err)
		}

		if err = rtm.RegisterQController(&rt.QProbe{
			NameV:   "hookc",
			InputsV: []controller.Input{rt.KindInput("n1", vh.StrType, controller.InputQPrimary)},
			RunHookF: func(ctx context.Context, _ controller.QRuntime) error {
				o := next("hook", true)

				if o != "reseterr" {
					emit(RLine{Ev: "rec", ID: "hook", O: o, Fresh: true})
				} else {
					emit(RLine{Ev: "rec", ID: "hook", O: "startlong", Fresh: true})

					// a hook that ran for more than a minute resets its back-off
					select {
					case <-ctx.Done():
						return nil
					case <-time.After(61 * time.Second):
					}

					emit(RLine{Ev: "rec", ID: "hook", O: "reseterr", Fresh: true})
				}

				return act(ctx, "hook", o)
			},
			ReconcileF: func(context.Context, controller.QRuntime, resource.Pointer) error { return nil },
		}); err != nil {
			t.Fatal(err)
		}

		tk := task.New(zap.NewNop(), taskSpec{f: func(ctx context.Context) error {
			o := next("task", false)
			emit(RLine{Ev: "rec", ID: "task", O: o, Fresh: true})

			return act(ctx, "task", o)
		}}, struct{}{})

		runDone := make(chan error, 1)

		go func() { runDone <- rtm.Run(ctx) }()

		tk.Start(ctx)

		// long enough for every retry (<= 90 s each)
		for range len(beh.Outcomes) + 2 {
			time.Sleep(3 * time.Minute)
			synctest.Wait()
		}

		emit(RLine{Ev: "end"})

		cancel()
		<-runDone
		tk.Stop()
		synctest.Wait()
	})
}

func TestRestarts(t *testing.T) {
	var behs []RBeh

	if err := vh.ReadJSON(vh.Env("VERIF_IN"), &behs); err != nil {
		t.Fatal(err)
	}

	tr, err := vh.NewTrace(vh.Env("VERIF_OUT"))
	if err != nil {
		t.Fatal(err)
	}

	defer tr.Close() //nolint:errcheck

	for i, b := range behs {
		runRestarts(t, tr, fmt.Sprintf("s#%d", i), b)
	}
}
