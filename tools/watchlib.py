"""Shared pipeline of the watch-stream checks (C02, C12, C14 watch part)."""
import json, os, re, copy
import vlib, inmemlib

RING_CONFIGS = [(1, 1, 0), (2, 2, 0), (2, 4, 1), (3, 5, 1), (4, 8, 2), (4, 4, 3)]


def gen_groups(ctx, configs, num, depth):
    groups = []
    for (ic, mc, gap) in configs:
        behs = vlib.gen_behaviours(ctx, "GenWatch", "GenWatch.cfg", num=num, depth=depth * 4,
                                   name="gen-%d-%d-%d" % (ic, mc, gap), workers=4,
                                   env={"INITCAP": ic, "MAXCAP": mc, "GAP": gap, "GEN_DEPTH": depth})[:num]
        groups.append({"initcap": ic, "maxcap": mc, "gap": gap, "behs": behs})
    return groups


def drive(ctx, groups, extras=True, name="watch", hook_prop=None):
    """hook_prop: also judge the linearization-point traces of the collections the driver used (TraceInmem) for that property."""
    binary = vlib.go_build_test(ctx, "c02")
    inp = os.path.join(ctx.scratch, name + "-in.json")
    json.dump(groups, open(inp, "w"))
    out = os.path.join(ctx.scratch, name + "-out")
    _, mint = vlib.go_run(ctx, binary, "TestMint", {})
    m = re.search(r"MINT ([0-9a-f]{32})", mint)
    henv, hdir = inmemlib.traced(ctx, name) if hook_prop else ({}, None)
    vlib.go_run(ctx, binary, "TestWatch", dict({"VERIF_IN": inp, "VERIF_OUT": out, "VERIF_EXTRAS": "1" if extras else "0",
                                                 "VERIF_FOREIGN_BM": m.group(1) if m else ""}, **henv),
                timeout=2400)
    if hook_prop:
        inmemlib.judge_driver(ctx, hook_prop, hdir, "TestWatch(%s)" % name, max_collections=600 if ctx.tier == "quick" else 6000)
    if ctx.tier == "thorough" and name == "watch":
        vlib.race_stage(ctx, "c02", "TestWatch", {"VERIF_IN": inp, "VERIF_OUT": out, "VERIF_EXTRAS": "1" if extras else "0",
                                                  "VERIF_FOREIGN_BM": m.group(1) if m else ""})
    return ["%s.%d.ndjson" % (out, i) for i in range(len(groups))]


def judge(ctx, groups, files, prop_filter=None):
    """Validate every group's trace file with TraceWatch. Returns list of rejections
    (tid, line, what, detail, record, group)."""
    rej = []
    total = 0
    for g, f in zip(groups, files):
        recs = vlib.read_ndjson(f)
        env = {"INITCAP": g["initcap"], "MAXCAP": g["maxcap"], "GAP": g["gap"]}
        mism, consumed, r = vlib.validate(ctx, "TraceWatch", "TraceWatch.cfg", f, env=env, timeout=2400,
                                          name="val-%d-%d-%d" % (g["initcap"], g["maxcap"], g["gap"]))
        if consumed != len(recs):
            raise vlib.Infra("TraceWatch consumed %s of %d lines of %s\n%s" % (consumed, len(recs), f, r.out[-3000:]))
        details = [x for x in r.out.splitlines() if x.startswith('<<"DETAIL"')]
        traces = vlib.split_traces(recs)
        total += len(traces)
        for i, line in enumerate(mism):
            m = re.match(r'<<"MISMATCH", "([^"]*)", (\d+), "([^"]*)">>', line)
            tid, lno, what = m.group(1), int(m.group(2)), m.group(3)
            rej.append({"tid": tid, "line": lno, "what": what, "detail": details[i][:800] if i < len(details) else "",
                        "record": recs[lno - 1], "config": [g["initcap"], g["maxcap"], g["gap"]],
                        "trace": [t for t in traces if t[0] == tid][0][1]})
    return total, rej


def selftest(ctx, groups, files, rejected_tids):
    """Corrupt one received event of an accepted trace: must be rejected."""
    cands = []
    for g, f in reversed(list(zip(groups, files))):
        cands += [(g, t) for t in vlib.split_traces(vlib.read_ndjson(f)) if t[0] not in rejected_tids]
    for g, (tid, recs) in cands:
        idx = [i for i, x in enumerate(recs) if x["ev"] == "recv" and x["e"]["t"] in ("created", "updated")]
        if not idx or any(x["ev"] == "recv" and x["e"]["t"] == "errored" for x in recs):
            continue
        t = copy.deepcopy(recs)
        t[idx[len(idx) // 2]]["e"]["ver"] += 1
        p = os.path.join(ctx.scratch, "watch-selftest.ndjson")
        vlib.write_ndjson(p, t)
        m2, _, _ = vlib.validate(ctx, "TraceWatch", "TraceWatch.cfg", p, name="selftest",
                                 env={"INITCAP": g["initcap"], "MAXCAP": g["maxcap"], "GAP": g["gap"]})
        ok = len(m2) > 0
        ctx.cov["binding_selftest"].append({"corrupted": "recv.e.ver+1", "rejected": ok})
        if not ok:
            raise vlib.Infra("binding self-test: corrupted watch trace was accepted")
        # dropping one delivered event must be rejected as well
        t = copy.deepcopy(recs)
        del t[idx[0]]
        vlib.write_ndjson(p, t)
        m3, _, _ = vlib.validate(ctx, "TraceWatch", "TraceWatch.cfg", p, name="selftest2",
                                 env={"INITCAP": g["initcap"], "MAXCAP": g["maxcap"], "GAP": g["gap"]})
        ctx.cov["binding_selftest"].append({"corrupted": "one recv line dropped", "rejected": len(m3) > 0})
        if not m3:
            raise vlib.Infra("binding self-test: trace with a dropped event was accepted")
        return
    raise vlib.Infra("binding self-test: no accepted trace with deliveries")


def threaded(ctx, prop, rounds):
    """Real threads, real scheduler: concurrent writers and subscribers of every kind (harness/c02 TestThreaded); the trace is
    written by the linearization-point hooks inside the collection and judged by TraceInmem."""
    binary = vlib.go_build_test(ctx, "c02")
    henv, hdir = inmemlib.traced(ctx, "threaded")
    vlib.go_run(ctx, binary, "TestThreaded", dict({"VERIF_ROUNDS": rounds}, **henv), timeout=2400)
    traces = inmemlib.judge_driver(ctx, prop, hdir, "TestThreaded")
    flat = [r for t in traces for r in t]
    ctx.cov["threaded_rounds"] = rounds
    ctx.cov["threaded_overruns"] = len([r for r in flat if r["ev"] == "wread" and r["over"]])
    ctx.cov["threaded_late_reads"] = len([r for r in flat if r["ev"] == "wread" and not r["over"] and r["wp"] - (r["pos"] if r["raw"] else r["npos"]) > 1])
    ctx.cov["threaded_resumes"] = len([r for r in flat if r["ev"] == "wstart" and r["mode"] == "bookmark"])
