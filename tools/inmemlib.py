"""Linearization-point traces of the in-memory store (hooks in pkg/state/impl/inmem, build tag verif), recorded while the
REPOSITORY'S OWN TEST SUITES (and the harness drivers) run, judged line by line by TLC (spec/TraceInmem.tla).

The hooks write one JSON line per critical section of a ResourceCollection; this module only runs the tests, groups the
lines by collection (one trace per collection, ordered by the sequence number taken under the collection lock), cuts the
traces into chunks and hands them to TLC. It never decides anything itself."""
import collections, concurrent.futures, glob, json, os, subprocess, time

import vlib
from vlib import Infra

# mismatch kinds of TraceInmem.tla -> the property whose statement they contradict
KINDS = {
    "C01": {"branch-not-applicable", "failed-operation-changed-the-store", "version-not-bumped-by-one", "stored-value",
            "commit-without-its-event", "load-without-its-event"},
    "C02": {"event-published-by-failed-operation", "event-without-commit", "publish-position", "ring-capacity-below-initial",
"start-position", "initial-event", "bootstrap-of-absent-resource", "bootstrap-contents",
            "read-position", "ring-contents", "errored-without-lag", "event-skipped-or-foreign", "event-dropped", "wrong-event",
            "unexpected-event", "event-after-errored", "read-after-errored", "write-position", "read-by-unknown-watch",
            "send-by-unknown-watch",
            # a change of the stored value that no event announces (or an event that does not match its commit) breaks
            # "replaying the events over the initial snapshot reproduces the store's contents"
            "failed-operation-changed-the-store", "version-not-bumped-by-one", "commit-without-its-event", "stored-value"},
    "C12": {"bookmark-outcome", "resume-position", "tail-contents"},
}
# C10: "if the backing store rejects a write ... neither in-memory contents nor any watcher observes it"
KINDS["C10"] = {"failed-operation-changed-the-store", "event-published-by-failed-operation", "load-without-its-event", "stored-value"}
# C19: any out-of-band change of a stored object shows up as a difference between the stored value and the model
KINDS["C19"] = {"failed-operation-changed-the-store", "stored-value"}
# C14: selector rewrite of kind watches (the match bits come from the code's own selector closure)
KINDS["C14"] = {"wrong-event", "unexpected-event", "bootstrap-contents"}

# C03: "a resource is never removed while it holds a finalizer": a destroy that commits on a stored value with finalizers is a
# branch that is not applicable; (judged on the dedicated finalizer-traffic driver)
KINDS["C03"] = {"branch-not-applicable", "failed-operation-changed-the-store", "stored-value", "version-not-bumped-by-one"}

QUICK_PKGS = ["./pkg/state/impl/inmem/", "./pkg/state/impl/namespaced/", "./pkg/state/", "./pkg/safe/"]
THOROUGH_PKGS = QUICK_PKGS + ["./pkg/state/protobuf/...", "./pkg/state/impl/store/...", "./pkg/controller/runtime/...",
                              "./pkg/controller/generic/...", "./pkg/state/registry/...", "./pkg/state/owned/...", "./pkg/resource/..."]


def run_repo_tests(ctx, pkgs, name, timeout=1500, run=None):
    """go test -tags verif of the repository's own packages with the trace sink switched on. Returns the trace files."""
    d = ctx.sub("inmemtrace-" + name)
    e = vlib.go_env()
    e["VERIF_INMEM_TRACE"] = os.path.join(d, "t")
    cmd = ["timeout", "-k", "10", str(timeout), vlib.GO, "test", "-tags", "verif", "-vet=off", "-count=1", "-timeout", "%ds" % timeout]
    if run:
        cmd += ["-run", run]
    cmd += pkgs
    t = time.time()
    p = subprocess.run(cmd, cwd=vlib.REPO, env=e, stdout=subprocess.PIPE, stderr=subprocess.STDOUT, text=True)
    files = sorted(glob.glob(os.path.join(d, "t.*.ndjson")))
    ctx.log("repo tests %s (%d packages patterns) rc=%d %.1fs -> %d trace files" % (name, len(pkgs), p.returncode, time.time() - t, len(files)))
    failed = [ln for ln in p.stdout.splitlines() if ln.startswith("FAIL") or ln.startswith("--- FAIL") or ln.startswith("panic:")]
    return files, p.returncode, failed, p.stdout


def group(files, max_lines=None):
    """-> list of traces (lists of records), one per collection that did anything; each starts with its coll line (tid added)."""
    traces = []
    for f in files:
        by = collections.OrderedDict()
        with open(f) as fh:
            for ln in fh:
                ln = ln.strip()
                if not ln:
                    continue
                try:
                    r = json.loads(ln)
                except ValueError:
                    continue            # a line cut off by the end of the process
                by.setdefault(r["c"], []).append(r)
        for c, rs in by.items():
            rs.sort(key=lambda r: r["seq"])
            if rs[0]["ev"] != "coll" or len(rs) < 2:
                continue
            if any(r["ev"] == "hookerror" for r in rs):
                raise Infra("trace hook could not encode an event: %s" % [r for r in rs if r["ev"] == "hookerror"][:1])
            rs[0]["tid"] = "%s#%d:%s/%s" % (os.path.basename(f).replace(".ndjson", ""), c, rs[0].get("ns", ""), rs[0].get("typ", ""))
            if max_lines and len(rs) > max_lines:
                rs = rs[:max_lines]
            traces.append(rs)
    return traces


def chunks(traces, limit=4000):
    cur, n = [], 0
    for t in traces:
        if cur and n + len(t) > limit:
            yield cur
            cur, n = [], 0
        cur.append(t)
        n += len(t)
    if cur:
        yield cur


def judge(ctx, traces, name, par=None, timeout=1800):
    """TLC validates every chunk (in parallel JVMs). Returns (lines_consumed, list of (tid, line_no, kind, record, detail))."""
    work = list(chunks(traces))
    par = par or max(1, min(len(work), vlib.NCPU // 2))
    found, total = [], 0

    def one(i):
        flat = [r for t in work[i] for r in t]
        path = os.path.join(ctx.sub("traces"), "%s-%d.ndjson" % (name, i))
        vlib.write_ndjson(path, flat)
        mism, consumed, r = vlib.validate(ctx, "TraceInmem", "TraceInmem.cfg", path, name="%s-%d" % (name, i), timeout=timeout, heap="3g")
        if consumed != len(flat):
            raise Infra("TraceInmem consumed %s of %d lines:\n%s" % (consumed, len(flat), "\n".join(r.out.splitlines()[-25:])))
        details = [ln for ln in r.out.splitlines() if ln.startswith('<<"DETAIL"')]
        res = []
        for k, m in enumerate(mism):
            tid, line, rest = vlib.parse_mismatch(m)
            kind = rest.strip().strip('"')
            res.append((tid, line, kind, flat[line - 1] if 0 < line <= len(flat) else None, details[k][:1500] if k < len(details) else ""))
        return len(flat), res

    with concurrent.futures.ThreadPoolExecutor(max_workers=par) as ex:
        for n, res in ex.map(one, range(len(work))):
            total += n
            found += res
    return total, found


def selftest(ctx, traces, name):
    """Binding self-test: corrupt one logged field of an accepted trace (the stored version after a successful update, or the
    version of a delivered event) and require TLC to reject it."""
    import copy
    for t in traces:
        for i, r in enumerate(t):
            if r["ev"] == "op" and r["br"] == "ok" and r["op"] == "update":
                bad = copy.deepcopy(t[:i + 1])
                bad[i]["st"]["ver"] += 1
                _, found = judge(ctx, [bad], name + "-selftest", par=1)
                ok = any(k == "stored-value" for _, _, k, _, _ in found)
                ctx.cov["binding_selftest"].append("inmem hook trace with a corrupted stored version: %s" % ("rejected" if ok else "ACCEPTED"))
                if not ok:
                    raise Infra("binding self-test failed: corrupted hook trace accepted")
                return
    ctx.cov["binding_selftest"].append("inmem hook trace: no successful update in the traces (self-test skipped)")


def _report(ctx, prop, found, source):
    mine = KINDS[prop]
    other = 0
    for tid, line, kind, rec, detail in found:
        if kind in mine:
            ctx.violation("inmem-hook/%s" % kind, "%s hook trace %s line %d: %s (%s)" % (source, tid, line, kind, json.dumps(rec)[:600]),
                          {"source": source, "tid": tid, "line": line, "kind": kind, "record": rec, "detail": detail})
        else:
            other += 1
    if other:
        ctx.cov.setdefault("hook_trace_mismatches_of_other_properties", 0)
        ctx.cov["hook_trace_mismatches_of_other_properties"] += other


def traced(ctx, name):
    """Environment that switches the hooks on for a harness driver; returns (env, directory)."""
    d = ctx.sub("inmemtrace-" + name)
    return {"VERIF_INMEM_TRACE": os.path.join(d, "t")}, d


def judge_driver(ctx, prop, d, name, max_collections=None):
    """Judge the hook traces a harness driver left in directory d (see traced)."""
    files = sorted(glob.glob(os.path.join(d, "t.*.ndjson")))
    if not files:
        raise Infra("driver %s left no hook traces (was the harness built with -tags verif?)" % name)
    traces = group(files)
    if max_collections and len(traces) > max_collections:
        step = len(traces) / float(max_collections)
        traces = [traces[int(i * step)] for i in range(max_collections)]
    total, found = judge(ctx, traces, name)
    ctx.cov["traces_validated_against_impl"] += len(traces)
    ctx.cov.setdefault("hook_trace_lines", 0)
    ctx.cov["hook_trace_lines"] += total
    ctx.cov.setdefault("hook_trace_sources", []).append({"driver": name, "collections": len(traces), "lines": total})
    ctx.log("hook traces of driver %s: %d collections, %d lines, %d mismatches" % (name, len(traces), total, len(found)))
    _report(ctx, prop, found, "driver " + name)
    for f in files:
        os.remove(f)
    return traces


def stage(ctx, prop, tier, name="repo"):
    """Run the repository's own tests with the hooks on and report the mismatches that contradict `prop`."""
    pkgs = QUICK_PKGS if tier == "quick" else THOROUGH_PKGS
    files, rc, failed, out = run_repo_tests(ctx, pkgs, name)
    if not files:
        raise Infra("the repository's tests produced no hook traces (rc=%d):\n%s" % (rc, out[-3000:]))
    traces = group(files)
    lines = sum(len(t) for t in traces)
    ctx.log("inmem hook traces: %d collections, %d lines" % (len(traces), lines))
    total, found = judge(ctx, traces, name)
    ctx.cov["traces_validated_against_impl"] += len(traces)
    ctx.cov.setdefault("hook_trace_lines", 0)
    ctx.cov["hook_trace_lines"] += total
    ctx.cov.setdefault("hook_trace_sources", []).append({"packages": pkgs, "collections": len(traces), "lines": total,
                                                         "go_test_rc": rc, "failed_tests": failed[:10]})
    _report(ctx, prop, found, "repository tests")
    selftest(ctx, traces, name)
    if len(ctx.cov["samples"]) < 8 and traces:
        ctx.cov["samples"].append({"hook_trace_head": traces[0][:4]})
    return traces
