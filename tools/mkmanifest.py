#!/usr/bin/env python3
"""Regenerates /verif/MANIFEST.json from the table below (single source of truth)."""
import json, os, subprocess

V = os.path.dirname(os.path.dirname(os.path.abspath(__file__)))

TITLES = {}
for line in open(os.path.join(V, "properties.jsonl")):
    p = json.loads(line)
    TITLES[p["id"]] = p["title"]

# id -> dict(level, text, note, technique, design_ref)   (only built checks)
CHECKS = {
 "C01": dict(
    level="model_checking",
    text="TLC exhaustively checks the sequential store specification (Store.tla: outcome classes, failed-op frame "
         "conditions, version discipline); TLC-generated request sequences are replayed on every CoreState stack "
         "(inmem, small-history inmem, bbolt with three marshalers, Filter, real gRPC) and every recorded step "
         "(error-predicate vector, write-back, full contents) is judged by TLC against the specification; concurrent "
         "real-thread histories are accepted only if TLC finds linearization points (TraceStoreLin). "
         "Histories that start on a restarted persistent-backed state whose first access is made by two clients at once (one parked inside the backing store's Load) are driven and judged too (TracePersist raceread). "
         "The access-rule wrapper state.Filter has its own specification (Filter.tla): the rule is consulted exactly once per call with the access the call makes, denied calls never reach the wrapped state, allowed calls are transparent. Linearization-point traces: build-tag guarded hooks inside the in-memory collection (one line per critical section, written under the collection mutex) are switched on while the harness drivers AND the repository's own test suites run; TLC judges every line against the store / committed-log / watch vocabulary (TraceInmem.tla). The same sequential store is shown safe for unbounded versions, clocks and histories by an Apalache inductive-invariant argument (ApaStore.tla); a fault-injecting backing-store stack is part of the sequential replay.",
    note="Trusted: TLC, the Go projection of resources/errors (harness/vh). Real-thread histories sample schedules, "
         "they do not enumerate them; bounded domains (2 ids x 2 namespaces x 2 types, 3 owners, 2 finalizers).",
    technique="TLA+ sequential spec + TLC model checking; model-based replay and TLC trace validation (incl. linearizability acceptor)",
    ref="5.1"),
 "C02": dict(
    level="model_checking",
    text="TLC exhaustively checks the implementation-level ring model (WatchLog.tla: cyclic buffer with first-lap "
         "growth, gap, watcher read position, batch copy, overrun test, every start option) against the property-level "
         "vocabulary (WatchProp.tla: exact prefix of the committed log, selector rewrite, errored only if lagged, nothing "
         "missing when quiet); TLC-simulated command sequences (eager and burst publishes, all watch kinds and options, "
         "stalled consumers) drive the real in-memory collection inside a synctest bubble for several history "
         "configurations, and every received event is judged by TLC (TraceWatch.tla). Linearization-point traces: build-tag guarded hooks inside the in-memory collection (one line per critical section, written under the collection mutex) are switched on while the harness drivers AND the repository's own test suites run; TLC judges every line against the store / committed-log / watch vocabulary (TraceInmem.tla). A threaded driver (real scheduler: concurrent writers, subscribers of every kind and option, slow and stalled consumers, bookmark resumes, a fault-injecting backing store) is judged through the same hooks.",
    note="Trusted: TLC, synctest quiescence, the event projection of harness/c02. Watcher read timing on the real code "
         "is eager or post-burst (GOMAXPROCS(1)); all read interleavings are exhaustive only in the model.",
    technique="TLA+ ring/watcher model + TLC model checking; TLC-simulated schedules replayed in a synctest bubble; TLC trace validation",
    ref="5.2"),
 "C12": dict(
    level="model_checking",
    text="Same model and judge as C02; the driver additionally resumes from every bookmark ever delivered (single and kind "
         "watches), tries malformed / foreign-incarnation / ahead / too-old bookmarks and every tail size 1..MaxCap+2 after "
         "each TLC-generated history; TLC decides accept/reject (BookmarkAccepted), the invalid-bookmark class, the exact "
         "resumed suffix and the exact tail contents; the ring model proves RecentBookmarksAccepted and AcceptedBookmarkRetained. "
         "BootstrapBookmark combined with tail / start-from-bookmark is part of model, generator, judge and driver (the initial Noop carries the bookmark right before the first replayed event). Linearization-point traces: build-tag guarded hooks inside the in-memory collection (one line per critical section, written under the collection mutex) are switched on while the harness drivers AND the repository's own test suites run; TLC judges every line against the store / committed-log / watch vocabulary (TraceInmem.tla). The threaded watch driver (bookmark resumes and tails under the real scheduler) is judged through the same hooks.",
    note="Trusted: TLC, bookmark position decoding in the harness (last 8 bytes big endian). Tail+selector combinations not driven.",
    technique="TLA+ ring model + TLC model checking; model-based replay with exhaustive resume/tail probes; TLC trace validation",
    ref="5.12"),
 "C03": dict(
    level="model_checking",
    text="TLC exhaustively checks the implementation-level step machines of the helpers in wrap.go (Helpers.tla: every "
         "underlying Get/Update/Create/Destroy/Watch call and every watch delivery is one action) racing finalizer traffic, "
         "teardown, destroy and re-creation: obligations at every return, no removal with finalizers, honest teardown "
         "readiness, honest context cancellation, NoMissedWakeup, and TeardownAndDestroy completion under fairness. "
         "TLC-simulated schedules are replayed on the real helpers through a gating CoreState proxy inside a synctest "
         "bubble (one underlying call / one delivery per scheduling decision); the recorded trace is judged by TLC "
         "against the property-level spec TraceHelpers.tla. Watchers blocked across a re-creation of the resource (versions restart) are part of the model-checked and replayed programs; TeardownAndDestroy may surface the pending-finalizers conflict only after it saw the finalizers empty after its own teardown took effect. Three parties adding and removing their own finalizers after an earlier removal (ProgramsFins) are model-checked and replayed: every finalizer write must be exactly the requested change of the then-current set. The finalizer gate itself is exercised on real threads over a persistent-backed in-memory state with a slow backing store (an owner creating / tearing down / destroying, parties adding and removing their finalizers); the build-tag guarded hooks of the collection write every commit in lock order and TLC judges (TraceInmem) that no destroy commits on a stored value that carries a finalizer. Every error a helper returns needs its justification (a phase conflict only from a call that expects a phase).",
    note="Trusted: TLC, synctest, the gating proxy. Schedules replayed on the code are a TLC-simulated sample (quick 300, "
         "thorough 6000) of the interleavings that the model checks exhaustively; one resource, 3 actors.",
    technique="TLA+ helper step-machine model + TLC (safety and liveness); schedule replay through a gating proxy; TLC trace validation",
    ref="5.3"),
 "C04": dict(
    level="model_checking",
    text="Same model, harness and judge as C03 with contention programs (2 read-modify-write callers with token mutators "
         "plus a disturber that tears down / destroys / re-creates): TLC checks on the model that every successful call "
         "wrote at most once on top of the current value of the same incarnation and every failed call wrote nothing; "
         "the judge TraceHelpers.tla checks on every real trace: written value = mutation applied to the then-current "
         "value, applied exactly once, returned object = written object, errors had no effect, owner/phase conflicts never "
         "turned into success, no call spins forever. "
         "The token mutators also count their applications (not idempotent), so a mutation applied twice on the way to one successful write is rejected (applied-twice); a dedicated program menu (create / destroy racing Modify's create path) with an alternating scheduler bias is part of every run, and a directed schedule reproduces the open ABA finding. Idempotent mutators racing a teardown are part of the programs (a success must have found the expected phase). Two callers applying the same non-idempotent mutation (ProgramsSame: both compute the same result from the same base) are part of every run: two successes must be two applications. Every error needs its justification (rule error-without-justification: a phase conflict only from a call that expects a phase and saw another one); this rule exposed defect 18 (Teardown racing Teardown), repaired in the code.",
    note="Trusted: as C03. Known finding C04/aba (stale update over a re-created incarnation with coinciding version) is "
         "listed in known_findings.json and modelled as the named deviation RecreateSameVersionABA.",
    technique="TLA+ helper step-machine model + TLC; schedule replay through a gating proxy; TLC trace validation",
    ref="5.4"),
 "C09": dict(
    level="model_checking",
    text="TLC exhaustively checks the event-loop model of the reconcile queue (Queue.tla: priority queue with FIFO ties, "
         "on-hold set, parked values, reported length, logical clock) for exclusion, single pending delivery per key with "
         "the latest value, no loss, not-before-requested, length, and redelivery after release under fairness; the retry "
         "policy (Backoff.tla) for reset/growth. TLC-simulated command sequences drive the real queue (verif facade) in a "
         "synctest bubble in virtual time, and TLC-generated reconcile outcome sequences (ok/error/panic/requeue with and "
         "without error/skip) drive a probe QController on the real runtime; both traces are judged by TLC (TraceQueue, "
         "TraceBackoff: exact requeue intervals, randomised back-off envelope, reset on success). "
         "Release / Requeue on an already released handle (the runtime's own deferred Release after Requeue) are part of the command sequences and must be no-ops. The queue's event loop carries build-tag guarded transition hooks: every transition it takes while the harness drivers and the repository's own test suites (queue stress tests, queue controllers of the conformance suites) run is judged by the same property-level judge (TraceQueue.tla). Reconciles that take (virtual) time before returning their outcome are driven: a requeue interval / back-off counts from the moment the reconcile returned. Two failing items with outcome sequences of their own are driven (a later deadline of one must not hold up the other).",
    note="Trusted: TLC, synctest virtual time, the verif facade (type aliases only). Order among simultaneously due items is "
         "not part of the property; randomised back-off is checked against its envelope only.",
    technique="TLA+ queue/back-off models + TLC; model-based replay in virtual time; TLC trace validation",
    ref="5.9"),
 "C17": dict(
    level="model_checking",
    text="TLC exhaustively checks DepDB.tla over all sequences of up to 4-5 Register(Q)Controller / UpdateInputs calls from a "
         "menu of valid and invalid declarations (3 controllers, 2 types, 2 ids): exclusivity, exclusive/shared never coexist, "
         "no conflicting inputs, rejected calls have no effect, and the implementation-level fold of AddControllerOutput/"
         "AddControllerInput calls with roll-back refines the atomic property-level call. TLC-generated call sequences "
         "(registration before and after start, both flavours) run on the real runtime in a synctest bubble; after every call "
         "the outcome, the exported graph and, for writes to every probe key in three phases, the set of notified probe "
         "controllers are recorded and judged by TLC (TraceDepDB.tla: must-notify subset-of woken subset-of may-notify). "
         "A crash of the delivery goroutine is detected as a dead driver process and attributed to the running behaviour. Updates that change nothing but the kind of existing inputs are part of the call sequences. Directed real-thread schedules park an event delivery exactly while a rejected and while an accepted registration hold the runtime lock (dependency lookups racing registration).",
    note="Trusted: TLC, synctest quiescence for 'who woke up'. One namespace; UpdateInputs only for running reduced-runtime "
         "controllers (API).",
    technique="TLA+ dependency-database model + TLC (incl. refinement of the call sequences); model-based replay on the real runtime; TLC trace validation",
    ref="5.17"),
 "C08": dict(
    level="model_checking",
    text="Access.tla states, for every declaration set (7 sets over both flavours, inputs of every kind by kind and by id, "
         "outputs), operation (get, getUncached, list, teardown-context, create, update, modify, teardown, destroy, add/remove "
         "finalizer), target, pre-state of the target (absent / owned by self / other / nobody / with finalizer / tearing down) "
         "and owner option, whether the operation is allowed and what its outcome class and effect must be; TLC enumerates the "
         "complete matrix (2520 rows), checks every row (rejected => unchanged, created => stamped, foreign resources only with "
         "an explicit owner) and emits it; every row (thorough) or a seeded quarter (quick) is executed through the real "
         "runtime adapters of a probe Controller / QController, with cached and uncached kinds, and the recorded outcome class "
         "and resulting value are judged by TLC (TraceAccess.tla). "
         "Output tracking (StartTrackingOutputs / CleanupOutputs) is modelled in OutTrack.tla (exact victims, foreign resources untouched, failed cleanup keeps the tracker, panics on misuse, restart discards the tracker), checked exhaustively, and random walks of it are replayed through a probe controller with every command judged by TraceOutTrack. "
         "The change rate limit (WithChangeRateLimit) is a token bucket (RateLimit.tla, window bound checked by TLC); call sequences with idle gaps are issued in virtual time and the bucket is replayed per call: every mutating call, allowed or denied, takes one token and waits exactly as long as the policy says, reads take none. UpdateInputs must not alias the caller's slice. Every declaration's rows run forwards and backwards through one controller handle, and chained through UpdateInputs to the next declaration: what a call may do depends on the current declaration only. Modify with phase options (any phase, tearing down) is part of the access matrix (the owner is enforced whatever the phase option). The output-tracking model has a SECOND controller with a tracking cycle of its own (variable tw): nothing one controller does - starting, failing, restarting, cleaning up - changes what the other has touched (the trackers are pooled objects); every other behaviour runs on one processor so that pooled trackers change hands.",
    note="Trusted: TLC, the error classification of harness/vh (an access denial is an unclassifiable error). One namespace; "
         "write rate limiting not exercised.",
    technique="TLA+ access matrix + TLC enumeration; exhaustive matrix replay through the real adapters; TLC trace validation",
    ref="5.8"),
 "C05": dict(
    level="model_checking",
    text="TLC exhaustively checks the notification pipeline model (Runtime.tla: aggregated watchers, watchCh, the dedup "
         "goroutine with the single map bouncing between `empty` and `ch`, the delivery goroutine, capacity-1 event channels "
         "with per-input destroy-ready filters, queue controllers with primary / mapped / mapped-destroy-ready routing and "
         "start-up listing, late registration, cached kinds, a fault budget) for `quiescent => every controller observed the "
         "current state of its inputs` and `every mapped change reached the primaries its mapper names`, on five controller "
         "configurations. TLC-simulated schedules (writes, batch flushes, reconcile releases, late starts, failing reconciles) "
         "drive the real runtime with probe controllers in a synctest bubble through an interposing CoreState that holds and "
         "merges aggregated watch batches; what every reconcile read and a final quiet point are judged by TLC (TraceRuntime). The delivery goroutine of the runtime is parked at a build-tag guarded scheduler gate and released by the schedule; batches that carry nothing (bookmarks) are modelled and injected. Directed real-thread schedules race event delivery against a rejected and an accepted registration (no crash, no wake-up lost, lookups of different ids of one kind do not disturb each other). Configuration H: a queue controller with two by-ID inputs of one kind that differ in their input kind (mapped / mapped-destroy-ready).",
    note="Trusted: TLC, synctest quiescence (quiet = nothing recorded during 3 virtual minutes after everything was released). "
         "Dedup/delivery goroutine steps run eagerly on the code; their interleavings are exhaustive only in the model.",
    technique="TLA+ pipeline model + TLC; schedule replay on the real runtime in a synctest bubble; TLC trace validation",
    ref="5.5"),
 "C15": dict(
    level="model_checking",
    text="White box: Cache.tla (append until Bootstrapped, put/remove, blocked readers, teardown-bound contexts) is checked "
         "exhaustively and TLC-simulated operation sequences drive the real ResourceCache (verif facade) in a bubble; TLC "
         "judges that reads issued before Bootstrapped block and then return the complete contents, later reads return the "
         "current contents, contexts are cancelled iff the resource is/was torn down, removed or absent (TraceCache). "
         "Black box: runtime schedules with cached kinds; cached reads after every step must be version-monotone per "
         "incarnation, controllers reading through the cache must not lose wake-ups, and cached = uncached at the quiet point. "
         "A filtered List running concurrently with one cache mutation (a hook in the cached resources' Metadata() lets the mutation land in the middle of the scan) must return the contents at one instant. Teardown-bound contexts handed out by the runtime for cached resources are tracked (cancelled exactly when the resource is torn down, removed or absent), including removal and re-creation within one batch; pipeline hook traces of the runtimes are judged by TracePipe.tla. Label / ID filtered cached lists at quiet: the selector algebra's table (Selector.tla, emitted by TLC) is evaluated by the runtime cache's List and judged against the algebra (TraceSelector). Cached reads are also made through a controller's state adapter (controller.Reader.Get), and held batches are flushed partially (events committed together reach the runtime in separate batches).",
    note="Trusted: as C05.",
    technique="TLA+ cache model + pipeline model, TLC; white-box and black-box replay; TLC trace validation",
    ref="5.15"),
 "C16": dict(
    level="model_checking",
    text="Pipeline model with a fault budget (failing reconciles / items) checked for convergence; Backoff.tla for growth and "
         "reset. On the real runtime: TLC-scheduled failing and panicking reconciles followed by the C05 quiet-point judgement; "
         "cancellation at a TLC-schedule index chosen per behaviour and injected Errored watch events, judged for: Run returns, "
         "returns the watch error (and no error on plain cancel), no reconcile activity and no leaked goroutine after Run "
         "returned; restart sequences (error / panic / reset) of a controller, a run hook and a task judged against the "
         "back-off envelope with a fresh reconcile after every restart (TraceBackoff). "
         "Failing queue items of a QController (error, panic, requeue with and without interval, including RequeueError(err, 0)) are driven and judged against the back-off envelope with the nothing-lost rule (stage shared with C09 b), including two failing items with outcome sequences of their own (a later retry deadline of one must not hold up the other). "
         "pkg/task is specified in TaskRunner.tla (registry / live goroutines under StartTask, StopTask, Reconcile, Stop, bodies finishing, failing, panicking) and random walks are replayed on a real task.Runner with the set of executing task instances judged after every command; the output-tracking stage (panic between StartTrackingOutputs and CleanupOutputs) is shared with C08. Failures of controllers, queue items and run hooks alternate between plain errors and errors that wrap context.DeadlineExceeded / context.Canceled while the runtime is alive; long streaks of consecutive failures are part of the restart stage. Goroutine leaks are counted by stack content (goroutines with a frame of the repository's packages), not by the process-wide goroutine count.",
    note="Trusted: as C05; goroutine leak measured by process goroutine count inside the bubble.",
    technique="TLA+ pipeline/back-off models + TLC; fault-schedule replay in virtual time; TLC trace validation",
    ref="5.16"),
 "C06": dict(
    level="model_checking",
    text="TLC exhaustively checks store-operation-level models of a QTransform controller (LifecycleQT.tla) and of a Transform "
         "controller with and without input finalizers (LifecycleT.tla) against an external actor that creates / updates / tears "
         "down / destroys / re-creates the input and places foreign finalizers: `quiescent => outputs are the image of the "
         "running inputs, no orphan except held by a foreign finalizer, torn-down inputs released`. The real transform / "
         "qtransform controllers (6 option configurations) run on the real runtime in a synctest bubble while TLC-generated "
         "external histories are executed, optionally with the transform held in flight or failing transiently; the quiet "
         "snapshot is judged by TLC (TraceLifecycle.tla, JUDGE=C06). Skip mode (the transform asks to skip every reconcile from some point on) and configurations with destroy.Controller for the input type are driven as well. Configurations with an optional mapping (MapMetadataOptionalFunc turning None for an input that was mapped) and directed ignore-teardown scenarios are part of every run. Secondary input kinds read by the transform function (qtransform WithExtraMappedInput, transform WithExtraInputs) are modelled (LifecycleQT / LifecycleT with Extra: read and write of the output are separate steps, a change of the secondary queues a map job) and driven (image = 10 * input + secondary); configurations with inputs and outputs in ONE namespace are part of every run. Configurations with label-filtered inputs (transform.WithInputListOptions) are part of every run; they exposed open finding 19 (the finalizer left on an input that stops matching the filter).",
    note="Trusted: TLC, synctest quiescence, C05 (notification fairness). Known finding (ignore-teardown options) listed in "
         "known_findings.json and reproduced by the model config MC_LifecycleQT_ignore.",
    technique="TLA+ controller lifecycle models + TLC; history replay on the real controllers; TLC trace validation",
    ref="5.6"),
 "C07": dict(
    level="model_checking",
    text="Same models and executions as C06, judged on the totally ordered log of successful writes recorded by a proxy between "
         "everybody and the store: after EVERY write, an output owned by the controller exists only while its input exists and "
         "carries the controller's finalizer, and an output is destroyed only from tearing-down phase with no finalizers "
         "(TraceLifecycle.tla, JUDGE=C07); the models check FinBeforeOut as an invariant. "
         "An eighth configuration combines two cleanup handlers (cleanup.Combine) over two groups of dependents, a ninth uses WithIgnoreTeardownWhile. Configurations with destroy.Controller for the input type and skip mode are driven as well. The ordering rests on the store refusing to remove a resource that carries a finalizer: that gate is exercised on real threads over a persistent-backed state (stage shared with C03, hook traces judged by TraceInmem). Secondary-input and same-namespace configurations as in C06.",
    note="Trusted: the recording proxy serialises writes around the store call (commit order). Cleanup controllers "
         "(cleanup.NewController + RemoveOutputs) are modelled (LifecycleCL.tla) and driven as configuration CL; the controller's own "
         "writes can be parked and stepped so external operations land between any two of them. Known finding for the ignore-teardown options is listed.",
    technique="TLA+ controller lifecycle models + TLC; write-log recording; TLC trace validation after every write",
    ref="5.7"),
 "C10": dict(
    level="model_checking",
    text="TLC exhaustively checks Persist.tla (DiskWrite -> MemApply -> Ack under the lock, failing disk writes, crash in any "
         "state, lazy load that may fail): disk = result of the operations whose disk write succeeded, acknowledged operations "
         "survive, memory never ahead of disk outside the critical section, a failed write is invisible, recovery reloads "
         "disk. TLC-generated request sequences annotated with backing-store failures and crash points are executed on the "
         "real inmem state over a real bbolt file (6 marshaler stackings) through a fault-injecting BackingStore decorator; "
         "after every operation the contents through the API, the contents read back from the file and the number of watch "
         "events are recorded, after every crash the re-opened contents; TLC judges (TracePersist.tla on top of Store.tla): "
         "memory = disk = specification, failed writes invisible to memory, disk and watchers, state after restart = "
         "acknowledged prefix (+ the in-flight operation at most), all fields and creation time intact, later operations "
         "continue from it. "
         "The load is modelled as LoadStart / LoadItem* / LoadOK|LoadFail with a concurrent reader (ReadsSeeDisk); restarts whose first access is made by two clients at once (client A parked inside Load after 0 or 1 injected resources, client B issuing get / list / create) are driven and judged (raceread). Several clients writing at once to separate namespaces through one file and one marshaler stacking are judged per namespace after a reopen; hook traces of the driver show every rejected write from inside the collection. Crashes are also real: the script runs in a child process against a real bbolt file with real syncs and is killed with SIGKILL at random instants; faults also happen inside bbolt (database file at its maximum size). Injected load failures strike after k = 0..3 resources were handed over (the next access has to load cleanly).",
    note="Trusted: TLC, bbolt transaction atomicity; crashes are in-process (state dropped, file closed/re-opened) at the "
         "decorator's crash points; SIGKILL inside bbolt transactions is not driven.",
    technique="TLA+ persistence model + TLC; fault/crash-annotated replay on inmem+bbolt; TLC trace validation",
    ref="5.10"),
 "C11": dict(
    level="model_checking",
    text="Remote.tla: TLC checks that the server's class->status-code table composed with the client's code->class table is "
         "the identity for every operation and every class the wrapped state can produce, and that the Unimplemented "
         "fallback of the teardown RPCs is sticky. TLC-generated request sequences (all store requests plus Teardown / "
         "TeardownAndDestroy) are executed in lock step on a state directly and through client adapter -> real gRPC -> server "
         "on a second state, against a full and a legacy server, with five identical watches (single, bootstrap, label "
         "selectors incl. inverted set membership, aggregated) on both sides; TLC judges (TraceRemote.tla on top of Store.tla) "
         "equality of class, predicate vector, written-back version/owner/update-time fact, readiness, contents, watch streams "
         "event for event, stickiness, and agreement of the direct side with the sequential spec. Malformed.tla enumerates the "
         "wire-level request lattice (~350 shapes); a raw client sends every shape to a server in a child process; TLC judges "
         "`process alive` and `malformed => error status`. "
         "The request lattice includes requests without any options message; multi-term label / ID selectors evaluated through the wire must select what the selector algebra selects (selector stage shared with C14, remote sites). Kind watches with BOTH bootstrap options (contents and bookmark), early and late, single and aggregated, are compared between the direct and the remote state.",
    note="Trusted: TLC, gRPC. Sequential sequences only (no racing calls). Watch streams are compared after the remote side "
         "caught up (5 s budget).",
    technique="TLA+ code tables / request lattice + TLC; differential lock-step replay over real gRPC; child-process fault probe; TLC trace validation",
    ref="5.11"),
 "C13": dict(
    level="model_checking",
    text="The ring/bookmark model (WatchLog.tla) carries the arithmetic a resume relies on (recent bookmarks accepted, accepted "
         "bookmarks retained). TLC-simulated schedules of writes, watch starts (single, kind, aggregated, every option), consumer "
         "receives, transport faults (Recv fails; the next 0-2 re-Watch attempts fail) and pauses of up to 20 virtual minutes "
         "drive the real client adapter against the real server through an in-process stream shim inside a synctest bubble, "
         "while writes continue during the outage; everything the subscriber received is judged by TLC with the same judge as "
         "local watches (TraceWatch.tla: exact prefix of the committed log after the start contents - no gap, duplicate, "
         "reorder, bootstrap re-delivery - nothing missing at the end) plus: a terminal Errored after a fault is accepted only "
         "if retries are disabled, no bookmark had been seen, or the last bookmark is no longer valid. "
         "Every third fault ends the stream cleanly (the server side completes it: bare io.EOF) instead of breaking it. A regression corpus (behaviours on which defects were found) is replayed in every run. A real-wire stage runs the client adapter over a real gRPC connection to a server that is stopped and started again, with subscribers of every kind including ID and label selectors.",
    note="Trusted: TLC, synctest virtual time, the stream shim (harness code implementing grpc stream interfaces). Outages are "
         "shorter than the 15 min retry budget; real-wire server restarts are not driven.",
    technique="TLA+ ring/bookmark model + TLC; fault-schedule replay of the real client/server pair in virtual time; TLC trace validation",
    ref="5.13"),
 "C20": dict(
    level="model_checking",
    text="TLC exhaustively checks KeyStorage.tla (slots = blobs openable by one key pair, integrity tag over the blob sequence "
         "in slot order, API calls, one adversarial edit of the serialized form per API-produced storage: alter a blob, add a "
         "slot with a copied / garbage / empty blob, remove a slot, alter the tag): live slots recover the master key, no other "
         "key does, guards (double initialise, overwrite, last slot), every single edit is detected by the next retrieval on "
         "every slot. TLC-simulated sequences run on the real KeyStorage with freshly generated x25519 PGP key pairs, the "
         "adversary editing the MarshalBinary output through the public protobuf message; TLC replays every step on the model "
         "and judges success/failure of every API call and equality of the recovered master key (TraceKeyStorage.tla). "
         "The integrity tag is also stripped, truncated and zeroed. The serialized form is re-loaded into the same KeyStorage value in every second behaviour; refused calls (unusable public key) must have no effect. Calls made at the same time on one KeyStorage (real threads): two additions of the same new slot with different key pairs next to commuting calls, then a sequential epilogue; the group is written to the trace successes first (for mutually exclusive calls the only order a sequential execution can have had) and judged by the same TraceKeyStorage.",
    note="Trusted: TLC, gopenpgp. Composite adversarial edits without a retrieval in between (e.g. renaming a slot = copy + "
         "remove, which the HMAC cannot see because slot ids are not hashed) are outside the property's single-corruption quantifier.",
    technique="TLA+ key storage model with adversary + TLC; model-based replay on the real KeyStorage; TLC trace validation",
    ref="5.20"),
 "C14": dict(
    level="model_checking",
    text="Selector.tla transcribes the label-term algebra (exists / equal / in / lexical and numeric comparisons with unit "
         "suffixes, inversion, missing labels, value-less terms, non-numeric operands; AND within a query, OR across queries) "
         "over a curated string set with explicit order and parse tables; TLC checks algebraic laws (inversion duality except "
         "for `nil`, lt => lte, equal = singleton in) and emits the complete truth table (201 queries x 12 label maps). Every "
         "row is evaluated at seven sites of the real code - LabelQueries.Matches, inmem List, inmem kind watch (bootstrap and "
         "live), the runtime ResourceCache List (facade), gRPC List and gRPC kind watch (client translation -> wire -> server "
         "conversion) - and TLC judges each site's matched set against the algebra (TraceSelector.tla); ID-regexp selectors: "
         "all sites must agree with regexp.MatchString. Filtered kind watches as exact change logs of the filtered set are "
         "model-checked (WatchLog.tla rewrite rule) and replayed/judged as in C02. "
         "Selector.tla enumerates every ordered pair of representative terms as AND-row and as OR-row plus inverted/plain triples; the quick tier keeps all mixed-inversion pairs. Selectors are also checked across the re-establishment of remote watches (real gRPC connection, server restarted). Filtered subscribers also run on real threads (bursts consumed as one batch by a lagging watcher), judged at the collection's linearization points.",
    note="Trusted: TLC, Go's regexp engine, the curated string tables (10 strings).",
    technique="TLA+ selector algebra + TLC truth-table enumeration; table replay at every selector site; TLC trace validation",
    ref="5.14"),
 "C19": dict(
    level="model_checking",
    text="Alias.tla models caller-held objects as handles onto heap cells with copy-on-write containers (metadata copies share "
         "the backing cell until one of them is written, as kv.KV and Finalizers do) and the store's own deep copies; TLC "
         "checks the frame condition `a mutation through one handle changes nothing else` and, as a vacuity guard, that the "
         "write-in-place variant of the model violates it. TLC-generated programs (create / get / list / update / modify "
         "with the callback's object retained / metadata copies by Copy() and by struct assignment, interleaved with every "
         "public mutator: labels Set/Delete/Do (transactions starting with a set and with a removal), annotations Set/Delete/Do, finalizers Add/Remove/Set, phase, version, owner, spec) run on "
         "the in-memory state, the gRPC stack and the runtime ResourceCache fed from a kind watch exactly as the runtime does; "
         "after every step the store contents (read independently), a watch-fed replica and every held object are logged and "
         "TLC judges that a mutation changed only the mutated handle (TraceAlias.tla). "
         "Filtered lists (label query, ID query) are part of the programs on every stack. Resources with several finalizers and twin holders of one lineage (append-in-place vs copy-on-write) are part of the programs; hook traces of the in-memory collection show any change of a stored object from inside. Two more stacks run the same programs on typed resources whose spec is a protobuf message (protobuf.ResourceSpec, base value the empty message).",
    note="Trusted: TLC, the canonical rendering of resources in harness/c19. Watch-delivered event objects are never mutated "
         "(no isolation promised for them).",
    technique="TLA+ heap/copy-on-write model + TLC; program replay on three stacks; TLC trace validation",
    ref="5.19"),
 "C18": dict(
    level="exploration",
    text="PARTIAL CLAIM. Codec.tla is the case analysis: layer stackings (protobuf; compression with its 0x00/id marker and "
         "size threshold; AES-GCM with version byte and nonce; both nestings), both sides of the threshold, tamper / truncate / "
         "wrong-key, and the acceptable outcome classes (never a panic; an encrypted record never decodes to a different "
         "resource; wrong key rejected; raw-vs-compressed dispatch unambiguous); TLC checks these laws and enumerates 2592 "
         "abstract metadata shapes. The harness concretises the shapes and round-trips them through all 6 stackings (threshold "
         "placed exactly at / just above the inner encoding size), the protobuf wire form, metadata YAML and version/phase "
         "text forms, and decodes every truncation and four substitutions per byte of every stacking's encoding plus a wrong "
         "key, each under recover; TLC judges the outcome classes (TraceCodec.tla). Not claimed: totality over ARBITRARY byte "
         "strings (no state machine behind it; that is fuzzing territory). "
         "Records are independent values: every shape is encoded with one long-lived marshaler per stacking, the encodings are kept and decoded only after all later encodings were produced. Metadata strings include the scalars a text format gives a meaning of its own to (YAML null / boolean / number spellings, structural characters, blanks). Generic resources of an unregistered type (spec with a YAML representation, or YAML and protobuf bytes) are among the shapes sent through every stacking of the store marshalers.",
    note="Trusted: AES-GCM, zstd, TLC. Bounded neighbourhoods only. Known finding: metadata YAML truncates sub-second timestamps.",
    technique="TLA+ codec case analysis + TLC enumeration of vectors; bounded-exhaustive tamper replay; TLC trace validation",
    ref="5.18"),
}

NOT_YET = "check not built yet in this round (planned, see DESIGN.md section 5)"


def main():
    hooks_commits = []
    try:
        out = subprocess.run(["git", "-C", "/repo", "log", "--format=%h %s"], capture_output=True, text=True).stdout
        for l in out.splitlines():
            if l.split(" ", 1)[1].startswith("verif:"):
                hooks_commits.append(l.split()[0])
    except Exception:
        pass
    m = {
        "version": 1,
        "setup_cmd": "bin/setup",
        "hooks": {
            "guard": "verif",
            "enable": "go build tag: go1.26.8 test -tags verif (harness module /verif/harness with replace => /repo); trace hooks emit only when VERIF_INMEM_TRACE / VERIF_QUEUE_TRACE / VERIF_RUNTIME_TRACE name a file prefix, the delivery gate only when a harness installs it",
            "baseline_off_cmd": "cd /repo && GOFLAGS=-mod=mod go test -vet=off -count=1 -timeout 25m ./...",
            "source_commits": hooks_commits,
            "add_only": True,
        },
        "engines": [
            {"name": "tlc", "path": "/opt/veriftools/tla/tla2tools.jar", "serves_properties": sorted(CHECKS),
             "kind_free_text": "TLA+ specifications in /verif/spec checked with TLC (exhaustive, simulation, trace validation)"},
            {"name": "harness", "path": "/verif/harness", "serves_properties": sorted(CHECKS),
             "kind_free_text": "Go drivers/recorders (go1.26.8, -tags verif) replaying TLC behaviours on /repo and recording ndjson traces"},
        ],
        "checks": [],
        "notes": "Every verdict comes from TLC judging a trace recorded from the real code. exit 2 = infrastructure "
                 "problem (never a violation). known_findings.json lists genuine defects (open/fixed).",
        "not_applicable": [],
    }
    for pid in sorted(TITLES):
        if pid in CHECKS:
            c = CHECKS[pid]
            m["checks"].append({
                "property_id": pid,
                "quick_cmd": "bin/check %s quick" % pid,
                "thorough_cmd": "bin/check %s thorough" % pid,
                "evidence_file": "/verif/evidence/%s.json" % pid,
                "replay_cmd_template": "bin/replay {path}",
                "engine": "tlc",
                "level_claimed": {"category": c["level"], "text": c["text"], "design_ref": c["ref"]},
                "level_note": c["note"],
                "technique": c["technique"],
            })
        else:
            m["not_applicable"].append({"property_id": pid, "reason": NOT_YET})
    with open(os.path.join(V, "MANIFEST.json"), "w") as f:
        json.dump(m, f, indent=1)
    print("checks:", len(m["checks"]), "not_applicable:", len(m["not_applicable"]))


if __name__ == "__main__":
    main()
