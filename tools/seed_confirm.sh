#!/bin/sh
# usage: seed_confirm.sh <worktree> <demo pkg> <demo regexp> <existing-test pkgs...>
# confirms: demo fails with the change, passes without it; existing tests pass with the change
WT="$1"; PKG="$2"; RX="$3"; shift 3
cd "$WT" || exit 2
export GOFLAGS=-mod=mod GOPROXY=off
git diff -- . ':(exclude)_seed' ':(exclude)*seed_demo_test.go' > /tmp/seed.$$.diff
[ -s /tmp/seed.$$.diff ] || { echo "no source change in $WT"; exit 2; }
echo "--- demo WITH change (must fail)"; go test -vet=off -count=1 -run "$RX" "$PKG" >/tmp/seed.$$.with 2>&1; echo "rc=$?"; tail -3 /tmp/seed.$$.with
git apply -R /tmp/seed.$$.diff || exit 2
echo "--- demo WITHOUT change (must pass)"; go test -vet=off -count=1 -run "$RX" "$PKG" >/tmp/seed.$$.without 2>&1; echo "rc=$?"; tail -2 /tmp/seed.$$.without
git apply /tmp/seed.$$.diff || exit 2
DEMO=$(ls $(echo "$PKG" | sed 's#^\./##')/*seed_demo_test.go 2>/dev/null | head -1)
[ -n "$DEMO" ] && mv "$DEMO" /tmp/seed.$$.demo
echo "--- existing tests WITH change (must pass)"; go test -vet=off -count=1 "$@" 2>&1 | grep -v "no test files" | tail -8
[ -n "$DEMO" ] && mv /tmp/seed.$$.demo "$DEMO"
rm -f /tmp/seed.$$.*
