"""Shared pipeline of the controller-runtime checks (C05, C15, C16)."""
import json, os, re, copy
import vlib, pipelib

MC_CFGS = ["A", "Af", "B", "C", "D", "E", "F", "N", "G", "H"]


def model_check(ctx, cfgs):
    for c in cfgs:
        vlib.mc(ctx, "MC_Runtime", "MC_Runtime_%s.cfg" % c, timeout=3000)


def drive(ctx, gens, nbeh, depth, name="rt", hook_prop=None):
    """hook_prop: also judge the pipeline hook traces of the runtimes the driver ran (TracePipe) for that property."""
    behs = []
    for g in gens:
        behs += vlib.gen_behaviours(ctx, "GenRuntime", "GenRuntime_%s.cfg" % g, num=nbeh // len(gens), depth=depth * 6,
                                    env={"GEN_DEPTH": depth}, name="gen-" + g)[:nbeh // len(gens)]
    ctx.cov["behaviours_replayed"] += len(behs)
    ctx.sample({"controllers": behs[0]["cfg"], "cached": behs[0]["cached"], "commands_head": behs[0]["cmds"][:8]})
    inp = os.path.join(ctx.scratch, name + "-behs.json")
    json.dump(behs, open(inp, "w"))
    binary = vlib.go_build_test(ctx, "c05")
    out = os.path.join(ctx.scratch, name + ".ndjson")
    henv, hdir = pipelib.traced(ctx, name) if hook_prop else ({}, None)
    vlib.go_run(ctx, binary, "TestRuntime", dict({"VERIF_IN": inp, "VERIF_OUT": out}, **henv), timeout=3000)
    if hook_prop:
        pipelib.judge_driver(ctx, hook_prop, hdir, "TestRuntime(%s)" % name)
    if ctx.tier == "thorough" and name == "rt":
        vlib.race_stage(ctx, "c05", "TestRuntime", {"VERIF_IN": inp, "VERIF_OUT": out})
    return behs, out


def judge(ctx, behs, out, whats, prop):
    recs = vlib.read_ndjson(out)
    traces = vlib.split_traces(recs)
    mism, consumed, r = vlib.validate(ctx, "TraceRuntime", "TraceRuntime.cfg", out, timeout=3000)
    if consumed != len(recs):
        raise vlib.Infra("TraceRuntime consumed %s of %d\n%s" % (consumed, len(recs), r.out[-2500:]))
    details = [x for x in r.out.splitlines() if x.startswith('<<"DETAIL"')]
    ctx.cov["traces_validated_against_impl"] += len(traces)
    ctx.cov["reconciles_recorded"] = len([x for x in recs if x["ev"] in ("rrec", "qrec")])
    ctx.cov["cached_reads_recorded"] = len([x for x in recs if x["ev"] == "cread"])
    ctx.sample({"trace_head": [{k: v for k, v in x.items() if v not in ("", [], False, 0)} for x in recs[1:8]]})
    bad = set()
    other = 0
    for i, line in enumerate(mism):
        m = re.match(r'<<"MISMATCH", "([^"]*)", (\d+), "([^"]*)">>', line)
        tid, lno, what = m.group(1), int(m.group(2)), m.group(3)
        bad.add(tid)
        if whats is not None and what not in whats:
            other += 1
            continue
        ctx.violation(what, "%s at line %d: %s" % (what, lno, (details[i] if i < len(details) else "")[:800]),
                      {"tid": tid, "line": lno, "behaviour": behs[int(tid.split("#")[1])],
                       "trace": [t for t in traces if t[0] == tid][0][1]})
    ctx.cov["rejections_belonging_to_sibling_property"] = other
    return recs, traces, bad


def selftest(ctx, traces, bad):
    """Drop the last reconcile record of a controller: the quiet point must be rejected."""
    for tid, t in traces:
        if tid in bad:
            continue
        idx = [i for i, x in enumerate(t) if x["ev"] in ("rrec", "qrec")]
        writes = [i for i, x in enumerate(t) if x["ev"] == "write"]
        if not idx or not writes:
            continue
        t2 = copy.deepcopy(t)
        # make every reconcile record look stale: bump the version of the last written key
        last = t2[writes[-1]]
        if last["del"]:
            continue
        last["ver"] += 5
        p = os.path.join(ctx.scratch, "rtself.ndjson")
        vlib.write_ndjson(p, t2)
        m2, _, _ = vlib.validate(ctx, "TraceRuntime", "TraceRuntime.cfg", p, name="selftest")
        ctx.cov["binding_selftest"].append({"corrupted": "version of the last write (observations become stale)", "rejected": len(m2) > 0})
        if not m2:
            continue
        return
    raise vlib.Infra("binding self-test: no corrupted runtime trace was rejected")


def registration_races(ctx, binary=None):
    """Directed schedules (real time, no bubble; harness/c17 race_test.go): an event is being delivered while a registration is
    half-way through and holds the registration lock - one that will be rejected and rolled back (a crash of the delivery goroutine
    takes the process down), and one that is accepted and appends to the routing table the delivery goroutine has just read."""
    binary = binary or vlib.go_build_test(ctx, "c17")
    for test in ("TestRejectedRegistrationRace", "TestAcceptedRegistrationRace"):
        rc, o = vlib.go_run(ctx, binary, test, {}, timeout=600, allow_fail=True)
        ctx.cov["registration_race_rounds"] = ctx.cov.get("registration_race_rounds", 0) + 3
        if rc == 0:
            continue
        if re.search(r"panic|SIGSEGV|fatal error", o) and "github.com/cosi-project/runtime/pkg/controller/runtime" in o:
            ctx.violation("runtime-crashed/delivery-during-rejected-registration",
                          "event delivered while a registration that is rejected and rolled back holds the registration lock: the delivery "
                          "goroutine crashed the process", {"driver": test, "output": o[o.find("panic"):][:3000]})
        elif "not notified" in o or "was accepted" in o or "was rejected" in o or "did not return" in o:
            ctx.violation("registration-race/" + ("notification-lost" if "not notified" in o else "other"),
                          "registration racing an event delivery (%s): %s" % (test, o[-600:]), {"driver": test, "output": o[-3000:]})
        else:
            raise vlib.Infra(test + " failed without a verdict:\n" + o[-3000:])
