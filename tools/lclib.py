"""Shared pipeline of the lifecycle checks (C06, C07)."""
import json, os, re, copy
import vlib

C07_WHATS = {"output-destroyed-without-teardown", "finalizer-not-on-input-while-output-exists",
             "finalizer-not-on-input-ignore-teardown", "cleanup-finalizer-released-early"}
C06_WHATS = {"not-converged", "not-converged-ignore-teardown-orphan", "finalizer-left-on-unmapped-input", "finalizer-left-on-filtered-out-input",
             "write-log-incomplete"}


def model_check(ctx, quick):
    vlib.mc(ctx, "LifecycleQT", "MC_LifecycleQT.cfg", timeout=1200)
    vlib.mc(ctx, "LifecycleT", "MC_LifecycleT_TRUE.cfg", timeout=1200)
    vlib.mc(ctx, "LifecycleT", "MC_LifecycleT_FALSE.cfg", timeout=1200)
    vlib.mc(ctx, "LifecycleCL", "MC_LifecycleCL.cfg", timeout=1200)
    # secondary input kinds (qtransform: extra mapped input; transform: extra input) read by the transform function
    vlib.mc(ctx, "LifecycleQT", "MC_LifecycleQT_extra.cfg", timeout=1200)
    vlib.mc(ctx, "LifecycleT", "MC_LifecycleT_extra.cfg", timeout=1200)
    # the named deviation must be reproduced by the model (documented design counterexample)
    r = vlib.tlc(ctx, "LifecycleQT", "MC_LifecycleQT_ignore.cfg", timeout=600)
    ctx.cov["named_deviation_InputFirstSeenTearingDown_in_model"] = (r.inv == "FinBeforeOut")
    if r.inv != "FinBeforeOut":
        raise vlib.Infra("the ignore-teardown model no longer shows the named deviation (inv=%s err=%s)" % (r.inv, r.error))


def run(ctx, whats, nbeh, depth, judge="C07"):
    behs = vlib.gen_behaviours(ctx, "GenLifecycle", "GenLifecycle.cfg", num=nbeh, depth=depth * 3, env={"GEN_DEPTH": depth})[:nbeh]
    # directed scenario for the open findings C07/finalizer-not-on-input-ignore-teardown and
    # C06/not-converged-ignore-teardown-orphan (known_findings.json), replayed with controller configuration 5
    # (qtransform, ignore-teardown-until) so that every run reports them deterministically
    def c(op, id=1, v=1):
        return {"c": op, "id": id, "v": v}
    behs[5] = [c("arm"), c("create", 2, 1), c("create", 1, 1), c("addX", 1), c("td", 1), c("release"), c("wait"),
               c("arm"), c("update", 2, 2), c("remX", 1), c("destroy", 1), c("release"), c("wait")]
    # the same beginning, but nobody destroys the input: once the foreign finalizer is gone the controller must clean the output up
    # although the input never carried its finalizer (configurations 5 and 8: ignore-teardown-until / -while; 19 configurations)
    for idx in (24, 27):
        if len(behs) > idx:
            behs[idx] = [c("arm"), c("create", 2, 1), c("create", 1, 1), c("addX", 1), c("td", 1), c("release"), c("wait"),
                         c("remX", 1), c("wait")]
    # optional mapping (configuration 11 of 19): an input that carries the controller's finalizer stops being mapped, then is torn down
    if len(behs) > 11:
        behs[11] = [c("create", 1, 1), c("create", 2, 2), c("wait"), c("update", 1, 3), c("wait"), c("td", 1), c("wait")]
    # filtered inputs (configuration 17 of 19, transform.WithInputListOptions): the same for an input that stops matching the filter
    if len(behs) > 17:
        behs[17] = [c("create", 1, 1), c("create", 2, 2), c("wait"), c("update", 1, 3), c("wait"), c("td", 1), c("wait")]
    # inputs and outputs in one namespace (configurations 14 and 15 of 19): a foreign finalizer on the output, the input torn down /
    # destroyed, the controller idle, then the foreign finalizer goes: the controller has to be woken by its output becoming
    # destroy-ready (seed C06-6)
    if len(behs) > 15:
        behs[14] = [c("create", 1, 1), c("wait"), c("addF", 1), c("td", 1), c("wait"), c("remF", 1), c("wait")]
        behs[15] = [c("create", 1, 1), c("wait"), c("addF", 1), c("destroy", 1), c("wait"), c("remF", 1), c("wait")]
    ctx.cov["directed_known_finding_scenarios"] = 1
    ctx.cov["behaviours_replayed"] = len(behs)
    ctx.sample({"external_ops_head": behs[0][:10]})
    inp = os.path.join(ctx.scratch, "lbehs.json")
    json.dump(behs, open(inp, "w"))
    binary = vlib.go_build_test(ctx, "c06")
    out = os.path.join(ctx.scratch, "lifecycle.ndjson")
    vlib.go_run(ctx, binary, "TestLifecycle", {"VERIF_IN": inp, "VERIF_OUT": out}, timeout=3000)
    recs = vlib.read_ndjson(out)
    traces = vlib.split_traces(recs)
    mism, consumed, r = vlib.validate(ctx, "TraceLifecycle", "TraceLifecycle.cfg", out, timeout=3000, env={"JUDGE": judge})
    if consumed != len(recs):
        raise vlib.Infra("TraceLifecycle consumed %s of %d\n%s" % (consumed, len(recs), r.out[-2500:]))
    details = [x for x in r.out.splitlines() if x.startswith('<<"DETAIL"')]
    ctx.cov["traces_validated_against_impl"] += len(traces)
    ctx.cov["writes_judged"] = len([x for x in recs if x["ev"] == "w"])
    ctx.cov["secondary_input_writes"] = len([x for x in recs if x["ev"] == "w" and x["kind"] == "ext"])
    ctx.cov["quiet_outputs_with_secondary_contribution"] = len([o for x in recs if x["ev"] == "quiet" for o in x["outs"] if o["v"]["val"] % 10 != 0])
    ctx.sample({"write_log_head": [{k: v for k, v in x.items() if k in ("ev", "kind", "id", "op", "v")} for x in recs[1:7]]})
    bad, other = set(), 0
    for i, line in enumerate(mism):
        m = re.match(r'<<"MISMATCH", "([^"]*)", (\d+), "([^"]*)">>', line)
        tid, lno, what = m.group(1), int(m.group(2)), m.group(3)
        bad.add(tid)
        if what not in whats:
            other += 1
            continue
        ctx.violation(what, "%s at line %d (controller config %s): %s" % (what, lno, tid.split("#")[0], (details[i] if i < len(details) else "")[:700]),
                      {"tid": tid, "line": lno, "behaviour": behs[int(tid.split("#")[1])],
                       "trace": [t for t in traces if t[0] == tid][0][1]})
    ctx.cov["rejections_belonging_to_sibling_property"] = other
    for tid, t in traces:
        idx = [i for i, x in enumerate(t) if x["ev"] == "w" and x["kind"] == "out" and x["op"] == "create"]
        if tid in bad or not idx or not t[0]["fin"]:
            continue
        # self-test: drop the AddFinalizer write that precedes the first output creation
        t2 = copy.deepcopy(t)
        fin = [i for i, x in enumerate(t2[:idx[0]]) if x["ev"] == "w" and x["kind"] == "in" and t2[0]["ctrl"] in x["v"]["fins"]]
        if not fin:
            continue
        for i in fin:
            t2[i]["v"]["fins"] = [f for f in t2[i]["v"]["fins"] if f != t2[0]["ctrl"]]
        p = os.path.join(ctx.scratch, "lself.ndjson")
        vlib.write_ndjson(p, t2)
        m2, _, _ = vlib.validate(ctx, "TraceLifecycle", "TraceLifecycle.cfg", p, name="selftest", env={"JUDGE": "C07"})
        ctx.cov["binding_selftest"].append({"corrupted": "controller finalizer removed from the input writes before the output was created", "rejected": len(m2) > 0})
        if not m2:
            raise vlib.Infra("binding self-test: corrupted lifecycle trace accepted")
        break
