"""Transition traces of the reconcile queue's event loop (hooks in .../qruntime/internal/queue, build tag verif), recorded while
the repository's own test suites (and the harness drivers) run, judged by TLC with the property-level queue judge TraceQueue.tla.
This module only runs the tests, groups the lines by queue and rewrites them into the judge's vocabulary (put / get / release /
len); it decides nothing."""
import collections, concurrent.futures, glob, json, os, subprocess, time

import vlib
from vlib import Infra

QUICK_PKGS = ["./pkg/controller/runtime/internal/qruntime/...", "./pkg/controller/generic/qtransform/..."]
THOROUGH_PKGS = QUICK_PKGS + ["./pkg/controller/runtime/", "./pkg/controller/generic/..."]


def run_repo_tests(ctx, pkgs, name, timeout=1500):
    d = ctx.sub("queuetrace-" + name)
    e = vlib.go_env()
    e["VERIF_QUEUE_TRACE"] = os.path.join(d, "t")
    cmd = ["timeout", "-k", "10", str(timeout), vlib.GO, "test", "-tags", "verif", "-vet=off", "-count=1", "-timeout", "%ds" % timeout] + pkgs
    t = time.time()
    p = subprocess.run(cmd, cwd=vlib.REPO, env=e, stdout=subprocess.PIPE, stderr=subprocess.STDOUT, text=True)
    files = sorted(glob.glob(os.path.join(d, "t.*.ndjson")))
    ctx.log("repo tests (queue hooks) %s rc=%d %.1fs -> %d trace files" % (name, p.returncode, time.time() - t, len(files)))
    return files, p.returncode, p.stdout


def traces_of(files, max_lines=6000):
    """-> list of traces in TraceQueue's vocabulary, one per queue (long ones are cut: the judge's state is a prefix property)."""
    traces = []
    for f in files:
        by = collections.OrderedDict()
        with open(f) as fh:
            for ln in fh:
                try:
                    r = json.loads(ln)
                except ValueError:
                    continue
                by.setdefault(r["q"], []).append(r)
        for q, rs in by.items():
            rs.sort(key=lambda r: r["seq"])
            t = [{"ev": "reset", "tid": "%s#q%d" % (os.path.basename(f).replace(".ndjson", ""), q)}]
            for r in rs[:max_lines]:
                if r["ev"] == "put":
                    t.append({"ev": "put", "k": r["k"], "v": r["v"], "now": r["now"]})
                elif r["ev"] == "get":
                    t.append({"ev": "get", "w": r["k"], "got": "item", "k": r["k"], "v": r["v"], "now": r["now"]})
                elif r["ev"] == "release":
                    t.append({"ev": "release", "w": r["k"], "at": r["at"], "now": r["now"]})
                else:
                    continue
                t.append({"ev": "len", "n": r["n"]})
            if len(t) > 1:
                traces.append(t)
    return traces


def judge(ctx, traces, name, limit=4000, timeout=1800):
    work, cur, n = [], [], 0
    for t in traces:
        if cur and n + len(t) > limit:
            work.append(cur)
            cur, n = [], 0
        cur.append(t)
        n += len(t)
    if cur:
        work.append(cur)
    found, total = [], 0

    def one(i):
        flat = [r for t in work[i] for r in t]
        path = os.path.join(ctx.sub("traces"), "%s-%d.ndjson" % (name, i))
        vlib.write_ndjson(path, flat)
        mism, consumed, r = vlib.validate(ctx, "TraceQueue", "TraceQueue.cfg", path, name="%s-%d" % (name, i), timeout=timeout, heap="2g")
        if consumed != len(flat):
            raise Infra("TraceQueue consumed %s of %d lines:\n%s" % (consumed, len(flat), "\n".join(r.out.splitlines()[-25:])))
        details = [ln for ln in r.out.splitlines() if ln.startswith('<<"DETAIL"')]
        res = []
        for k, m in enumerate(mism):
            tid, line, rest = vlib.parse_mismatch(m)
            res.append((tid, line, rest.strip().strip('"'), flat[line - 1] if 0 < line <= len(flat) else None, details[k][:1200] if k < len(details) else ""))
        return len(flat), res

    with concurrent.futures.ThreadPoolExecutor(max_workers=max(1, min(len(work), vlib.NCPU // 2))) as ex:
        for n, res in ex.map(one, range(len(work))):
            total += n
            found += res
    return total, found


def report(ctx, found, source):
    for tid, line, kind, rec, detail in found:
        ctx.violation("queue-hook/%s" % kind, "%s: queue event-loop trace %s line %d: %s (%s) %s" % (source, tid, line, kind, json.dumps(rec)[:300], detail[:400]),
                      {"source": source, "tid": tid, "line": line, "kind": kind, "record": rec, "detail": detail})


def stage(ctx, tier, name="repo-queue"):
    files, rc, out = run_repo_tests(ctx, QUICK_PKGS if tier == "quick" else THOROUGH_PKGS, name)
    if not files:
        raise Infra("the repository's tests produced no queue hook traces (rc=%d):\n%s" % (rc, out[-3000:]))
    traces = traces_of(files)
    total, found = judge(ctx, traces, name)
    ctx.cov["traces_validated_against_impl"] += len(traces)
    ctx.cov.setdefault("queue_hook_lines", 0)
    ctx.cov["queue_hook_lines"] += total
    ctx.cov.setdefault("queue_hook_sources", []).append({"packages": QUICK_PKGS if tier == "quick" else THOROUGH_PKGS, "queues": len(traces), "lines": total, "go_test_rc": rc})
    ctx.log("queue hook traces: %d queues, %d lines, %d mismatches" % (len(traces), total, len(found)))
    report(ctx, found, "repository tests")
    return traces


def traced(ctx, name):
    d = ctx.sub("queuetrace-" + name)
    return {"VERIF_QUEUE_TRACE": os.path.join(d, "t")}, d


def judge_driver(ctx, d, name):
    files = sorted(glob.glob(os.path.join(d, "t.*.ndjson")))
    if not files:
        raise Infra("driver %s left no queue hook traces" % name)
    traces = traces_of(files)
    total, found = judge(ctx, traces, name)
    ctx.cov["traces_validated_against_impl"] += len(traces)
    ctx.cov.setdefault("queue_hook_lines", 0)
    ctx.cov["queue_hook_lines"] += total
    ctx.log("queue hook traces of driver %s: %d queues, %d lines, %d mismatches" % (name, len(traces), total, len(found)))
    report(ctx, found, "driver " + name)
    for f in files:
        os.remove(f)
