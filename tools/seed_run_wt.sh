#!/bin/sh
# usage: seed_run_wt.sh <worktree with the seeded change applied> <check ids...>
# runs the checks (quick unless TIER is set) against the scratch tree, leaving /repo and /verif/evidence untouched
WT="$1"; shift
E=$(mktemp -d /tmp/seed-evid.XXXXXX)
for id in "$@"; do
  out=$(VERIF_REPO="$WT" VERIF_EVID="$E" /verif/bin/check "$id" "${TIER:-quick}" 2>&1); rc=$?
  echo "$id rc=$rc :: $(echo "$out" | grep -E 'done:|INFRA' | tail -1 | cut -c1-160)"
  echo "$out" | grep -E "^  key=" | head -4 | cut -c1-300
done
rm -rf "$E"
