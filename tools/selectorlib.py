"""Selector stage shared by C14 (all sites) and C11 (remote sites): the term algebra of Selector.tla is checked and emitted
by TLC as a table (rows = selectors, maps = label maps), evaluated at every site of the real code, judged by TraceSelector."""
import json, os, re
import vlib


def run(ctx, quick, sites=None, only_multi=False, prefix=""):
    # the term algebra, checked and emitted by TLC
    r = vlib.tlc(ctx, "MC_Selector", "MC_Selector.cfg", workers=1, timeout=900)
    if not r.completed:
        raise vlib.Infra("MC_Selector did not complete: %s\n%s" % (r.inv or r.error, r.out[-1500:]))
    tab = None
    for line in r.out.splitlines():
        if line.startswith('<<"BEH"'):
            tab = json.loads(vlib._tla_unquote(re.match(r'<<"BEH", (".*")>>$', line).group(1)))
    if not tab:
        raise vlib.Infra("selector table not emitted")
    tab["rows"].sort(key=lambda x: json.dumps(x, sort_keys=True))
    nrows, nmaps = len(tab["rows"]), len(tab["maps"])
    ctx.cov[prefix.replace("/", "_") + "table_rows"] = nrows
    ctx.cov[prefix.replace("/", "_") + "label_maps"] = nmaps
    ctx.cov["states"] += nrows * nmaps           # truth-table cells evaluated by the specification
    ctx.cov["transitions"] += nrows * nmaps
    if not prefix:
        ctx.cov["exhaustive"] = not quick
    if only_multi and not quick:
        tab["rows"] = [x for x in tab["rows"] if len(x) != 1 or len(x[0]) != 1]
    if quick:
        # stratified: a third of the single-term rows, a third of the systematic multi-term rows (every ordered pair of
        # representative terms occurs as AND-row or OR-row in each third), all hand-written combinations
        def multi(x):
            return len(x) != 1 or len(x[0]) != 1
        single = [x for x in tab["rows"] if not multi(x)]
        multis = [x for x in tab["rows"] if multi(x)]
        tab["rows"] = ([] if only_multi else [x for i, x in enumerate(single) if (i + ctx.seed) % 3 == 0]) + \
                      [x for i, x in enumerate(multis) if (i + ctx.seed) % 2 == 0 or len(x) == 1 and len(x[0]) == 2 and x[0][0]["invert"] != x[0][1]["invert"]]
    ctx.cov[prefix.replace("/", "_") + "multi_term_rows"] = len([x for x in tab["rows"] if len(x) != 1 or len(x[0]) != 1])
    ctx.cov["behaviours_replayed"] += len(tab["rows"])
    ctx.sample({"row": tab["rows"][1], "maps": tab["maps"]})
    inp = os.path.join(ctx.scratch, "table.json")
    json.dump(tab, open(inp, "w"))
    binary = vlib.go_build_test(ctx, "c14")
    out = os.path.join(ctx.scratch, "selectors.ndjson")
    vlib.go_run(ctx, binary, "TestSelectors", {"VERIF_IN": inp, "VERIF_OUT": out, "VERIF_ALL_WATCHES": 0 if quick else 1}, timeout=3000)
    recs = vlib.read_ndjson(out)
    mism, consumed, vr = vlib.validate(ctx, "TraceSelector", "TraceSelector.cfg", out, timeout=3000)
    if consumed != len(recs):
        raise vlib.Infra("TraceSelector consumed %s of %d\n%s" % (consumed, len(recs), vr.out[-2500:]))
    details = [x for x in vr.out.splitlines() if x.startswith('<<"DETAIL"')]
    ctx.cov["traces_validated_against_impl"] += len(recs)
    ctx.cov[prefix.replace("/", "_") + "site_evaluations"] = {s: len([x for x in recs if x["site"] == s]) for s in sorted({x["site"] for x in recs})}
    ctx.sample({"site_line": recs[1]})
    for i, line in enumerate(mism):
        m = re.match(r'<<"MISMATCH", "([^"]*)", (\d+), "([^"]*)">>', line)
        site, lno, what = m.group(1), int(m.group(2)), m.group(3)
        rec = recs[lno - 1]
        ops = sorted({t["op"] + ("/novalue" if not t["vals"] else "") + ("/inverted" if t["invert"] else "") for q in rec["row"] for t in q})
        if sites is not None and site not in sites:
            continue
        ctx.violation(prefix + "%s/%s/%s" % (what, site, ",".join(ops)[:80]), "%s: %s" % (what, (details[i] if i < len(details) else "")[:700]), {"record": rec})
    return recs
