"""Shared pipeline of the helper checks (C03, C04): Helpers model -> schedules -> gating proxy -> TraceHelpers."""
import json, os, re, copy
import vlib

C03_WHATS = {"error-without-justification", "finalizer-write-not-as-requested", "tad-gave-up-on-stale-state", "removed-with-finalizers", "ready-with-finalizers", "tad-success-not-gone", "watchfor-not-first-match",
             "ctx-cancelled-spuriously", "missed-wakeup", "ctx-not-cancelled", "stale-read", "final-contents"}
C04_WHATS = {"error-without-justification", "finalizer-write-not-as-requested", "error-had-effect", "applied-twice", "conflict-retried-into-success", "returned-not-written",
             "returned-not-current", "noop-success-without-effect", "success-in-wrong-phase", "rmw-not-on-current", "rmw-not-on-current-aba", "mutation-lost", "ready-with-finalizers",
             "update-version", "rmw-call-never-returned", "create-over-existing", "modify-create-content", "unexpected-update", "stale-read",
             "final-contents"}


def run(ctx, prop, gens, whats, nbeh, depth=80):
    behs = []
    for cfg in gens:
        behs += vlib.gen_behaviours(ctx, "GenHelpers", cfg, num=nbeh // len(gens), depth=depth * 3,
                                    env={"GEN_DEPTH": depth, "GEN_ALT": 1 if ("race" in cfg or "idem" in cfg or "same" in cfg or "fins" in cfg) else 0,
                                         "GEN_LEAD": 4 if "fins" in cfg else 0}, name="gen-" + cfg)[:nbeh // len(gens)]
    # distinct behaviours only
    seen, uniq = set(), []
    for b in behs:
        k = json.dumps(b, sort_keys=True)
        if k not in seen:
            seen.add(k)
            uniq.append(b)
    behs = uniq
    if prop == "C04":
        # directed schedule for the open finding C04/rmw-not-on-current-aba/update (known_findings.json):
        # actor 1's UpdateWithConflicts reads incarnation 1, actor 2 destroys and re-creates the resource
        # (version restarts at 1), actor 1's stale Update then succeeds on incarnation 2
        def call(h, tok=""):
            return {"h": h, "tok": tok, "fin": "", "owner": "", "exp": "any", "cond": "any"}
        # (the two incarnations carry different contents - t3 on the first, t2 on the second, both at version 2 - so that the
        # stale write is visible whatever else the run generated)
        behs.insert(0, {"prog": [[call("uwc", "t1")], [call("destroy"), call("create"), call("uwc", "t2")], [call("create"), call("uwc", "t3")]],
                        "sched": [{"a": a, "k": "step"} for a in (3, 3, 3, 1, 2, 2, 2, 2, 1, 1, 1, 2, 3)]})
        ctx.cov["directed_known_finding_scenarios"] = 1
    ctx.cov["behaviours_replayed"] = len(behs)
    ctx.cov["distinct_schedules"] = len(behs)
    ctx.sample({"programs": behs[0]["prog"], "schedule_head": behs[0]["sched"][:10]})
    inp = os.path.join(ctx.scratch, "hbehs.json")
    json.dump(behs, open(inp, "w"))
    binary = vlib.go_build_test(ctx, "c03")
    out = os.path.join(ctx.scratch, "helpers.ndjson")
    vlib.go_run(ctx, binary, "TestHelpers", {"VERIF_IN": inp, "VERIF_OUT": out}, timeout=2400)
    recs = vlib.read_ndjson(out)
    traces = vlib.split_traces(recs)
    mism, consumed, r = vlib.validate(ctx, "TraceHelpers", "TraceHelpers.cfg", out, timeout=2400)
    if consumed != len(recs):
        raise vlib.Infra("TraceHelpers consumed %s of %d lines\n%s" % (consumed, len(recs), r.out[-3000:]))
    details = [x for x in r.out.splitlines() if x.startswith('<<"DETAIL"')]
    ctx.cov["traces_validated_against_impl"] += len(traces)
    ctx.sample({"trace_head": [{k: v for k, v in x.items() if v not in ("", [], False, 0)} for x in recs[1:9]]})
    bad = set()
    other = 0
    for i, line in enumerate(mism):
        m = re.match(r'<<"MISMATCH", "([^"]*)", (\d+), "([^"]*)">>', line)
        tid, lno, what = m.group(1), int(m.group(2)), m.group(3)
        bad.add(tid)
        if what not in whats:
            other += 1
            continue
        rec = recs[lno - 1]
        idx = int(tid.split("#")[1])
        key = "%s/%s" % (what, rec.get("h") or rec.get("op") or rec.get("ev"))
        ctx.violation(key, "%s at line %d (%s): %s" % (what, lno, json.dumps({k: v for k, v in rec.items() if v not in ("", [], False)}),
                                                     details[i][:700] if i < len(details) else ""),
                      {"tid": tid, "line": lno, "behaviour": behs[idx],
                       "trace": [t for t in traces if t[0] == tid][0][1]})
    ctx.cov["rejections_belonging_to_sibling_property"] = other
    # binding self-test: flip the outcome of one successful read-modify-write return
    for tid, t in traces:
        if tid in bad:
            continue
        idx = [i for i, x in enumerate(t) if x["ev"] == "op" and x["op"] == "update" and x["cls"] == "ok"]
        if not idx:
            continue
        t2 = copy.deepcopy(t)
        t2[idx[0]]["v"]["toks"] = t2[idx[0]]["v"]["toks"] + ["zz"]
        p = os.path.join(ctx.scratch, "hselftest.ndjson")
        vlib.write_ndjson(p, t2)
        m2, _, _ = vlib.validate(ctx, "TraceHelpers", "TraceHelpers.cfg", p, name="selftest")
        ctx.cov["binding_selftest"].append({"corrupted": "written value of one update", "rejected": len(m2) > 0})
        if not m2:
            raise vlib.Infra("binding self-test: corrupted helper trace accepted")
        break
    return behs, traces


def finalizer_threads(ctx, prop, quick):
    """the finalizer gate on real threads (persistent-backed and plain in-memory state): an owner creating / tearing down /
    destroying, parties adding and removing their finalizers; judged at the collection's linearization points (hook traces,
    TraceInmem): no destroy commits on a stored value that carries a finalizer. Shared by C03 and C07 (the controllers'
    finalizer ordering rests on this gate of the store)."""
    import inmemlib
    inmemlib.KINDS.setdefault(prop, inmemlib.KINDS["C03"])
    binary = vlib.go_build_test(ctx, "c03")
    henv, hdir = inmemlib.traced(ctx, "finthreads")
    rounds = 40 if quick else 1200
    vlib.go_run(ctx, binary, "TestFinalizerThreads", dict({"VERIF_ROUNDS": rounds}, **henv), timeout=2400)
    tr = inmemlib.judge_driver(ctx, prop, hdir, "TestFinalizerThreads")
    ctx.cov["threaded_finalizer_rounds"] = rounds
    ctx.cov["threaded_destroys_committed"] = len([1 for t in tr for x in t if x.get("ev") == "op" and x.get("op") == "destroy" and x.get("br") == "ok"])
