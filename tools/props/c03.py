"""C03 - finalizers gate destruction; blocking lifecycle helpers never miss or jump."""
import vlib, helperlib


def run(ctx):
    quick = ctx.tier == "quick"
    vlib.mc(ctx, "MC_Helpers", "MC_Helpers_c03.cfg", timeout=1800)
    vlib.mc(ctx, "MC_Helpers", "MC_Helpers_live.cfg", timeout=1800)   # liveness under fairness
    vlib.mc(ctx, "MC_Helpers", "MC_Helpers_c03re.cfg", timeout=1800)  # blocked watchers across a re-creation
    vlib.mc(ctx, "MC_Helpers", "MC_Helpers_c03fins.cfg", timeout=1800)  # three parties' finalizers after an earlier removal
    helperlib.run(ctx, "C03", ["GenHelpers_C03.cfg", "GenHelpers_C03re.cfg", "GenHelpers_C03fins.cfg"], helperlib.C03_WHATS, 600 if quick else 12000)
    helperlib.finalizer_threads(ctx, "C03", quick)
    ctx.assumptions += [
        "interleavings are at the granularity of underlying CoreState calls and watch deliveries (gating proxy)",
        "liveness (TadCompletes) is model-checked; on the code a missed wake-up shows as a blocked call at the quiescent end",
        "WatchFor conditions driven: finalizers-empty, destroyed event, any",
    ]


if __name__ == "__main__":
    vlib.main(run, "C03")
