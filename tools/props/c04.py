"""C04 - read-modify-write helpers are atomic under contention."""
import vlib, helperlib


def run(ctx):
    quick = ctx.tier == "quick"
    vlib.mc(ctx, "MC_Helpers", "MC_Helpers_c04.cfg", timeout=1800)
    vlib.mc(ctx, "MC_Helpers", "MC_Helpers_c04idem.cfg", timeout=1800)  # idempotent mutators racing a teardown
    helperlib.run(ctx, "C04", ["GenHelpers_C04.cfg", "GenHelpers_C04race.cfg", "GenHelpers_C04idem.cfg", "GenHelpers_C04same.cfg", "GenHelpers_C03.cfg"], helperlib.C04_WHATS, 1000 if quick else 15000)
    ctx.assumptions += [
        "mutators are label tokens; lost / duplicated / misplaced updates are visible as token-set differences",
        "named deviation RecreateSameVersionABA (see DESIGN.md): reported under its own key",
    ]


if __name__ == "__main__":
    vlib.main(run, "C04")
