"""C20 - key storage: master key recoverable via live slots only; tampering detected."""
import json, os, re, copy
import vlib


def run(ctx):
    quick = ctx.tier == "quick"
    vlib.mc(ctx, "KeyStorage", "MC_KeyStorage.cfg" if quick else "MC_KeyStorage_thorough.cfg", timeout=2400)
    n = 300 if quick else 6000
    behs = vlib.gen_behaviours(ctx, "GenKeyStorage", "GenKeyStorage.cfg", num=n, depth=80)[:n]
    ctx.cov["behaviours_replayed"] = len(behs)
    ctx.cov["adversarial_actions"] = sum(1 for b in behs for c in b if c["op"] in ("alterBlob", "backdoorAdd", "backdoorRemove", "alterTag"))
    ctx.sample({"ops": [{k: v for k, v in c.items() if v not in (0, "")} for c in behs[0]]})
    inp = os.path.join(ctx.scratch, "kbehs.json")
    json.dump(behs, open(inp, "w"))
    binary = vlib.go_build_test(ctx, "c20")
    out = os.path.join(ctx.scratch, "ks.ndjson")
    vlib.go_run(ctx, binary, "TestKeyStorage", {"VERIF_IN": inp, "VERIF_OUT": out}, timeout=3000)
    recs = vlib.read_ndjson(out)
    traces = vlib.split_traces(recs)
    mism, consumed, r = vlib.validate(ctx, "TraceKeyStorage", "TraceKeyStorage.cfg", out, timeout=3000)
    if consumed != len(recs):
        raise vlib.Infra("TraceKeyStorage consumed %s of %d\n%s" % (consumed, len(recs), r.out[-2500:]))
    details = [x for x in r.out.splitlines() if x.startswith('<<"DETAIL"')]
    ctx.cov["traces_validated_against_impl"] += len(traces)
    ctx.sample({"trace_head": [{k: v for k, v in x.items() if k in ("op", "s", "kp", "ok", "master", "v")} for x in recs[1:8]]})
    bad = set()
    for i, line in enumerate(mism):
        m = re.match(r'<<"MISMATCH", "([^"]*)", (\d+), "([^"]*)">>', line)
        tid, lno, what = m.group(1), int(m.group(2)), m.group(3)
        bad.add(tid)
        t = [t for t in traces if t[0] == tid][0][1]
        pos = lno - recs.index(t[0])
        adv = [x for x in t[:pos] if x.get("op") in ("alterBlob", "backdoorAdd", "backdoorRemove", "alterTag")]
        sig = ("after-" + adv[-1]["op"] + ("-" + adv[-1]["v"] if adv[-1]["v"] else "")) if adv else "no-tampering"
        ctx.violation("%s/%s/%s" % (what, recs[lno - 1]["op"], sig), "%s at line %d: %s" % (what, lno, (details[i] if i < len(details) else "")[:700]),
                      {"tid": tid, "line": lno, "behaviour": behs[int(tid.split("#")[1])], "trace": t[:pos + 1]})
    for tid, t in traces:
        idx = [i for i, x in enumerate(t) if x.get("op") == "get" and x["ok"]]
        if tid in bad or not idx:
            continue
        t2 = copy.deepcopy(t)
        t2[idx[0]]["master"] = "different"
        p = os.path.join(ctx.scratch, "kself.ndjson")
        vlib.write_ndjson(p, t2)
        m2, _, _ = vlib.validate(ctx, "TraceKeyStorage", "TraceKeyStorage.cfg", p, name="selftest")
        ctx.cov["binding_selftest"].append({"corrupted": "recovered master key differs", "rejected": len(m2) > 0})
        if not m2:
            raise vlib.Infra("binding self-test: corrupted key storage trace accepted")
        break
    race(ctx, binary, quick)
    ctx.assumptions += ["single adversarial edit per API-produced storage (the property's quantifier); PGP (gopenpgp) is trusted",
                        "three slot ids, three freshly generated x25519 key pairs per run"]


def race(ctx, binary, quick):
    """calls released at the same time on one KeyStorage (real threads): two additions of the same new slot with different key
    pairs, commuting calls next to them, then a sequential epilogue; judged by the unchanged TraceKeyStorage (the group is
    written successes first: the only order a sequential execution of mutually exclusive calls can have had)."""
    out = os.path.join(ctx.scratch, "ksrace.ndjson")
    rounds = 30 if quick else 600
    vlib.go_run(ctx, binary, "TestKeyStorageRace", {"VERIF_OUT": out, "VERIF_ROUNDS": rounds}, timeout=3000)
    recs = vlib.read_ndjson(out)
    traces = vlib.split_traces(recs)
    mism, consumed, r = vlib.validate(ctx, "TraceKeyStorage", "TraceKeyStorage.cfg", out, timeout=3000, name="val-race")
    if consumed != len(recs):
        raise vlib.Infra("TraceKeyStorage (race) consumed %s of %d\n%s" % (consumed, len(recs), r.out[-2500:]))
    details = [x for x in r.out.splitlines() if x.startswith('<<"DETAIL"')]
    ctx.cov["traces_validated_against_impl"] += len(traces)
    ctx.cov["concurrent_call_groups"] = len(traces)
    ctx.cov["contested_slot_won_by"] = {str(kp): len([1 for _, t in traces if any(x.get("op") == "add" and x["s"] == 2 and x["kp"] == kp and x["ok"] for x in t)]) for kp in (2, 3)}
    for i, line in enumerate(mism):
        m = re.match(r'<<"MISMATCH", "([^"]*)", (\d+), "([^"]*)">>', line)
        tid, lno, what = m.group(1), int(m.group(2)), m.group(3)
        t = [t for t in traces if t[0] == tid][0][1]
        ctx.violation("concurrent/%s/%s" % (what, recs[lno - 1]["op"]), "calls made at the same time: %s at line %d: %s" % (what, lno, (details[i] if i < len(details) else "")[:700]),
                      {"tid": tid, "line": lno, "trace": t})


if __name__ == "__main__":
    vlib.main(run, "C20")
