"""C10 - persistent store: acked writes survive crashes; memory never diverges."""
import json, os, re, copy
import vlib, inmemlib


def run(ctx):
    quick = ctx.tier == "quick"
    vlib.mc(ctx, "Persist", "MC_Persist.cfg" if quick else "MC_Persist_thorough.cfg", timeout=2400)
    n = 120 if quick else 2400
    behs = vlib.gen_behaviours(ctx, "GenPersist", "GenPersist.cfg", num=n, depth=30 if quick else 45,
                               env={"GEN_DEPTH": 30 if quick else 45})[:n]
    ctx.cov["behaviours_replayed"] = len(behs)
    ctx.cov["fault_annotations"] = {f: sum(1 for b in behs for s in b if s["fault"] == f) for f in
                                    ("fail", "crashBefore", "crashAfter", "crashBetween", "loadFail", "crashRace")}
    ctx.sample({"annotated_requests_head": [{"op": s["req"]["op"], "id": s["req"]["k"]["id"], "fault": s["fault"]} for s in behs[0][:10]]})
    inp = os.path.join(ctx.scratch, "pbehs.json")
    json.dump(behs, open(inp, "w"))
    binary = vlib.go_build_test(ctx, "c10")
    out = os.path.join(ctx.scratch, "persist.ndjson")
    henv, hdir = inmemlib.traced(ctx, "persist")
    vlib.go_run(ctx, binary, "TestPersist", dict({"VERIF_IN": inp, "VERIF_OUT": out}, **henv), timeout=3000)
    # the same executions from inside the collection: a rejected backing-store write must leave no trace in memory or in the ring
    inmemlib.judge_driver(ctx, "C10", hdir, "TestPersist", max_collections=500 if quick else 5000)
    recs = vlib.read_ndjson(out)
    traces = vlib.split_traces(recs)
    mism, consumed, r = vlib.validate(ctx, "TracePersist", "TracePersist.cfg", out, timeout=3000)
    if consumed != len(recs):
        raise vlib.Infra("TracePersist consumed %s of %d\n%s" % (consumed, len(recs), r.out[-2500:]))
    details = [x for x in r.out.splitlines() if x.startswith('<<"DETAIL"')]
    ctx.cov["traces_validated_against_impl"] += len(traces)
    ctx.cov["crashes_executed"] = len([x for x in recs if x["ev"] == "crash"])
    ctx.cov["concurrent_first_accesses"] = len([x for x in recs if x["ev"] == "raceread"]) // 2
    ctx.cov["injected_failures_reached"] = len([x for x in recs if x["ev"] == "op" and x["inj"]])
    ctx.sample({"trace_line": {k: v for k, v in recs[1].items() if k in ("ev", "cls", "nev", "inj", "contents", "disk")}})
    bad = set()
    for i, line in enumerate(mism):
        m = re.match(r'<<"MISMATCH", "([^"]*)", (\d+), "([^"]*)">>', line)
        tid, lno, what = m.group(1), int(m.group(2)), m.group(3)
        bad.add(tid)
        ctx.violation("%s/%s" % (what, recs[lno - 1].get("req", {}).get("op", "")),
                      "%s at line %d (marshaler %s): %s" % (what, lno, tid.split("#")[0], (details[i] if i < len(details) else "")[:700]),
                      {"tid": tid, "line": lno, "behaviour": behs[int(tid.split("#")[1])],
                       "trace": [t for t in traces if t[0] == tid][0][1][:lno + 1]})
    for tid, t in traces:
        idx = [i for i, x in enumerate(t) if x["ev"] == "reopen" and x["contents"]]
        if tid in bad or not idx:
            continue
        t2 = copy.deepcopy(t)
        t2[idx[0]]["contents"][0]["v"]["ver"] += 1
        p = os.path.join(ctx.scratch, "pself.ndjson")
        vlib.write_ndjson(p, t2)
        m2, _, _ = vlib.validate(ctx, "TracePersist", "TracePersist.cfg", p, name="selftest")
        ctx.cov["binding_selftest"].append({"corrupted": "version of a resource in the reopened contents", "rejected": len(m2) > 0})
        if not m2:
            raise vlib.Infra("binding self-test: corrupted persistence trace accepted")
        break
    parallel(ctx, quick, behs)
    sigkill(ctx, quick, behs)
    diskfull(ctx, quick)
    ctx.assumptions += [
        "crashes are in-process: the state object is dropped and the bbolt file closed and re-opened at the decorator's crash points "
        "(before / after the backing-store write, between operations); bbolt's own transaction atomicity is trusted",
        "six marshaler stackings (protobuf, encryption, zstd below/above threshold, both nestings)",
    ]


def diskfull(ctx, quick):
    """Faults that happen INSIDE bbolt: the database file may not grow beyond a small maximum size, so transactions fail at commit
    time (harness/c10 TestDiskFull). Every rejected operation must leave no trace in memory, and the re-opened file must hold
    exactly what was acknowledged (TracePersist)."""
    binary = vlib.go_build_test(ctx, "c10")
    out = os.path.join(ctx.scratch, "diskfull.ndjson")
    vlib.go_run(ctx, binary, "TestDiskFull", {"VERIF_OUT": out, "VERIF_ROUNDS": 6 if quick else 36}, timeout=3000)
    recs = vlib.read_ndjson(out)
    traces = vlib.split_traces(recs)
    mism, consumed, r = vlib.validate(ctx, "TracePersist", "TracePersist.cfg", out, timeout=3000, name="val-diskfull")
    if consumed != len(recs):
        raise vlib.Infra("TracePersist consumed %s of %d\n%s" % (consumed, len(recs), r.out[-2500:]))
    details = [x for x in r.out.splitlines() if x.startswith('<<"DETAIL"')]
    ctx.cov["traces_validated_against_impl"] += len(traces)
    ctx.cov["diskfull_rejected_commits"] = len([x for x in recs if x["ev"] == "op" and x["inj"]])
    ctx.cov["diskfull_acknowledged_writes"] = len([x for x in recs if x["ev"] == "op" and x["cls"] == "ok"])
    if not ctx.cov["diskfull_rejected_commits"] and not mism:
        raise vlib.Infra("disk-full stage: bbolt never rejected a commit")
    for i, line in enumerate(mism):
        m = re.match(r'<<"MISMATCH", "([^"]*)", (\d+), "([^"]*)">>', line)
        tid, lno, what = m.group(1), int(m.group(2)), m.group(3)
        ctx.violation("diskfull/%s" % what, "%s at line %d (bbolt file at its maximum size, marshaler %s): %s" % (
            what, lno, tid.split("#")[0], (details[i] if i < len(details) else "")[:700]),
            {"tid": tid, "line": lno, "trace": [t for t in traces if t[0] == tid][0][1][:lno + 1]})


def sigkill(ctx, quick, behs):
    """The operation script runs in a CHILD PROCESS against a real bbolt file with real syncs; the parent kills it with SIGKILL at
    a random instant after a randomly chosen operation was announced (before, inside or after the bbolt transaction, between the
    commit and the in-memory update, between operations), lets a new child continue (up to three kills) and re-opens the file
    itself: acknowledged operations + re-opened contents are judged by TracePersist."""
    sub = behs[:18 if quick else 400]
    inp = os.path.join(ctx.scratch, "killbehs.json")
    json.dump(sub, open(inp, "w"))
    binary = vlib.go_build_test(ctx, "c10")
    out = os.path.join(ctx.scratch, "kill.ndjson")
    vlib.go_run(ctx, binary, "TestKill", {"VERIF_IN": inp, "VERIF_OUT": out}, timeout=3000)
    recs = vlib.read_ndjson(out)
    traces = vlib.split_traces(recs)
    mism, consumed, r = vlib.validate(ctx, "TracePersist", "TracePersist.cfg", out, timeout=3000, name="val-kill")
    if consumed != len(recs):
        raise vlib.Infra("TracePersist consumed %s of %d\n%s" % (consumed, len(recs), r.out[-2500:]))
    details = [x for x in r.out.splitlines() if x.startswith('<<"DETAIL"')]
    crashes = [x for x in recs if x["ev"] == "crash"]
    ctx.cov["traces_validated_against_impl"] += len(traces)
    ctx.cov["sigkill_crashes"] = len(crashes)
    ctx.cov["sigkill_crashes_during_an_operation"] = len([x for x in crashes if x["during"]])
    if not crashes:
        raise vlib.Infra("SIGKILL stage executed no crash")
    for i, line in enumerate(mism):
        m = re.match(r'<<"MISMATCH", "([^"]*)", (\d+), "([^"]*)">>', line)
        tid, lno, what = m.group(1), int(m.group(2)), m.group(3)
        ctx.violation("sigkill/%s" % what, "%s at line %d (child process killed, marshaler %s): %s" % (
            what, lno, tid.split("#")[0], (details[i] if i < len(details) else "")[:700]),
            {"tid": tid, "line": lno, "trace": [t for t in traces if t[0] == tid][0][1][:lno + 1]})


def parallel(ctx, quick, behs):
    """Several clients writing at once, each to its own namespace, through one bbolt file and one marshaler stacking (real
    threads); every client's history is sequential in its namespace; after closing and re-opening the file every namespace must
    hold what its client was acknowledged (TracePersist, par lines)."""
    sub = behs[:48 if quick else 960]
    inp = os.path.join(ctx.scratch, "parbehs.json")
    json.dump(sub, open(inp, "w"))
    binary = vlib.go_build_test(ctx, "c10")
    out = os.path.join(ctx.scratch, "parallel.ndjson")
    vlib.go_run(ctx, binary, "TestParallelPersist", {"VERIF_IN": inp, "VERIF_OUT": out}, timeout=3000)
    recs = vlib.read_ndjson(out)
    traces = vlib.split_traces(recs)
    mism, consumed, r = vlib.validate(ctx, "TracePersist", "TracePersist.cfg", out, timeout=3000, name="val-parallel")
    if consumed != len(recs):
        raise vlib.Infra("TracePersist consumed %s of %d\n%s" % (consumed, len(recs), r.out[-2500:]))
    details = [x for x in r.out.splitlines() if x.startswith('<<"DETAIL"')]
    ctx.cov["traces_validated_against_impl"] += len(traces)
    ctx.cov["parallel_client_histories"] = len(traces)
    for i, line in enumerate(mism):
        m = re.match(r'<<"MISMATCH", "([^"]*)", (\d+), "([^"]*)">>', line)
        tid, lno, what = m.group(1), int(m.group(2)), m.group(3)
        ctx.violation("parallel-clients/%s" % what,
                      "%s at line %d (marshaler %s, clients writing to separate namespaces at the same time): %s" % (
                          what, lno, tid.split("#")[0], (details[i] if i < len(details) else "")[:700]),
                      {"tid": tid, "line": lno, "trace": [t for t in traces if t[0] == tid][0][1][:lno + 1]})


if __name__ == "__main__":
    vlib.main(run, "C10")
