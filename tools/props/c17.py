"""C17 - output exclusivity and dependency graph consistent for any registration history."""
import json, os, re, copy
import vlib, rtlib


def run(ctx):
    quick = ctx.tier == "quick"
    vlib.mc(ctx, "MC_DepDB", "MC_DepDB.cfg" if quick else "MC_DepDB_thorough.cfg", timeout=3000)
    n = 120 if quick else 3000
    behs = vlib.gen_behaviours(ctx, "GenDepDB", "GenDepDB.cfg", num=n, depth=60, env={"GEN_DEPTH": 6 if quick else 8})[:n]
    ctx.cov["behaviours_replayed"] = len(behs)
    ctx.sample({"calls": behs[0]["calls"][:4], "startAt": behs[0]["startAt"]})
    inp = os.path.join(ctx.scratch, "dbehs.json")
    json.dump(behs, open(inp, "w"))
    binary = vlib.go_build_test(ctx, "c17")
    out = os.path.join(ctx.scratch, "depdb.ndjson")
    open(out, "w").close()
    frm, crashes = 0, 0
    while frm < len(behs):
        rc, o = vlib.go_run(ctx, binary, "TestDepDB", {"VERIF_IN": inp, "VERIF_OUT": out, "VERIF_FROM": frm},
                            timeout=2400, allow_fail=True)
        if rc == 0:
            break
        # the process died: attribute it to the behaviour that was running
        recs = vlib.read_ndjson(out)
        last_tid = recs[-1]["tid"] if recs else "d#%d" % frm
        idx = int(last_tid.split("#")[1])
        if not re.search(r"panic|SIGSEGV|fatal error", o):
            raise vlib.Infra("C17 driver failed without a crash signature:\n" + o[-3000:])
        crashes += 1
        sig = "nil-adapter" if "WatchTrigger" in o or "deliverDeduplicatedEvents" in o else "other"
        with open(out, "a") as f:
            f.write(json.dumps({"ev": "crash", "tid": last_tid, "note": sig, "op": "", "c": "", "fl": "", "outs": [], "ins": [],
                                "res": "", "edges": [], "typ": "", "id": "", "phase": "", "finsEmpty": False, "woke": []}) + "\n")
        frm = idx + 1
        if crashes > 40:
            raise vlib.Infra("too many crashes of the C17 driver")
    ctx.cov["process_crashes"] = crashes
    rtlib.registration_races(ctx, binary)
    recs = vlib.read_ndjson(out)
    traces = vlib.split_traces(recs)
    mism, consumed, r = vlib.validate(ctx, "TraceDepDB", "TraceDepDB.cfg", out, timeout=2400)
    if consumed != len(recs):
        raise vlib.Infra("TraceDepDB consumed %s of %d\n%s" % (consumed, len(recs), r.out[-2500:]))
    details = [x for x in r.out.splitlines() if x.startswith('<<"DETAIL"')]
    ctx.cov["traces_validated_against_impl"] += len(traces)
    ctx.sample({"trace_head": [{k: v for k, v in x.items() if v not in ("", [], False)} for x in recs[1:7]]})
    bad = set()
    for i, line in enumerate(mism):
        m = re.match(r'<<"MISMATCH", "([^"]*)", (\d+), "([^"]*)">>', line)
        tid, lno, what = m.group(1), int(m.group(2)), m.group(3)
        bad.add(tid)
        rec = recs[lno - 1]
        det = details[i] if i < len(details) else ""
        key = what
        if what in ("graph", "valid-call-rejected", "notification-spurious", "runtime-crashed"):
            # which earlier call of this trace was rejected? (partial rows of a rejected registration)
            t = [t for t in traces if t[0] == tid][0][1]
            prior_rejects = [x for x in t[: lno - [x for x in recs].index(t[0])] if x.get("ev") == "call" and x.get("res") == "err"]
            if prior_rejects:
                key = "%s/after-rejected-%s" % (what, prior_rejects[-1]["op"])
        elif what == "notification-missing":
            t = [t for t in traces if t[0] == tid][0][1]
            calls = [x for x in t[: lno - recs.index(t[0])] if x.get("ev") == "call" and x.get("res") == "ok"]
            mixed = False
            for c in calls:
                for typ in ("tA", "tB"):
                    kinds = {i["kind"] for i in c["ins"] if i["typ"] == typ}
                    if "destroyReady" in kinds and kinds - {"destroyReady"}:
                        mixed = True
            if mixed:
                key = "notification-missing/destroyReady-filter-by-kind"
            elif any(c["op"] == "update" for c in calls):
                key = "notification-missing/after-update-inputs"
            else:
                key = "notification-missing/routing"
        ctx.violation(key, "%s at line %d: %s" % (what, lno, det[:700]),
                      {"tid": tid, "line": lno, "behaviour": behs[int(tid.split("#")[1])],
                       "trace": [t for t in traces if t[0] == tid][0][1][:lno - [x for x in recs].index([t for t in traces if t[0] == tid][0][1][0]) + 1]})
    for tid, t in traces:
        idx = [i for i, x in enumerate(t) if x["ev"] == "graph" and x["edges"]]
        if tid in bad or not idx:
            continue
        t2 = copy.deepcopy(t)
        t2[idx[0]]["edges"] = t2[idx[0]]["edges"][1:]
        p = os.path.join(ctx.scratch, "dself.ndjson")
        vlib.write_ndjson(p, t2)
        m2, _, _ = vlib.validate(ctx, "TraceDepDB", "TraceDepDB.cfg", p, name="selftest")
        ctx.cov["binding_selftest"].append({"corrupted": "one graph edge dropped", "rejected": len(m2) > 0})
        if not m2:
            raise vlib.Infra("binding self-test: corrupted dependency trace accepted")
        break
    ctx.assumptions += ["one namespace, two types, ids a/b; UpdateInputs only for running reduced-runtime controllers (API restriction)"]


if __name__ == "__main__":
    vlib.main(run, "C17")
