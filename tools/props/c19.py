"""C19 - caller isolation: objects passed to/returned by the state never alias the store."""
import json, os, re, copy
import vlib, inmemlib


def run(ctx):
    quick = ctx.tier == "quick"
    vlib.mc(ctx, "Alias", "MC_Alias.cfg", timeout=1200)
    # the frame condition is not vacuous: the in-place-write variant of the model must violate it
    r = vlib.tlc(ctx, "Alias", "MC_Alias_broken.cfg", timeout=600, count=False)
    ctx.cov["frame_condition_catches_in_place_writes_in_model"] = (r.inv == "MutationIsLocal")
    if r.inv != "MutationIsLocal":
        raise vlib.Infra("vacuity: the broken (write in place) model does not violate MutationIsLocal")
    n = 250 if quick else 5000
    progs = vlib.gen_behaviours(ctx, "GenAlias", "GenAlias.cfg", num=n, depth=120, env={"GEN_DEPTH": 24 if quick else 36})[:n]
    ctx.cov["behaviours_replayed"] = len(progs)
    ctx.cov["mutations_generated"] = sum(1 for p in progs for c in p if c["op"] == "mutate")
    ctx.sample({"program_head": progs[0][:10]})
    inp = os.path.join(ctx.scratch, "progs.json")
    json.dump(progs, open(inp, "w"))
    binary = vlib.go_build_test(ctx, "c19")
    out = os.path.join(ctx.scratch, "alias.ndjson")
    henv, hdir = inmemlib.traced(ctx, "alias")
    vlib.go_run(ctx, binary, "TestAlias", dict({"VERIF_IN": inp, "VERIF_OUT": out}, **henv), timeout=3000)
    # every later critical section on a resource compares the stored object with the model: a caller's mutation that reached the
    # stored object (aliasing) is a difference
    inmemlib.judge_driver(ctx, "C19", hdir, "TestAlias", max_collections=500 if ctx.tier == "quick" else 5000)
    recs = vlib.read_ndjson(out)
    traces = vlib.split_traces(recs)
    mism, consumed, vr = vlib.validate(ctx, "TraceAlias", "TraceAlias.cfg", out, timeout=3000)
    if consumed != len(recs):
        raise vlib.Infra("TraceAlias consumed %s of %d\n%s" % (consumed, len(recs), vr.out[-2500:]))
    details = [x for x in vr.out.splitlines() if x.startswith('<<"DETAIL"')]
    ctx.cov["traces_validated_against_impl"] += len(traces)
    ctx.cov["mutations_judged"] = len([x for x in recs if x["ev"] == "mutate"])
    ctx.sample({"mutate_line": next((x for x in recs if x["ev"] == "mutate"), recs[1])})
    bad = set()
    for i, line in enumerate(mism):
        m = re.match(r'<<"MISMATCH", "([^"]*)", (\d+), "([^"]*)">>', line)
        tid, lno, what = m.group(1), int(m.group(2)), m.group(3)
        bad.add(tid)
        rec = recs[lno - 1]
        ctx.violation("%s/%s/%s" % (what, tid.split("#")[0], rec.get("field") or rec.get("op")),
                      "%s at line %d: %s" % (what, lno, (details[i] if i < len(details) else "")[:700]),
                      {"tid": tid, "line": lno, "program": progs[int(tid.split("#")[1])], "record": rec})
    for tid, t in traces:
        idx = [i for i, x in enumerate(t) if x["ev"] == "mutate" and x["contents"]]
        if tid in bad or not idx:
            continue
        t2 = copy.deepcopy(t)
        t2[idx[0]]["contents"] = t2[idx[0]]["contents"].replace("labels={", "labels={leak=1,", 1)
        p = os.path.join(ctx.scratch, "aself.ndjson")
        vlib.write_ndjson(p, t2)
        m2, _, _ = vlib.validate(ctx, "TraceAlias", "TraceAlias.cfg", p, name="selftest")
        ctx.cov["binding_selftest"].append({"corrupted": "store contents after a mutation", "rejected": len(m2) > 0})
        if not m2:
            raise vlib.Infra("binding self-test: corrupted aliasing trace accepted")
        break
    ctx.assumptions += ["events received from a watch are kept by the replica but deliberately never mutated (the property does not promise isolation for them)",
                        "three stacks: in-memory state, gRPC stack, runtime ResourceCache fed from a kind watch exactly as the runtime does"]


if __name__ == "__main__":
    vlib.main(run, "C19")
