"""C02 - watch streams are exact, ordered change logs (or fail loudly)."""
import vlib, watchlib, inmemlib

# classes of rejection that belong to C12 (bookmark / tail start outcomes) are reported there
C12_WHATS = {"bookmark-outcome", "bookmark-error-class"}


def run(ctx):
    quick = ctx.tier == "quick"
    vlib.mc(ctx, "WatchLog", "MC_WatchLog_quick.cfg", timeout=1200)
    if not quick:
        for cfg in ["MC_WatchLog_t1.cfg", "MC_WatchLog_t2.cfg", "MC_WatchLog_t3.cfg", "MC_WatchLog_t4.cfg", "MC_WatchLog_t5.cfg"]:
            # t5 (two watchers, five publishes, tails): 93 M distinct states, 18 min on 12 otherwise idle cores; the limit leaves
            # room for a machine that is shared with other jobs (a timeout is exit 2, never a verdict)
            vlib.mc(ctx, "WatchLog", cfg, timeout=10800)
    configs = watchlib.RING_CONFIGS[:3] if quick else watchlib.RING_CONFIGS
    groups = watchlib.gen_groups(ctx, configs, 40 if quick else 400, 40 if quick else 60)
    ctx.cov["behaviours_replayed"] = sum(len(g["behs"]) for g in groups)
    ctx.sample({"ring": configs[0], "behaviour_head": groups[0]["behs"][0][:8]})
    files = watchlib.drive(ctx, groups, extras=False, hook_prop="C02")
    total, rej = watchlib.judge(ctx, groups, files)
    ctx.cov["traces_validated_against_impl"] += total
    ctx.sample({"trace_head": vlib.read_ndjson(files[0])[:6]})
    for r in rej:
        if r["what"] in C12_WHATS:
            continue
        key = "%s/%s" % (r["what"], r["record"].get("ev"))
        ctx.violation(key, "ring %s: %s at line %d: %s" % (r["config"], r["what"], r["line"], r["detail"]), r)
    watchlib.selftest(ctx, groups, files, {r["tid"] for r in rej})
    # the repository's own test suites with the hooks on: every watch start, ring read and hand-off they cause is judged
    inmemlib.stage(ctx, "C02", ctx.tier)
    watchlib.threaded(ctx, "C02", 150 if quick else 3000)
    ctx.assumptions += [
        "watcher read timing on the real code is eager (after each publish) or late (after a burst under GOMAXPROCS(1)); all read interleavings are exhaustive only in the TLC model",
        "subscriber lag (committed events not yet received) bounds the ring lag from above, so errored => lag > InitCap is sound",
    ]


if __name__ == "__main__":
    vlib.main(run, "C02")
