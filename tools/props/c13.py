"""C13 - remote watches survive transport failures without gaps or duplicates."""
import json, os, re
import vlib, watchlib


def run(ctx):
    quick = ctx.tier == "quick"
    vlib.mc(ctx, "WatchLog", "MC_WatchLog_c12.cfg", timeout=1200)       # ring / bookmark arithmetic the resume relies on
    vlib.mc(ctx, "Remote", "MC_Remote.cfg", timeout=600)
    configs = [watchlib.RING_CONFIGS[i] for i in ((2, 4) if quick else (1, 2, 3, 4, 5))]
    groups = []
    n, depth = (40, 45) if quick else (500, 70)
    for (ic, mc, gap) in configs:
        behs = vlib.gen_behaviours(ctx, "GenWatch", "GenWatch.cfg", num=n, depth=depth * 4, name="gen-%d-%d-%d" % (ic, mc, gap), workers=4,
                                   env={"INITCAP": ic, "MAXCAP": mc, "GAP": gap, "GEN_DEPTH": depth, "GEN_FAULTS": "1"})[:n]
        groups.append({"initcap": ic, "maxcap": mc, "gap": gap, "behs": behs})
    # regression corpus: behaviours on which defects were found (known_findings.json), replayed in every run
    cdir = os.path.join(vlib.VERIF, "corpus")
    ncorpus = 0
    for f in sorted(os.listdir(cdir)):
        if f.startswith("c13-"):
            for g in json.load(open(os.path.join(cdir, f))):
                groups.append(g)
                ncorpus += len(g["behs"])
    ctx.cov["corpus_behaviours"] = ncorpus
    ctx.cov["behaviours_replayed"] = sum(len(g["behs"]) for g in groups)
    ctx.cov["fault_commands"] = sum(1 for g in groups for b in g["behs"] for c in b if c["c"] == "fault")
    ctx.sample({"commands_head": [c for c in groups[0]["behs"][0] if c["c"] in ("fault", "wait", "start")][:6]})
    binary = vlib.go_build_test(ctx, "c02")
    inp = os.path.join(ctx.scratch, "c13-in.json")
    json.dump(groups, open(inp, "w"))
    out = os.path.join(ctx.scratch, "c13-out")
    vlib.go_run(ctx, binary, "TestRemoteWatch", {"VERIF_IN": inp, "VERIF_OUT": out}, timeout=3000)
    files = ["%s.%d.ndjson" % (out, i) for i in range(len(groups))]
    total, rej = watchlib.judge(ctx, groups, files)
    ctx.cov["traces_validated_against_impl"] += total
    recs = [r for f in files for r in vlib.read_ndjson(f)]
    ctx.cov["faults_injected"] = len([r for r in recs if r["ev"] == "fault"])
    ctx.cov["errored_events"] = len([r for r in recs if r["ev"] == "recv" and r["e"]["t"] == "errored"])
    ctx.sample({"trace_head": [{k: v for k, v in r.items() if k in ("ev", "w", "kind", "mode", "e", "remote", "retry", "n")} for r in recs[1:8]]})
    for r in rej:
        key = "%s/%s" % (r["what"], r["record"].get("ev"))
        # a watch older than the retry budget (15 min) that gives up on its first failure
        if r["what"] == "errored-although-resumable":
            t = r["trace"]
            waited = any(x["ev"] == "note" for x in t)
            key = "errored-although-resumable/recv"
        ctx.violation(key, "ring %s: %s at line %d: %s" % (r["config"], r["what"], r["line"], r["detail"]), r)
    watchlib.selftest(ctx, groups, files, {r["tid"] for r in rej})
    realwire(ctx, 2 if quick else 40)
    ctx.assumptions += [
        "schedules with exact fault positions run through an in-process stream shim inside the bubble (virtual back-off); the real-wire stage restarts a real server under real time (random outage lengths)",
        "fault = Recv fails with Unavailable and the next n Watch attempts fail; outages are shorter than the retry budget",
    ]


def realwire(ctx, rounds):
    """The real client adapter over a real gRPC connection (unix socket) to a server that is really stopped and started again,
    with writes before, during and after the outage (harness/c02 TestRealWire); judged by TraceWatch like every other stream."""
    binary = vlib.go_build_test(ctx, "c02")
    out = os.path.join(ctx.scratch, "realwire.ndjson")
    vlib.go_run(ctx, binary, "TestRealWire", {"VERIF_OUT": out, "VERIF_ROUNDS": rounds}, timeout=3000)
    g = {"initcap": 64, "maxcap": 64, "gap": 4, "behs": []}
    total, rej = watchlib.judge(ctx, [g], [out])
    recs = vlib.read_ndjson(out)
    ctx.cov["traces_validated_against_impl"] += total
    ctx.cov["realwire_rounds"] = rounds
    ctx.cov["realwire_server_restarts"] = len({(r["tid"], i) for i, r in enumerate(recs) if r["ev"] == "fault" and r["w"] == 1})
    ctx.cov["realwire_events_received"] = len([r for r in recs if r["ev"] == "recv"])
    if not ctx.cov["realwire_server_restarts"]:
        raise vlib.Infra("real-wire stage executed no server restart")
    for r in rej:
        ctx.violation("realwire/%s/%s" % (r["what"], r["record"].get("ev")),
                      "real gRPC connection, server restarted: %s at line %d: %s" % (r["what"], r["line"], r["detail"]), r)


if __name__ == "__main__":
    vlib.main(run, "C13")
