"""C16 - fault containment, loud failure and clean shutdown of the controller runtime."""
import json, os, re
import vlib, rtlib

WHATS = None   # every rejection of the runtime judge counts here (faults must not break convergence either)


def run(ctx):
    quick = ctx.tier == "quick"
    # (a) faults in the pipeline model: convergence with a fault budget
    rtlib.model_check(ctx, ["Af"] if quick else ["Af", "D"])
    vlib.mc(ctx, "Backoff", "MC_Backoff.cfg", timeout=900)
    # (b) failing / panicking reconciles on the real runtime, then convergence (configs with a fault budget)
    behs, out = rtlib.drive(ctx, ["Af", "D"], 60 if quick else 1200, 70 if quick else 110, name="rt16")
    rtlib.judge(ctx, behs, out, WHATS, "C16")
    # (c) cancellation at every kind of instant and injected watch failures
    sbehs = []
    for g in ["A", "B", "C", "D"]:
        sbehs += vlib.gen_behaviours(ctx, "GenRuntime", "GenRuntime_%s.cfg" % g, num=(20 if quick else 300), depth=600,
                                     env={"GEN_DEPTH": 50 if quick else 90}, name="gen-sd-" + g)[:(20 if quick else 300)]
    for i, b in enumerate(sbehs):
        n = max(1, len(b["cmds"]))
        if i % 3 == 2:
            b["cancelAt"], b["errAt"] = -1, ctx.rng.randrange(n)
        else:
            b["cancelAt"], b["errAt"] = ctx.rng.randrange(n), -1
    ctx.cov["behaviours_replayed"] += len(sbehs)
    ctx.cov["cancel_points"] = len([b for b in sbehs if b["cancelAt"] >= 0])
    ctx.cov["watch_failures_injected"] = len([b for b in sbehs if b["errAt"] >= 0])
    inp = os.path.join(ctx.scratch, "sbehs.json")
    json.dump(sbehs, open(inp, "w"))
    binary = vlib.go_build_test(ctx, "c05")
    sout = os.path.join(ctx.scratch, "shutdown.ndjson")
    vlib.go_run(ctx, binary, "TestRuntime", {"VERIF_IN": inp, "VERIF_OUT": sout, "VERIF_MODE": "shutdown"}, timeout=3000)
    rtlib.judge(ctx, sbehs, sout, WHATS, "C16")
    # (d) restart back-off of controllers, run hooks and tasks
    n = 40 if quick else 800
    rb = vlib.gen_behaviours(ctx, "GenBackoff", "GenBackoff.cfg", num=n, depth=60, name="gen-restart",
                             env={"GEN_DEPTH": 6 if quick else 12})[:n]
    # long streaks of consecutive failures: the restart interval climbs to its cap and stays there until something succeeds
    nstreak = 4 if quick else 40
    rb += vlib.gen_behaviours(ctx, "GenBackoff", "GenBackoff.cfg", num=nstreak, depth=400, name="gen-restart-streak", workers=2,
                              env={"GEN_DEPTH": 26 if quick else 40, "GEN_ERRONLY": 1})[:nstreak]
    ctx.cov["long_restart_failure_streaks"] = nstreak
    ctx.cov["behaviours_replayed"] += len(rb)
    ctx.sample({"restart_outcomes": rb[0]["outcomes"]})
    rin = os.path.join(ctx.scratch, "rbehs.json")
    json.dump(rb, open(rin, "w"))
    rout = os.path.join(ctx.scratch, "restarts.ndjson")
    vlib.go_run(ctx, binary, "TestRestarts", {"VERIF_IN": rin, "VERIF_OUT": rout}, timeout=3000)
    recs = vlib.read_ndjson(rout)
    traces = vlib.split_traces(recs)
    mism, consumed, r = vlib.validate(ctx, "TraceBackoff", "TraceBackoff.cfg", rout, timeout=1800, name="val-restart")
    if consumed != len(recs):
        raise vlib.Infra("TraceBackoff consumed %s of %d\n%s" % (consumed, len(recs), r.out[-2000:]))
    details = [x for x in r.out.splitlines() if x.startswith('<<"DETAIL"')]
    ctx.cov["traces_validated_against_impl"] += len(traces)
    ctx.sample({"restart_trace_head": recs[1:8]})
    for i, line in enumerate(mism):
        m = re.match(r'<<"MISMATCH", "([^"]*)", (\d+), "([^"]*)">>', line)
        tid, lno, what = m.group(1), int(m.group(2)), m.group(3)
        ctx.violation("restart/%s/%s" % (what, recs[lno - 1].get("id")), "%s at line %d: %s" % (what, lno, (details[i] if i < len(details) else "")[:600]),
                      {"tid": tid, "line": lno, "behaviour": rb[int(tid.split("#")[1])],
                       "trace": [t for t in traces if t[0] == tid][0][1]})
    # (e) failing queue items of a QController (error / panic / requeue with and without interval): retried within the
    #     back-off envelope, other items not blocked, nothing lost once the faults cease (driver and judge of C09 b)
    import importlib.util
    spec = importlib.util.spec_from_file_location("c09", os.path.join(os.path.dirname(os.path.abspath(__file__)), "c09.py"))
    c09 = importlib.util.module_from_spec(spec)
    spec.loader.exec_module(c09)
    c09.qruntime_part(ctx, vlib.go_build_test(ctx, "c09"), quick)
    taskrunner(ctx, quick)
    # (g) a controller that panics or fails between StartTrackingOutputs and CleanupOutputs gets a fresh tracker on restart
    #     (output-tracking stage of C08: OutTrack.tla)
    spec8 = importlib.util.spec_from_file_location("c08", os.path.join(os.path.dirname(os.path.abspath(__file__)), "c08.py"))
    c08 = importlib.util.module_from_spec(spec8)
    spec8.loader.exec_module(c08)
    c08.outtrack(ctx, quick)
    ctx.cov["binding_selftest"].append({"see": "C05/C09 self-tests use the same judges (TraceRuntime, TraceBackoff)"})
    ctx.assumptions += [
        "goroutine leak = process goroutine count after Run returned and the harness stopped exceeds the count before the runtime was built",
        "panics are raised inside reconcile / Run / hook / task bodies only",
    ]


def taskrunner(ctx, quick):
    """(f) pkg/task: TaskRunner.tla checked exhaustively; random walks of it replayed on a real task.Runner (start / stop /
    reconcile / stop-all, task bodies finishing, failing and panicking), the set of running task instances judged after
    every command, no goroutine left after Stop."""
    vlib.mc(ctx, "TaskRunner", "MC_TaskRunner.cfg", timeout=1200)
    n = 150 if quick else 3000
    behs = vlib.gen_behaviours(ctx, "GenTaskRunner", "GenTaskRunner.cfg", num=n, depth=200, name="gen-taskrunner",
                               env={"GEN_DEPTH": 20 if quick else 35})[:n]
    ctx.cov["behaviours_replayed"] += len(behs)
    ctx.cov["taskrunner_behaviours"] = len(behs)
    ctx.sample({"taskrunner_commands_head": behs[0][:6]})
    inp = os.path.join(ctx.scratch, "tbehs.json")
    json.dump(behs, open(inp, "w"))
    binary = vlib.go_build_test(ctx, "c16")
    out = os.path.join(ctx.scratch, "taskrunner.ndjson")
    vlib.go_run(ctx, binary, "TestTaskRunner", {"VERIF_IN": inp, "VERIF_OUT": out}, timeout=2400)
    recs = vlib.read_ndjson(out)
    traces = vlib.split_traces(recs)
    mism, consumed, r = vlib.validate(ctx, "TraceTaskRunner", "TraceTaskRunner.cfg", out, timeout=1800, name="val-taskrunner")
    if consumed != len(recs):
        raise vlib.Infra("TraceTaskRunner consumed %s of %d\n%s" % (consumed, len(recs), r.out[-2000:]))
    details = [x for x in r.out.splitlines() if x.startswith('<<"DETAIL"')]
    ctx.cov["traces_validated_against_impl"] += len(traces)
    ctx.cov["taskrunner_commands_judged"] = len([x for x in recs if x["ev"] == "cmd"])
    bad = set()
    for i, line in enumerate(mism):
        m = re.match(r'<<"MISMATCH", "([^"]*)", (\d+), "([^"]*)">>', line)
        tid, lno, what = m.group(1), int(m.group(2)), m.group(3)
        bad.add(tid)
        ctx.violation("taskrunner/%s/%s" % (what, recs[lno - 1].get("c", "")), "%s at line %d: %s" % (what, lno, (details[i] if i < len(details) else "")[:600]),
                      {"tid": tid, "line": lno, "behaviour": behs[int(tid.split("#")[1])],
                       "trace": [t for t in traces if t[0] == tid][0][1]})
    import copy
    for tid, t in traces:
        idx = [i for i, x in enumerate(t) if x["ev"] == "cmd" and x["live"]]
        if tid in bad or not idx:
            continue
        t2 = copy.deepcopy(t)
        t2[idx[0]]["live"] = t2[idx[0]]["live"][1:]
        p = os.path.join(ctx.scratch, "tself.ndjson")
        vlib.write_ndjson(p, t2)
        m2, _, _ = vlib.validate(ctx, "TraceTaskRunner", "TraceTaskRunner.cfg", p, name="selftest-taskrunner")
        ctx.cov["binding_selftest"].append({"corrupted": "one running task instance dropped from the log", "rejected": len(m2) > 0})
        if not m2:
            raise vlib.Infra("binding self-test: corrupted task-runner trace accepted")
        break


if __name__ == "__main__":
    vlib.main(run, "C16")
