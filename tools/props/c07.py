"""C07 - finalizer ordering safety in controller-driven lifecycles."""
import vlib, lclib


def run(ctx):
    quick = ctx.tier == "quick"
    lclib.model_check(ctx, quick)
    lclib.run(ctx, lclib.C07_WHATS, 420 if quick else 6300, 36 if quick else 50)
    ctx.assumptions += ["the total order of committed writes is the one of the recording proxy (it serialises writes around the store call)",
                        "cleanup controllers are not driven in this round (see DESIGN.md)"]


if __name__ == "__main__":
    vlib.main(run, "C07")
