"""C07 - finalizer ordering safety in controller-driven lifecycles."""
import vlib, lclib, helperlib


def run(ctx):
    quick = ctx.tier == "quick"
    lclib.model_check(ctx, quick)
    lclib.run(ctx, lclib.C07_WHATS, 510 if quick else 7650, 36 if quick else 50)
    # the controllers' ordering (own finalizer on the input before the output exists, removed only after the output is gone)
    # protects nothing unless the store refuses to remove a resource that carries a finalizer under every interleaving: the
    # lifecycle driver serialises writes in its recording proxy, so that gate is exercised here on real threads
    helperlib.finalizer_threads(ctx, "C07", quick)
    ctx.assumptions += ["the total order of committed writes is the one of the recording proxy (it serialises writes around the store call)",
                        "cleanup controllers: configurations 6 and 7 of the driver"]


if __name__ == "__main__":
    vlib.main(run, "C07")
