"""C06 - generic transform controllers converge to the mapped image of their inputs."""
import vlib, lclib


def run(ctx):
    quick = ctx.tier == "quick"
    lclib.model_check(ctx, quick)
    lclib.run(ctx, lclib.C06_WHATS, 510 if quick else 7650, 36 if quick else 50, judge="C06")
    ctx.assumptions += ["notification fairness is C05's result; quiet = no write during 3 virtual minutes",
                        "six controller configurations (transform +/- input finalizers / ignore-tearing-down; qtransform concurrency 1, 2, ignore-teardown-until)"]


if __name__ == "__main__":
    vlib.main(run, "C06")
