"""C08 - controllers are confined to declared inputs/outputs and resources they own."""
import json, os, re
import vlib


def run(ctx):
    quick = ctx.tier == "quick"
    # S1: the complete matrix is enumerated and checked row by row by TLC, and emitted as JSON
    r = vlib.tlc(ctx, "MC_Access", "MC_Access.cfg", workers=1, timeout=900)
    if not r.completed:
        raise vlib.Infra("MC_Access did not complete: %s\n%s" % (r.inv or r.error, r.out[-2000:]))
    rows = None
    for line in r.out.splitlines():
        if line.startswith('<<"BEH"'):
            m = re.match(r'<<"BEH", (".*")>>$', line)
            rows = json.loads(vlib._tla_unquote(m.group(1)))
    if not rows:
        raise vlib.Infra("matrix not emitted")
    ctx.cov["matrix_rows"] = len(rows)
    ctx.cov["states"] = max(ctx.cov["states"], len(rows))          # one matrix row = one evaluated case of the spec
    ctx.cov["transitions"] = max(ctx.cov["transitions"], len(rows))
    ctx.cov["exhaustive"] = not quick
    # the whole matrix in both tiers (it is cheap): pairs of rows of one declaration matter too, because every declaration's rows run
    # through ONE controller handle, forwards and then backwards (an option of an earlier call must not stick to a later one)
    rows = sorted(rows, key=lambda x: json.dumps(x, sort_keys=True))
    ctx.cov["exhaustive"] = True
    ctx.cov["behaviours_replayed"] = len(rows) * 2
    ctx.sample({"row": rows[0]})
    inp = os.path.join(ctx.scratch, "rows.json")
    json.dump(rows, open(inp, "w"))
    binary = vlib.go_build_test(ctx, "c08")
    out = os.path.join(ctx.scratch, "access.ndjson")
    vlib.go_run(ctx, binary, "TestAccess", {"VERIF_IN": inp, "VERIF_OUT": out}, timeout=2400)
    recs = vlib.read_ndjson(out)
    mism, consumed, vr = vlib.validate(ctx, "TraceAccess", "TraceAccess.cfg", out, timeout=2400)
    if consumed != len(recs):
        raise vlib.Infra("TraceAccess consumed %s of %d\n%s" % (consumed, len(recs), vr.out[-2500:]))
    details = [x for x in vr.out.splitlines() if x.startswith('<<"DETAIL"')]
    ctx.cov["traces_validated_against_impl"] += len(recs)
    ctx.sample({"trace_line": recs[0]})
    for i, line in enumerate(mism):
        m = re.match(r'<<"MISMATCH", "([^"]*)", (\d+), "([^"]*)">>', line)
        tid, lno, what = m.group(1), int(m.group(2)), m.group(3)
        rec = recs[lno - 1]
        key = "%s/%s" % (what, rec["op"])
        ctx.violation(key, "%s: %s" % (what, (details[i] if i < len(details) else "")[:700]), {"row": rec})
    # binding self-test
    import copy
    t2 = copy.deepcopy([x for x in recs if x["cls"] == "ok" and x["op"] == "create"][:1])
    if t2:
        t2[0]["after"]["owner"] = "intruder"
        p = os.path.join(ctx.scratch, "aself.ndjson")
        vlib.write_ndjson(p, t2)
        m2, _, _ = vlib.validate(ctx, "TraceAccess", "TraceAccess.cfg", p, name="selftest")
        ctx.cov["binding_selftest"].append({"corrupted": "owner of a created resource", "rejected": len(m2) > 0})
        if not m2:
            raise vlib.Infra("binding self-test: corrupted access row accepted")
    outtrack(ctx, quick)
    ratelimit(ctx, quick)
    ctx.assumptions += ["one namespace; output declarations are by type (as in the API); rate limit 10/s burst 3 in the rate-limit stage (virtual time, 1 ms tolerance)"]


def ratelimit(ctx, quick):
    """Rate limiting of controller changes (WithChangeRateLimit): RateLimit.tla (token bucket, window bound) checked exhaustively;
    TLC-generated call sequences with idle gaps are issued by a probe controller in virtual time, the bucket is replayed by
    TraceRateLimit: every mutating call (allowed or denied) takes exactly one token and waits exactly as long as the policy says,
    reads take none."""
    vlib.mc(ctx, "RateLimit", "MC_RateLimit.cfg", timeout=1200)
    n = 80 if quick else 1500
    behs = vlib.gen_behaviours(ctx, "GenRateLimit", "GenRateLimit.cfg", num=n, depth=200, name="gen-ratelimit",
                               env={"GEN_DEPTH": 25 if quick else 40})[:n]
    ctx.cov["behaviours_replayed"] += len(behs)
    ctx.cov["ratelimit_behaviours"] = len(behs)
    inp = os.path.join(ctx.scratch, "rlbehs.json")
    json.dump(behs, open(inp, "w"))
    binary = vlib.go_build_test(ctx, "c08")
    out = os.path.join(ctx.scratch, "ratelimit.ndjson")
    vlib.go_run(ctx, binary, "TestRateLimit", {"VERIF_IN": inp, "VERIF_OUT": out}, timeout=2400)
    recs = vlib.read_ndjson(out)
    traces = vlib.split_traces(recs)
    mism, consumed, vr = vlib.validate(ctx, "TraceRateLimit", "TraceRateLimit.cfg", out, timeout=1800, name="val-ratelimit")
    if consumed != len(recs):
        raise vlib.Infra("TraceRateLimit consumed %s of %d\n%s" % (consumed, len(recs), vr.out[-2500:]))
    details = [x for x in vr.out.splitlines() if x.startswith('<<"DETAIL"')]
    ctx.cov["traces_validated_against_impl"] += len(traces)
    ctx.cov["ratelimit_calls_judged"] = len(recs) - len(traces)
    ctx.cov["ratelimit_calls_that_waited"] = len([x for x in recs if x["ev"] == "call" and x["t1"] > x["t0"]])
    ctx.sample({"ratelimit_line": next((x for x in recs if x["ev"] == "call" and x["t1"] > x["t0"]), recs[1])})
    bad = set()
    for i, line in enumerate(mism):
        m = re.match(r'<<"MISMATCH", "([^"]*)", (\d+), "([^"]*)">>', line)
        tid, lno, what = m.group(1), int(m.group(2)), m.group(3)
        bad.add(tid)
        ctx.violation("ratelimit/%s/%s" % (what, recs[lno - 1]["c"]), "%s: %s" % (what, (details[i] if i < len(details) else "")[:700]),
                      {"tid": tid, "line": lno, "behaviour": behs[int(tid.split("#")[1])],
                       "trace": [t for t in traces if t[0] == tid][0][1]})
    import copy
    for tid, t in traces:
        idx = [i for i, x in enumerate(t) if x["ev"] == "call" and x["t1"] - x["t0"] > 20]
        if tid in bad or not idx:
            continue
        t2 = copy.deepcopy(t)
        t2[idx[0]]["t1"] = t2[idx[0]]["t0"]
        p = os.path.join(ctx.scratch, "rlself.ndjson")
        vlib.write_ndjson(p, t2[:idx[0] + 1])
        m2, _, _ = vlib.validate(ctx, "TraceRateLimit", "TraceRateLimit.cfg", p, name="selftest-ratelimit")
        ctx.cov["binding_selftest"].append({"corrupted": "a call that waited logged as immediate", "rejected": len(m2) > 0})
        if not m2:
            raise vlib.Infra("binding self-test: corrupted rate-limit trace accepted")
        break


def outtrack(ctx, quick):
    """Output tracking (StartTrackingOutputs / CleanupOutputs): OutTrack.tla checked exhaustively, random walks of it
    replayed through a probe controller on the real runtime, every command judged by TraceOutTrack."""
    vlib.mc(ctx, "MC_OutTrack", "MC_OutTrack_quick.cfg" if quick else "MC_OutTrack_thorough.cfg", timeout=3000)
    n = 200 if quick else 4000
    behs = vlib.gen_behaviours(ctx, "GenOutTrack", "GenOutTrack.cfg", num=n, depth=200, name="gen-outtrack",
                               env={"GEN_DEPTH": 30 if quick else 50})[:n]
    ctx.cov["behaviours_replayed"] += len(behs)
    ctx.cov["outtrack_behaviours"] = len(behs)
    ctx.sample({"outtrack_behaviour_head": behs[0][:8]})
    inp = os.path.join(ctx.scratch, "obehs.json")
    json.dump(behs, open(inp, "w"))
    binary = vlib.go_build_test(ctx, "c08")
    out = os.path.join(ctx.scratch, "outtrack.ndjson")
    vlib.go_run(ctx, binary, "TestOutTrack", {"VERIF_IN": inp, "VERIF_OUT": out}, timeout=2400)
    recs = vlib.read_ndjson(out)
    traces = vlib.split_traces(recs)
    mism, consumed, vr = vlib.validate(ctx, "TraceOutTrack", "TraceOutTrack.cfg", out, timeout=2400, name="val-outtrack")
    if consumed != len(recs):
        raise vlib.Infra("TraceOutTrack consumed %s of %d\n%s" % (consumed, len(recs), vr.out[-2500:]))
    details = [x for x in vr.out.splitlines() if x.startswith('<<"DETAIL"')]
    ctx.cov["traces_validated_against_impl"] += len(traces)
    ctx.cov["outtrack_commands_judged"] = len(recs) - len(traces)
    ctx.cov["outtrack_cleanups"] = {c: len([x for x in recs if x.get("c") == "cleanup" and x.get("cls") == c]) for c in ("ok", "conflict", "panic")}
    ctx.sample({"outtrack_line": recs[1]})
    bad = set()
    for i, line in enumerate(mism):
        m = re.match(r'<<"MISMATCH", "([^"]*)", (\d+), "([^"]*)">>', line)
        tid, lno, what = m.group(1), int(m.group(2)), m.group(3)
        bad.add(tid)
        rec = recs[lno - 1]
        ctx.violation("outtrack/%s/%s" % (what, rec["c"]), "%s: %s" % (what, (details[i] if i < len(details) else "")[:900]),
                      {"tid": tid, "line": lno, "behaviour": behs[int(tid.split("#")[1])],
                       "trace": [t for t in traces if t[0] == tid][0][1]})
    # binding self-test: a successful cleanup whose log claims that a victim survived must be rejected
    import copy
    for tid, t in traces:
        if tid in bad:
            continue
        idx = [i for i, x in enumerate(t) if x.get("c") == "cleanup" and x["cls"] == "ok" and i > 0
               and any(t[i - 1]["res"][k]["ver"] != 0 and x["res"][k]["ver"] == 0 for k in x["res"])]
        if not idx:
            continue
        t2 = copy.deepcopy(t)
        t2[idx[0]]["res"] = copy.deepcopy(t2[idx[0] - 1]["res"])
        p = os.path.join(ctx.scratch, "oself.ndjson")
        vlib.write_ndjson(p, t2)
        m2, _, _ = vlib.validate(ctx, "TraceOutTrack", "TraceOutTrack.cfg", p, name="selftest-outtrack")
        ctx.cov["binding_selftest"].append({"corrupted": "the victims of one successful cleanup put back into the log", "rejected": len(m2) > 0})
        if not m2:
            raise vlib.Infra("binding self-test: corrupted output-tracking trace accepted")
        break


if __name__ == "__main__":
    vlib.main(run, "C08")
