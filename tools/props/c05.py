"""C05 - no lost wake-ups: every input change reaches every dependent controller."""
import vlib, rtlib, pipelib

WHATS = {"registration-race/notification-lost", "lost-wakeup", "lost-wakeup-queue", "mapped-change-not-propagated", "reconcile-of-unknown-controller",
         "valid-registration-rejected", "run-did-not-return-after-cancel"}


def run(ctx):
    quick = ctx.tier == "quick"
    rtlib.model_check(ctx, ["A", "B", "F", "N", "G", "H"] if quick else rtlib.MC_CFGS)
    behs, out = rtlib.drive(ctx, ["A", "B", "C", "D", "E", "F", "G", "H"], 240 if quick else 4000, 70 if quick else 110, hook_prop="C05")
    recs, traces, bad = rtlib.judge(ctx, behs, out, WHATS, "C05")
    rtlib.selftest(ctx, traces, bad)
    # the repository's own controller test suites with the pipeline hooks on: every hand-over of the dedup map is judged
    pipelib.stage(ctx, "C05", ctx.tier)
    # an input change committed while a registration is in progress reaches everybody who had a matching input
    rtlib.registration_races(ctx)
    ctx.assumptions += [
        "dedup/delivery goroutine steps run eagerly on the real code; batching, controller busy time, failures and late starts are scheduled",
        "quiet = nothing recorded during a 3 min virtual-time window after everything was released",
    ]


if __name__ == "__main__":
    vlib.main(run, "C05")
