"""C14 - selector-filtered lists/watches are exact views; one selector semantics."""
import json, os, re
import vlib, watchlib, selectorlib


def run(ctx):
    quick = ctx.tier == "quick"
    recs = selectorlib.run(ctx, quick)
    # filtered watch = change log of the filtered set (rewrite rule), replayed as in C02 with selectors on
    vlib.mc(ctx, "WatchLog", "MC_WatchLog_quick.cfg", timeout=1200)
    configs = [watchlib.RING_CONFIGS[i] for i in ((2,) if quick else (1, 2, 4))]
    groups = watchlib.gen_groups(ctx, configs, 40 if quick else 400, 40 if quick else 60)
    files = watchlib.drive(ctx, groups, extras=False, name="c14w", hook_prop="C14")
    total, rej = watchlib.judge(ctx, groups, files)
    ctx.cov["traces_validated_against_impl"] += total
    wrecs = [r for f in files for r in vlib.read_ndjson(f)]
    ctx.cov["filtered_watches_started"] = len([r for r in wrecs if r["ev"] == "start" and r["filt"]])
    for r in rej:
        tr = r["trace"]
        w = r["record"].get("w")
        started = [x for x in tr if x["ev"] == "start" and x["w"] == w]
        if started and started[0]["filt"]:
            ctx.violation("filtered-watch/%s" % r["what"], "ring %s: %s at line %d: %s" % (r["config"], r["what"], r["line"], r["detail"]), r)
    # filtered subscribers on real threads (bursts consumed as one batch by a lagging watcher: update / destroy / re-create /
    # update of one id with the match flipping in between), judged at the collection's linearization points
    watchlib.threaded(ctx, "C14", 120 if quick else 2500)
    # binding self-test
    import copy
    t2 = copy.deepcopy([x for x in recs if x["kind"] == "label" and x["matched"]][:1])
    t2[0]["matched"] = t2[0]["matched"][1:]
    p = os.path.join(ctx.scratch, "sself.ndjson")
    vlib.write_ndjson(p, t2)
    m2, _, _ = vlib.validate(ctx, "TraceSelector", "TraceSelector.cfg", p, name="selftest")
    ctx.cov["binding_selftest"].append({"corrupted": "one matched label map dropped", "rejected": len(m2) > 0})
    if not m2:
        raise vlib.Infra("binding self-test: corrupted selector line accepted")
    # selectors have to survive the re-establishment of a remote watch: real gRPC connection, server stopped and started again,
    # subscribers with ID and label selectors (driver and judge of C13's real-wire stage)
    import importlib.util
    spec13 = importlib.util.spec_from_file_location("c13", os.path.join(os.path.dirname(os.path.abspath(__file__)), "c13.py"))
    c13 = importlib.util.module_from_spec(spec13)
    spec13.loader.exec_module(c13)
    c13.realwire(ctx, 2 if quick else 20)
    ctx.assumptions += ["curated string set (10 strings) with explicit lexical rank and numeric parse tables; the regexp engine is trusted (ID queries: all sites must agree with regexp.MatchString)"]


if __name__ == "__main__":
    vlib.main(run, "C14")
