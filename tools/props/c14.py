"""C14 - selector-filtered lists/watches are exact views; one selector semantics."""
import json, os, re
import vlib, watchlib


def run(ctx):
    quick = ctx.tier == "quick"
    # the term algebra, checked and emitted by TLC
    r = vlib.tlc(ctx, "MC_Selector", "MC_Selector.cfg", workers=1, timeout=900)
    if not r.completed:
        raise vlib.Infra("MC_Selector did not complete: %s\n%s" % (r.inv or r.error, r.out[-1500:]))
    tab = None
    for line in r.out.splitlines():
        if line.startswith('<<"BEH"'):
            tab = json.loads(vlib._tla_unquote(re.match(r'<<"BEH", (".*")>>$', line).group(1)))
    if not tab:
        raise vlib.Infra("selector table not emitted")
    tab["rows"].sort(key=lambda x: json.dumps(x, sort_keys=True))
    nrows, nmaps = len(tab["rows"]), len(tab["maps"])
    ctx.cov["table_rows"] = nrows
    ctx.cov["label_maps"] = nmaps
    ctx.cov["states"] += nrows * nmaps           # truth-table cells evaluated by the specification
    ctx.cov["transitions"] += nrows * nmaps
    ctx.cov["exhaustive"] = not quick
    if quick:
        tab["rows"] = [x for i, x in enumerate(tab["rows"]) if (i + ctx.seed) % 3 == 0]
    ctx.cov["behaviours_replayed"] = len(tab["rows"])
    ctx.sample({"row": tab["rows"][1], "maps": tab["maps"]})
    inp = os.path.join(ctx.scratch, "table.json")
    json.dump(tab, open(inp, "w"))
    binary = vlib.go_build_test(ctx, "c14")
    out = os.path.join(ctx.scratch, "selectors.ndjson")
    vlib.go_run(ctx, binary, "TestSelectors", {"VERIF_IN": inp, "VERIF_OUT": out, "VERIF_ALL_WATCHES": 0 if quick else 1}, timeout=3000)
    recs = vlib.read_ndjson(out)
    mism, consumed, vr = vlib.validate(ctx, "TraceSelector", "TraceSelector.cfg", out, timeout=3000)
    if consumed != len(recs):
        raise vlib.Infra("TraceSelector consumed %s of %d\n%s" % (consumed, len(recs), vr.out[-2500:]))
    details = [x for x in vr.out.splitlines() if x.startswith('<<"DETAIL"')]
    ctx.cov["traces_validated_against_impl"] += len(recs)
    ctx.cov["site_evaluations"] = {s: len([x for x in recs if x["site"] == s]) for s in sorted({x["site"] for x in recs})}
    ctx.sample({"site_line": recs[1]})
    for i, line in enumerate(mism):
        m = re.match(r'<<"MISMATCH", "([^"]*)", (\d+), "([^"]*)">>', line)
        site, lno, what = m.group(1), int(m.group(2)), m.group(3)
        rec = recs[lno - 1]
        ops = sorted({t["op"] + ("/novalue" if not t["vals"] else "") + ("/inverted" if t["invert"] else "") for q in rec["row"] for t in q})
        ctx.violation("%s/%s/%s" % (what, site, ",".join(ops)[:80]), "%s: %s" % (what, (details[i] if i < len(details) else "")[:700]), {"record": rec})
    # filtered watch = change log of the filtered set (rewrite rule), replayed as in C02 with selectors on
    vlib.mc(ctx, "WatchLog", "MC_WatchLog_quick.cfg", timeout=1200)
    configs = [watchlib.RING_CONFIGS[i] for i in ((2,) if quick else (1, 2, 4))]
    groups = watchlib.gen_groups(ctx, configs, 40 if quick else 400, 40 if quick else 60)
    files = watchlib.drive(ctx, groups, extras=False, name="c14w")
    total, rej = watchlib.judge(ctx, groups, files)
    ctx.cov["traces_validated_against_impl"] += total
    wrecs = [r for f in files for r in vlib.read_ndjson(f)]
    ctx.cov["filtered_watches_started"] = len([r for r in wrecs if r["ev"] == "start" and r["filt"]])
    for r in rej:
        tr = r["trace"]
        w = r["record"].get("w")
        started = [x for x in tr if x["ev"] == "start" and x["w"] == w]
        if started and started[0]["filt"]:
            ctx.violation("filtered-watch/%s" % r["what"], "ring %s: %s at line %d: %s" % (r["config"], r["what"], r["line"], r["detail"]), r)
    # binding self-test
    import copy
    t2 = copy.deepcopy([x for x in recs if x["kind"] == "label" and x["matched"]][:1])
    t2[0]["matched"] = t2[0]["matched"][1:]
    p = os.path.join(ctx.scratch, "sself.ndjson")
    vlib.write_ndjson(p, t2)
    m2, _, _ = vlib.validate(ctx, "TraceSelector", "TraceSelector.cfg", p, name="selftest")
    ctx.cov["binding_selftest"].append({"corrupted": "one matched label map dropped", "rejected": len(m2) > 0})
    if not m2:
        raise vlib.Infra("binding self-test: corrupted selector line accepted")
    ctx.assumptions += ["curated string set (10 strings) with explicit lexical rank and numeric parse tables; the regexp engine is trusted (ID queries: all sites must agree with regexp.MatchString)"]


if __name__ == "__main__":
    vlib.main(run, "C14")
