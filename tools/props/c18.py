"""C18 - every codec round-trips or rejects; decoders are total (partial claim, see DESIGN.md 5.18)."""
import json, os, re
import vlib


def run(ctx):
    quick = ctx.tier == "quick"
    r = vlib.tlc(ctx, "MC_Codec", "MC_Codec.cfg", workers=1, timeout=900)
    if not r.completed:
        raise vlib.Infra("MC_Codec did not complete: %s\n%s" % (r.inv or r.error, r.out[-1500:]))
    inp_data = None
    for line in r.out.splitlines():
        if line.startswith('<<"BEH"'):
            inp_data = json.loads(vlib._tla_unquote(re.match(r'<<"BEH", (".*")>>$', line).group(1)))
    if not inp_data:
        raise vlib.Infra("codec vectors not emitted")
    shapes = sorted(inp_data["shapes"], key=lambda x: json.dumps(x, sort_keys=True))
    ctx.rng.shuffle(shapes)
    if quick:
        # every shape of the small special families (texts with a meaning of their own, generic resources), a sample of the rest
        special = [x for x in shapes if x["txt"] != "plain"]
        shapes = special + [x for x in shapes if x["txt"] == "plain"][:400 - len(special)]
    ctx.cov["special_shapes"] = len([x for x in shapes if x["txt"] != "plain"])
    inp_data["shapes"] = shapes
    inp_data["stackings"] = sorted(inp_data["stackings"])
    inp = os.path.join(ctx.scratch, "vectors.json")
    json.dump(inp_data, open(inp, "w"))
    binary = vlib.go_build_test(ctx, "c18")
    out = os.path.join(ctx.scratch, "codec.ndjson")
    vlib.go_run(ctx, binary, "TestCodecs", {"VERIF_IN": inp, "VERIF_OUT": out, "VERIF_TAMPER_SHAPES": 4 if quick else 40}, timeout=3000)
    recs = vlib.read_ndjson(out)
    mism, consumed, vr = vlib.validate(ctx, "TraceCodec", "TraceCodec.cfg", out, timeout=3000)
    if consumed != len(recs):
        raise vlib.Infra("TraceCodec consumed %s of %d\n%s" % (consumed, len(recs), vr.out[-2500:]))
    details = [x for x in vr.out.splitlines() if x.startswith('<<"DETAIL"')]
    summary = [x for x in recs if x["ev"] == "summary"][0]
    cov = ctx.cov
    cov["evaluations"] = summary["pos"]
    cov["distinct_nontrivial"] = int(summary["note"]) + len(shapes)
    cov["rule"] = ("TLC enumerates 2620 abstract metadata shapes (2592 base, 20 text-class, 8 generic-resource) x 6 marshaler stackings; each shape is concretised and round-tripped "
                   "through 6 stackings (compression threshold placed exactly at / just above the inner encoding size), the protobuf "
                   "wire form, metadata YAML and the version/phase text forms; for a subset of shapes every truncation length and "
                   "four single-byte substitutions at every position of every stacking's encoding, plus a wrong key, are decoded "
                   "under recover. distinct_nontrivial = distinct tampered byte strings decoded + distinct shapes round-tripped.")
    cov["round_trips"] = len([x for x in recs if x["ev"] == "roundtrip"])
    cov["traces_validated_against_impl"] = len(recs)
    cov["states"] = len(shapes)
    cov["transitions"] = len(shapes)
    ctx.sample({"shape": shapes[0]})
    ctx.sample({"tamper_line": next((x for x in recs if x["ev"] == "tamper"), None)})
    for i, line in enumerate(mism):
        m = re.match(r'<<"MISMATCH", "([^"]*)", (\d+), "([^"]*)">>', line)
        codec, lno, what = m.group(1), int(m.group(2)), m.group(3)
        rec = recs[lno - 1]
        cause = rec["note"] if rec.get("note", "").startswith("subsecond") else (rec.get("tamper") or rec["ev"])
        if rec.get("note", "").startswith("kept-encoding-changed"):
            cause = "kept-encoding-changed-by-later-encodings"
        ctx.violation("%s/%s/%s" % (what, codec, cause), "%s: %s" % (what, (details[i] if i < len(details) else "")[:600]), {"record": rec})
    ctx.assumptions += [
        "PARTIAL CLAIM: totality is shown on bounded neighbourhoods of valid encodings (all prefixes, four substitutions per byte), not on arbitrary byte strings "
        "(that would need coverage-guided fuzzing, a different technique)",
        "AES-GCM and zstd are trusted; the YAML resource form with typed specs is not driven (metadata YAML is)",
    ]


if __name__ == "__main__":
    vlib.main(run, "C18", level="exploration")
