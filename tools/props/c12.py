"""C12 - bookmarks resume exactly; stale/foreign bookmarks rejected; tails exact."""
import vlib, watchlib, inmemlib


def run(ctx):
    quick = ctx.tier == "quick"
    # the ring model also carries the bookmark/tail arithmetic (RecentBookmarksAccepted,
    # AcceptedBookmarkRetained, tail starts checked through NoBadDelivery/QuietComplete)
    vlib.mc(ctx, "WatchLog", "MC_WatchLog_c12.cfg", timeout=1200)
    if not quick:
        for cfg in ["MC_WatchLog_t1.cfg", "MC_WatchLog_t2.cfg"]:
            vlib.mc(ctx, "WatchLog", cfg, timeout=3000)
    configs = [watchlib.RING_CONFIGS[i] for i in ((1, 2, 5) if quick else range(6))]
    groups = watchlib.gen_groups(ctx, configs, 25 if quick else 250, 36 if quick else 50)
    ctx.cov["behaviours_replayed"] = sum(len(g["behs"]) for g in groups)
    files = watchlib.drive(ctx, groups, extras=True, name="c12", hook_prop="C12")
    total, rej = watchlib.judge(ctx, groups, files)
    ctx.cov["traces_validated_against_impl"] += total
    recs = vlib.read_ndjson(files[0])
    starts = [r for f in files for r in vlib.read_ndjson(f) if r["ev"] == "start"]
    ctx.cov["watch_starts"] = len(starts)
    ctx.cov["bookmark_resumes"] = len([r for r in starts if r["mode"] == "bookmark" and r["bm"] == "pos"])
    ctx.cov["garbage_bookmarks"] = len([r for r in starts if r["mode"] == "bookmark" and r["bm"] != "pos"])
    ctx.cov["tail_starts"] = len([r for r in starts if r["mode"] == "tail"])
    ctx.cov["bookmarks_rejected_by_code"] = len([r for r in starts if r["res"] == "invalidBookmark"])
    ctx.sample({"starts": [{k: r[k] for k in ("kind", "id", "mode", "n", "p", "bm", "res")} for r in starts[:8]]})
    ctx.sample({"trace_head": recs[:5]})
    for r in rej:
        key = "%s/%s/%s" % (r["what"], r["record"].get("ev"), r["record"].get("mode", ""))
        ctx.violation(key, "ring %s: %s at line %d: %s" % (r["config"], r["what"], r["line"], r["detail"]), r)
    watchlib.selftest(ctx, groups, files, {r["tid"] for r in rej})
    # the repository's own test suites with the hooks on: every watch start, ring read and hand-off they cause is judged
    inmemlib.stage(ctx, "C12", ctx.tier)
    watchlib.threaded(ctx, "C12", 150 if quick else 3000)
    ctx.assumptions += [
        "a foreign incarnation is a bookmark whose cookie was minted by another process (child run of the harness)",
        "tail requests are not combined with selectors (the statement does not say how they compose)",
    ]


if __name__ == "__main__":
    vlib.main(run, "C12")
