"""C09 - reconcile queue: per-item exclusion, coalescing, no loss, honoured backoff."""
import json, os, re, copy
import vlib, queuelib


def run(ctx):
    quick = ctx.tier == "quick"
    vlib.mc(ctx, "Queue", "MC_Queue.cfg" if quick else "MC_Queue_thorough.cfg", timeout=2400)
    vlib.mc(ctx, "Queue", "MC_Queue_live.cfg", timeout=1200)
    n = 300 if quick else 5000
    behs = vlib.gen_behaviours(ctx, "GenQueue", "GenQueue.cfg", num=n, depth=200, env={"GEN_DEPTH": 40 if quick else 60})[:n]
    ctx.cov["behaviours_replayed"] = len(behs)
    ctx.sample({"commands_head": behs[0][:10]})
    inp = os.path.join(ctx.scratch, "qbehs.json")
    json.dump(behs, open(inp, "w"))
    binary = vlib.go_build_test(ctx, "c09")
    out = os.path.join(ctx.scratch, "queue.ndjson")
    henv, hdir = queuelib.traced(ctx, "testqueue")
    vlib.go_run(ctx, binary, "TestQueue", dict({"VERIF_IN": inp, "VERIF_OUT": out}, **henv), timeout=2400)
    # the same executions as the queue's own event loop saw them (transition hooks), judged by the same property-level judge
    queuelib.judge_driver(ctx, hdir, "TestQueue")
    recs = vlib.read_ndjson(out)
    traces = vlib.split_traces(recs)
    mism, consumed, r = vlib.validate(ctx, "TraceQueue", "TraceQueue.cfg", out, timeout=2400)
    if consumed != len(recs):
        raise vlib.Infra("TraceQueue consumed %s of %d\n%s" % (consumed, len(recs), r.out[-2000:]))
    details = [x for x in r.out.splitlines() if x.startswith('<<"DETAIL"')]
    ctx.cov["traces_validated_against_impl"] += len(traces)
    ctx.sample({"trace_head": recs[1:8]})
    bad = set()
    for i, line in enumerate(mism):
        m = re.match(r'<<"MISMATCH", "([^"]*)", (\d+), "([^"]*)">>', line)
        tid, lno, what = m.group(1), int(m.group(2)), m.group(3)
        bad.add(tid)
        ctx.violation("queue/" + what, "%s at line %d: %s" % (what, lno, details[i][:600] if i < len(details) else ""),
                      {"tid": tid, "line": lno, "behaviour": behs[int(tid.split("#")[1])],
                       "trace": [t for t in traces if t[0] == tid][0][1]})
    # part (b): qruntime back-off through a probe QController
    qruntime_part(ctx, binary, quick)
    # part (c): the repository's own test suites (queue stress tests, queue controllers of the conformance suites) run with the
    # transition hooks on; every transition of every queue's event loop is judged
    queuelib.stage(ctx, ctx.tier)
    # binding self-test
    for tid, t in traces:
        idx = [i for i, x in enumerate(t) if x["ev"] == "get" and x["got"] == "item"]
        if tid in bad or not idx:
            continue
        t2 = copy.deepcopy(t)
        t2[idx[-1]]["v"] += 7
        p = os.path.join(ctx.scratch, "qself.ndjson")
        vlib.write_ndjson(p, t2)
        m2, _, _ = vlib.validate(ctx, "TraceQueue", "TraceQueue.cfg", p, name="selftest")
        ctx.cov["binding_selftest"].append({"corrupted": "delivered value", "rejected": len(m2) > 0})
        if not m2:
            raise vlib.Infra("binding self-test: corrupted queue trace accepted")
        break
    ctx.assumptions += ["virtual time of the synctest bubble; any due item may be delivered (order among due items is not part of the property)"]


def qruntime_part(ctx, binary, quick):
    """probe QController whose reconcile outcomes follow a TLC-generated sequence; invocation times in virtual
    time are judged against the back-off envelope / exact requeue intervals (TraceBackoff)."""
    vlib.mc(ctx, "Backoff", "MC_Backoff.cfg", timeout=900)
    n = 60 if quick else 1500
    behs = vlib.gen_behaviours(ctx, "GenBackoff", "GenBackoff.cfg", num=n, depth=60, name="gen-backoff",
                               env={"GEN_DEPTH": 8 if quick else 14})[:n]
    # long streaks of consecutive failures (well beyond the point where the interval reaches its cap)
    ns = 6 if quick else 60
    behs += vlib.gen_behaviours(ctx, "GenBackoff", "GenBackoff.cfg", num=ns, depth=400, name="gen-backoff-streak", workers=2,
                                env={"GEN_DEPTH": 45 if quick else 80, "GEN_ERRONLY": 1})[:ns]
    ctx.cov["long_failure_streaks"] = ns
    # two failing items with outcome sequences of their own: the later deadline of one must not hold up the other's retry
    n2 = 40 if quick else 1000
    behs += vlib.gen_behaviours(ctx, "GenBackoff", "GenBackoff.cfg", num=n2, depth=60, name="gen-backoff-two",
                                env={"GEN_DEPTH": 8 if quick else 14, "GEN_TWO": 1})[:n2]
    ctx.cov["two_failing_items_behaviours"] = n2
    # reconciles that take time before they return: intervals count from the return
    n3 = 30 if quick else 800
    behs += vlib.gen_behaviours(ctx, "GenBackoff", "GenBackoff.cfg", num=n3, depth=60, name="gen-backoff-busy",
                                env={"GEN_DEPTH": 8 if quick else 14, "GEN_BUSY": 1})[:n3]
    ctx.cov["busy_reconcile_behaviours"] = n3
    ctx.cov["behaviours_replayed"] += len(behs)
    ctx.sample({"outcome_sequence": behs[0]["outcomes"]})
    inp = os.path.join(ctx.scratch, "bbehs.json")
    json.dump(behs, open(inp, "w"))
    out = os.path.join(ctx.scratch, "backoff.ndjson")
    vlib.go_run(ctx, binary, "TestBackoff", {"VERIF_IN": inp, "VERIF_OUT": out}, timeout=2400)
    recs = vlib.read_ndjson(out)
    traces = vlib.split_traces(recs)
    mism, consumed, r = vlib.validate(ctx, "TraceBackoff", "TraceBackoff.cfg", out, timeout=1800, name="val-backoff")
    if consumed != len(recs):
        raise vlib.Infra("TraceBackoff consumed %s of %d\n%s" % (consumed, len(recs), r.out[-2000:]))
    details = [x for x in r.out.splitlines() if x.startswith('<<"DETAIL"')]
    ctx.cov["traces_validated_against_impl"] += len(traces)
    ctx.sample({"backoff_trace_head": recs[1:8]})
    for i, line in enumerate(mism):
        m = re.match(r'<<"MISMATCH", "([^"]*)", (\d+), "([^"]*)">>', line)
        tid, lno, what = m.group(1), int(m.group(2)), m.group(3)
        ctx.violation("qruntime/" + what, "%s at line %d: %s" % (what, lno, details[i][:600] if i < len(details) else ""),
                      {"tid": tid, "line": lno, "behaviour": behs[int(tid.split("#")[1])],
                       "trace": [t for t in traces if t[0] == tid][0][1]})


if __name__ == "__main__":
    vlib.main(run, "C09")
