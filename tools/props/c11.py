"""C11 - gRPC transparency: remote state == wrapped state; server never crashes."""
import json, os, re, copy
import vlib, selectorlib


def run(ctx):
    quick = ctx.tier == "quick"
    vlib.mc(ctx, "Remote", "MC_Remote.cfg", timeout=600)
    vlib.mc(ctx, "MC_Store", "MC_Store_quick.cfg", timeout=1200)
    n = 60 if quick else 1200
    behs = vlib.gen_behaviours(ctx, "GenRemote", "GenRemote.cfg", num=n, depth=30 if quick else 45, env={"GEN_DEPTH": 30 if quick else 45})[:n]
    ctx.cov["behaviours_replayed"] = len(behs)
    ctx.sample({"requests_head": [{"op": r["op"], "id": r["k"]["id"], "typ": r["k"]["typ"], "owner": r["owner"]} for r in behs[0][:10]]})
    inp = os.path.join(ctx.scratch, "rbehs.json")
    json.dump(behs, open(inp, "w"))
    binary = vlib.go_build_test(ctx, "c11")
    out = os.path.join(ctx.scratch, "remote.ndjson")
    vlib.go_run(ctx, binary, "TestDifferential", {"VERIF_IN": inp, "VERIF_OUT": out}, timeout=3000)
    recs = vlib.read_ndjson(out)
    traces = vlib.split_traces(recs)
    mism, consumed, r = vlib.validate(ctx, "TraceRemote", "TraceRemote.cfg", out, timeout=3000)
    if consumed != len(recs):
        raise vlib.Infra("TraceRemote consumed %s of %d\n%s" % (consumed, len(recs), r.out[-2500:]))
    details = [x for x in r.out.splitlines() if x.startswith('<<"DETAIL"')]
    ctx.cov["traces_validated_against_impl"] += len(traces)
    ctx.cov["request_pairs"] = len([x for x in recs if x["ev"] == "pair"])
    ctx.cov["watch_streams_compared"] = len([x for x in recs if x["ev"] == "watch"])
    ctx.sample({"pair": {k: v for k, v in recs[1].items() if k in ("req", "d", "r")}})
    bad = set()
    for i, line in enumerate(mism):
        m = re.match(r'<<"MISMATCH", "([^"]*)", (\d+), "([^"]*)">>', line)
        tid, lno, what = m.group(1), int(m.group(2)), m.group(3)
        bad.add(tid)
        rec = recs[lno - 1]
        ctx.violation("%s/%s/%s" % (what, rec.get("req", {}).get("op", rec.get("w", "")), tid.split("#")[0]),
                      "%s at line %d: %s" % (what, lno, (details[i] if i < len(details) else "")[:700]),
                      {"tid": tid, "line": lno, "behaviour": behs[int(tid.split("#")[1])], "record": rec})
    malformed(ctx, binary, quick)
    for tid, t in traces:
        idx = [i for i, x in enumerate(t) if x["ev"] == "pair" and x["r"]["out"]]
        if tid in bad or not idx:
            continue
        t2 = copy.deepcopy(t)
        t2[idx[0]]["r"]["out"][0]["v"]["owner"] = "intruder"
        p = os.path.join(ctx.scratch, "rself.ndjson")
        vlib.write_ndjson(p, t2)
        m2, _, _ = vlib.validate(ctx, "TraceRemote", "TraceRemote.cfg", p, name="selftest")
        ctx.cov["binding_selftest"].append({"corrupted": "owner written back on the remote side", "rejected": len(m2) > 0})
        if not m2:
            raise vlib.Infra("binding self-test: corrupted differential trace accepted")
        break
    selectors(ctx, quick)
    ctx.assumptions += ["real gRPC over a unix socket; watch streams are compared after the remote side caught up (5 s budget)",
                        "racing calls are not part of the differential replay (sequential sequences)"]


def malformed(ctx, binary, quick):
    """The wire-level request lattice enumerated by TLC, sent with a raw client to a server in a child process."""
    r = vlib.tlc(ctx, "MC_Malformed", "MC_Malformed.cfg", workers=1, timeout=600, name="lattice")
    if not r.completed:
        raise vlib.Infra("MC_Malformed did not complete: %s" % (r.inv or r.error))
    shapes = None
    for line in r.out.splitlines():
        if line.startswith('<<"BEH"'):
            shapes = json.loads(vlib._tla_unquote(re.match(r'<<"BEH", (".*")>>$', line).group(1)))
    if not shapes:
        raise vlib.Infra("request lattice not emitted")
    shapes.sort(key=lambda x: json.dumps(x, sort_keys=True))
    if quick:
        shapes = [x for i, x in enumerate(shapes) if x.get("noopt") or (i + ctx.seed) % 2 == 0]   # option-less requests always
    ctx.cov["request_shapes_sent"] = len(shapes)
    ctx.cov["states"] += len(shapes)
    ctx.cov["transitions"] += len(shapes)
    inp = os.path.join(ctx.scratch, "shapes.json")
    json.dump(shapes, open(inp, "w"))
    out = os.path.join(ctx.scratch, "malformed.ndjson")
    vlib.go_run(ctx, binary, "TestMalformed", {"VERIF_IN": inp, "VERIF_OUT": out}, timeout=2400)
    recs = vlib.read_ndjson(out)
    mism, consumed, vr = vlib.validate(ctx, "TraceMalformed", "TraceMalformed.cfg", out, timeout=1200, name="val-malformed")
    if consumed != len(recs):
        raise vlib.Infra("TraceMalformed consumed %s of %d\n%s" % (consumed, len(recs), vr.out[-2000:]))
    details = [x for x in vr.out.splitlines() if x.startswith('<<"DETAIL"')]
    ctx.cov["traces_validated_against_impl"] += len(recs)
    ctx.sample({"malformed_request": recs[0]})
    for i, line in enumerate(mism):
        m = re.match(r'<<"MISMATCH", "([^"]*)", (\d+), "([^"]*)">>', line)
        lno, what = int(m.group(2)), m.group(3)
        rec = recs[lno - 1]
        sig = "%s/%s" % (rec["rpc"], rec["lop"] if rec["lop"] != "none" else (rec["w"] if rec["w"] != "none" else rec["res"]))
        if what == "server-process-crashed" and rec["lop"] not in ("none",) and rec["nval"] == 0:
            sig = "label-term-without-value"
        if what == "server-process-crashed" and rec.get("noopt"):
            sig = "%s-without-options" % rec["rpc"].lower()
        ctx.violation("%s/%s" % (what, sig), "%s: %s" % (what, (details[i] if i < len(details) else "")[:500]), {"request": rec})


def selectors(ctx, quick):
    """Label / ID queries are translated on the wire: multi-term selectors evaluated remotely must select what the algebra
    (and the local state) selects; only the remote sites count here, C14 judges every site."""
    selectorlib.run(ctx, quick, sites={"remote-list", "remote-watch-bootstrap"}, only_multi=True, prefix="query-translation/")


if __name__ == "__main__":
    vlib.main(run, "C11")
