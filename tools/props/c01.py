"""C01 - store operations are linearizable w.r.t. the sequential resource-store spec."""
import json, os, re
import vlib, inmemlib


def run(ctx):
    quick = ctx.tier == "quick"
    # S1: the sequential specification itself
    vlib.mc(ctx, "MC_Store", "MC_Store_quick.cfg" if quick else "MC_Store_thorough.cfg", timeout=1500)

    # S1u: the same sequential store for UNBOUNDED versions / clocks / histories: Apalache shows IndInv inductive and the action
    # properties (version discipline, creation time constant within an incarnation, never removed with finalizers, failed calls
    # leave the store untouched, one key per step) for every step from every state satisfying it (spec/ApaStore.tla)
    vlib.apalache(ctx, "ApaStore", "Init", "IndInv", 0)
    vlib.apalache(ctx, "ApaStore", "IndInit", "IndInv", 1)
    vlib.apalache(ctx, "ApaStore", "IndInit", "ActionInv", 1)
    # S1p: the same safety core for ARBITRARY key / owner / finalizer sets: a TLAPS proof (spec/StoreProof.tla: IndInv inductive,
    # version discipline, never removed with finalizers, fresh incarnations are newer)
    vlib.tlaps(ctx, "StoreProof")
    if not quick:
        mutp = ctx.sub("tlapsmut")
        srcp = open(os.path.join(vlib.SPEC, "StoreProof.tla")).read()
        assert "/\\ store[k].ver > 0 /\\ store[k].owner = o /\\ store[k].fins = {}" in srcp
        open(os.path.join(mutp, "StoreProofMut.tla"), "w").write(
            srcp.replace("MODULE StoreProof", "MODULE StoreProofMut").replace("/\\ store[k].ver > 0 /\\ store[k].owner = o /\\ store[k].fins = {}", "/\\ store[k].ver > 0 /\\ store[k].owner = o"))
        vlib.tlaps(ctx, "StoreProofMut", expect_proved=False, specdir=mutp)
        ctx.cov["binding_selftest"].append({"tlaps_mutant": "Destroy without the finalizer check", "proof_fails": True})
    if not quick:
        # non-vacuity: a store that forgets the finalizer check of Destroy must be refuted by the same run
        mut = ctx.sub("apamut")
        src = open(os.path.join(vlib.SPEC, "ApaStore.tla")).read()
        assert 'ELSE IF c.fins # {} THEN "conflict"' in src
        open(os.path.join(mut, "ApaStoreMut.tla"), "w").write(
            src.replace("MODULE ApaStore", "MODULE ApaStoreMut").replace('ELSE IF c.fins # {} THEN "conflict"', 'ELSE IF FALSE THEN "conflict"'))
        vlib.apalache(ctx, "ApaStoreMut", "IndInit", "ActionInv", 1, expect="Error", specdir=mut)
        ctx.cov["binding_selftest"].append({"apalache_mutant": "Destroy without the finalizer check", "refuted": True})

    # S2: TLC-generated request sequences replayed on every stack
    nb, depth = (60, 25) if quick else (600, 40)
    behs = vlib.gen_behaviours(ctx, "MC_Store", "Gen_Store.cfg", num=nb, depth=depth,
                               env={"GEN_DEPTH": depth})
    behs = behs[:nb]
    inp = os.path.join(ctx.scratch, "behs.json")
    json.dump(behs, open(inp, "w"))
    ctx.cov["behaviours_replayed"] = len(behs)
    ctx.sample({"behaviour": behs[0][:6]})
    binary = vlib.go_build_test(ctx, "c01")
    seq = os.path.join(ctx.scratch, "seq.ndjson")
    henv, hdir = inmemlib.traced(ctx, "seq")
    vlib.go_run(ctx, binary, "TestSeq", dict({"VERIF_IN": inp, "VERIF_OUT": seq}, **henv), timeout=1500)
    # S3h: the same executions seen from inside: linearization-point traces of every in-memory collection (TraceInmem)
    inmemlib.judge_driver(ctx, "C01", hdir, "TestSeq", max_collections=1500 if quick else 6000)
    recs = vlib.read_ndjson(seq)
    traces = vlib.split_traces(recs)
    ctx.sample({"trace_line": recs[1]})
    ctx.cov["injected_backing_store_failures"] = len([x for x in recs if x.get("err") == "verif: injected backing store failure"])

    # S3a: sequential traces judged by TraceStore
    mism, consumed, r = vlib.validate(ctx, "TraceStore", "TraceStore.cfg", seq, timeout=1500)
    if consumed != len(recs):
        raise vlib.Infra("TraceStore consumed %s of %d lines\n%s" % (consumed, len(recs), r.out[-2000:]))
    details = [x for x in r.out.splitlines() if x.startswith('<<"DETAIL"')]
    prec = r.printed("PRECEDENCE")
    ctx.cov["precedence_disagreements"] = int(re.search(r"(\d+)>>", prec[-1]).group(1)) if prec else None
    bad_tids = set()
    for i, line in enumerate(mism):
        m = re.match(r'<<"MISMATCH", "([^"]*)", (\d+), "([^"]*)", "([^"]*)", "([^"]*)">>', line)
        tid, lno, what, op, cls = m.group(1), int(m.group(2)), m.group(3), m.group(4), m.group(5)
        bad_tids.add(tid)
        stack = tid.split("#")[0]
        det = details[i] if i < len(details) else ""
        sig = ""
        if what == "predicates":
            got = re.findall(r'(\w+) \|-> \\"(\w)\\"', det)
            half = len(got) // 2
            exp_d, got_d = dict(got[:half]), dict(got[half:])
            sig = ",".join("%s=%s" % (k, got_d[k]) for k in sorted(got_d) if got_d[k] != exp_d.get(k))
        key = "%s/%s/%s/%s%s" % (what, op, cls, _stack_family(stack), ("/" + sig) if sig else "")
        ctx.violation(key, "stack %s: %s of %s (class %s) differs from the sequential specification; %s" % (
            stack, what, op, cls, det[:600]), {"tid": tid, "line": lno, "record": recs[lno - 1],
                                                  "trace": [t for t in traces if t[0] == tid][0][1][:lno + 1]})
    ctx.cov["traces_validated_against_impl"] += len(traces)
    ctx.cov["seq_traces_rejected"] = len(bad_tids)

    # S3b: concurrent histories judged by TraceStoreLin
    nconc, cdepth = (12, 30) if quick else (80, 40)
    cbehs = vlib.gen_behaviours(ctx, "MC_Store", "Gen_StoreConc.cfg", num=nconc, depth=cdepth, name="gen-conc",
                                env={"GEN_DEPTH": cdepth})[:nconc]
    cin = os.path.join(ctx.scratch, "cbehs.json")
    json.dump(cbehs, open(cin, "w"))
    conc = os.path.join(ctx.scratch, "conc.ndjson")
    henv, hdir = inmemlib.traced(ctx, "conc")
    vlib.go_run(ctx, binary, "TestConc", dict({"VERIF_IN": cin, "VERIF_OUT": conc, "VERIF_CLIENTS": 3 if quick else 4}, **henv),
                timeout=1500)
    # real-thread histories judged at their linearization points: no search, the lock order is the trace order
    inmemlib.judge_driver(ctx, "C01", hdir, "TestConc")
    if not quick:
        vlib.race_stage(ctx, "c01", "TestConc", {"VERIF_IN": cin, "VERIF_OUT": conc, "VERIF_CLIENTS": 4})
    ctraces = vlib.split_traces(vlib.read_ndjson(conc))
    acc, rej = vlib.validate_highwater(ctx, "TraceStoreLin", "TraceStoreLin.cfg", ctraces, name="lin", timeout=1500)
    ctx.cov["traces_validated_against_impl"] += len(ctraces)
    ctx.cov["concurrent_histories"] = len(ctraces)
    ctx.sample({"concurrent_history_head": ctraces[0][1][1:5]})
    for tid, lno, rec, trace in rej:
        stack = tid.split("#")[0]
        key = "lin/%s/%s/%s" % (rec.get("ev"), rec.get("req", {}).get("op"), _stack_family(stack))
        ctx.violation(key, "stack %s: no linearization explains line %d (%s %s -> %s)" % (
            stack, lno, rec.get("ev"), rec.get("req", {}).get("op"), rec.get("cls")),
            {"tid": tid, "line": lno, "trace": trace})

    # binding self-test: corrupt one recorded field of an accepted trace -> must be rejected
    good = [t for t in traces if t[0] not in bad_tids]
    if good:
        import copy
        t = copy.deepcopy(good[len(good) // 2][1])
        idx = next((i for i, x in enumerate(t) if x.get("ev") == "op" and x.get("contents")), None)
        if idx is not None:
            t[idx]["contents"][0]["v"]["ver"] += 1
            p = os.path.join(ctx.scratch, "selftest.ndjson")
            vlib.write_ndjson(p, t)
            m2, _, _ = vlib.validate(ctx, "TraceStore", "TraceStore.cfg", p, name="selftest")
            ok = len(m2) > 0
            ctx.cov["binding_selftest"].append({"corrupted": "contents[0].ver+1", "rejected": ok})
            if not ok:
                raise vlib.Infra("binding self-test: corrupted trace was accepted")
    first_access(ctx, quick)
    filter_stage(ctx, quick, behs)
    # S3r: the repository's own test suites, run with the hooks on; every critical section they cause is judged
    inmemlib.stage(ctx, "C01", ctx.tier)
    ctx.assumptions += [
        "real-thread histories sample schedules; they do not enumerate interleavings inside the collection mutex",
        "creation-time classes are compared in the sequential replay only",
        "hook traces (TraceInmem) cover the in-memory collection only; the other stacks are judged from the outside (TraceStore)",
        "the runtime's cached wrapper is excluded (eventual consistency is C15's subject)",
    ]


def first_access(ctx, quick):
    """S3c: histories that start on a restarted persistent-backed state whose first access is made by two clients at once
    (one parked inside the backing store's Load): driver and judge of C10 (TracePersist, raceread lines)."""
    n = 36 if quick else 600
    behs = vlib.gen_behaviours(ctx, "GenPersist", "GenPersist.cfg", num=n, depth=20, name="gen-firstaccess",
                               env={"GEN_DEPTH": 14 if quick else 20})[:n]
    for b in behs:
        for i, st in enumerate(b):
            st["fault"] = "crashRace" if i % 3 == 2 else "none"
    inp = os.path.join(ctx.scratch, "fbehs.json")
    json.dump(behs, open(inp, "w"))
    binary = vlib.go_build_test(ctx, "c10")
    out = os.path.join(ctx.scratch, "firstaccess.ndjson")
    vlib.go_run(ctx, binary, "TestPersist", {"VERIF_IN": inp, "VERIF_OUT": out}, timeout=1500)
    recs = vlib.read_ndjson(out)
    traces = vlib.split_traces(recs)
    mism, consumed, r = vlib.validate(ctx, "TracePersist", "TracePersist.cfg", out, timeout=1500, name="val-firstaccess")
    if consumed != len(recs):
        raise vlib.Infra("TracePersist consumed %s of %d\n%s" % (consumed, len(recs), r.out[-2000:]))
    details = [x for x in r.out.splitlines() if x.startswith('<<"DETAIL"')]
    ctx.cov["behaviours_replayed"] += len(behs)
    ctx.cov["traces_validated_against_impl"] += len(traces)
    ctx.cov["concurrent_first_accesses_after_restart"] = len([x for x in recs if x["ev"] == "raceread"]) // 2
    for i, line in enumerate(mism):
        m = re.match(r'<<"MISMATCH", "([^"]*)", (\d+), "([^"]*)">>', line)
        tid, lno, what = m.group(1), int(m.group(2)), m.group(3)
        ctx.violation("persistent/%s/%s" % (what, recs[lno - 1].get("req", {}).get("op", "")),
                      "persistent-backed state, %s at line %d: %s" % (what, lno, (details[i] if i < len(details) else "")[:600]),
                      {"tid": tid, "line": lno, "behaviour": behs[int(tid.split("#")[1])],
                       "trace": [t for t in traces if t[0] == tid][0][1][:lno + 1]})


def filter_stage(ctx, quick, behs):
    """S3d: the access-rule wrapper state.Filter (Filter.tla): the rule is consulted exactly once per call with the access the
    call makes, a denied call never reaches the wrapped state and returns the rule's error, an allowed call is transparent."""
    sub = behs[:40 if quick else 400]
    inp = os.path.join(ctx.scratch, "filterbehs.json")
    json.dump(sub, open(inp, "w"))
    binary = vlib.go_build_test(ctx, "c01")
    out = os.path.join(ctx.scratch, "filter.ndjson")
    vlib.go_run(ctx, binary, "TestFilter", {"VERIF_IN": inp, "VERIF_OUT": out}, timeout=1500)
    recs = vlib.read_ndjson(out)
    mism, consumed, r = vlib.validate(ctx, "TraceFilter", "TraceFilter.cfg", out, timeout=1500, name="val-filter")
    if consumed != len(recs):
        raise vlib.Infra("TraceFilter consumed %s of %d\n%s" % (consumed, len(recs), r.out[-2000:]))
    details = [x for x in r.out.splitlines() if x.startswith('<<"DETAIL"')]
    calls = [x for x in recs if x["ev"] == "call"]
    ctx.cov["filter_calls_judged"] = len(calls)
    ctx.cov["filter_calls_denied"] = len([x for x in calls if x["cls"] == "denied"])
    ctx.cov["traces_validated_against_impl"] += len(sub)
    for i, line in enumerate(mism):
        m = re.match(r'<<"MISMATCH", "([^"]*)", (\d+), "([^"]*)">>', line)
        tid, lno, what = m.group(1), int(m.group(2)), m.group(3)
        ctx.violation("filter/%s/%s" % (what, recs[lno - 1]["op"]), "state.Filter: %s: %s" % (what, (details[i] if i < len(details) else "")[:600]),
                      {"tid": tid, "line": lno, "record": recs[lno - 1]})
    good = [x for x in calls if x["cls"] == "denied"]
    if good:
        import copy
        t2 = [copy.deepcopy(good[0])]
        t2[0]["ninner"] = 1
        p = os.path.join(ctx.scratch, "fself.ndjson")
        vlib.write_ndjson(p, t2)
        m2, _, _ = vlib.validate(ctx, "TraceFilter", "TraceFilter.cfg", p, name="selftest-filter")
        ctx.cov["binding_selftest"].append({"corrupted": "a denied call logged as having reached the state", "rejected": len(m2) > 0})
        if not m2:
            raise vlib.Infra("binding self-test: corrupted filter trace accepted")


def _stack_family(stack):
    return "remote" if stack == "remote" else "local"


if __name__ == "__main__":
    vlib.main(run, "C01")
