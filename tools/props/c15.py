"""C15 - runtime read cache is coherent with the state and with notifications."""
import json, os, re, copy
import vlib, rtlib, selectorlib

WHATS = {"cache-incoherent-when-quiet", "cached-read-went-backwards", "lost-wakeup", "lost-wakeup-queue", "cached-ctx-not-cancelled", "cached-ctx-cancelled-spuriously"}


def run(ctx):
    quick = ctx.tier == "quick"
    # white box: the cache itself
    vlib.mc(ctx, "Cache", "MC_Cache.cfg" if quick else "MC_Cache_thorough.cfg", timeout=2400)
    n = 300 if quick else 6000
    behs = vlib.gen_behaviours(ctx, "GenCache", "GenCache.cfg", num=n, depth=100)[:n]
    ctx.cov["behaviours_replayed"] = len(behs)
    ctx.sample({"cache_ops": behs[0]})
    inp = os.path.join(ctx.scratch, "cbehs.json")
    json.dump(behs, open(inp, "w"))
    binary = vlib.go_build_test(ctx, "c15")
    out = os.path.join(ctx.scratch, "cache.ndjson")
    vlib.go_run(ctx, binary, "TestCache", {"VERIF_IN": inp, "VERIF_OUT": out}, timeout=2400)
    recs = vlib.read_ndjson(out)
    traces = vlib.split_traces(recs)
    mism, consumed, r = vlib.validate(ctx, "TraceCache", "TraceCache.cfg", out, timeout=2400)
    if consumed != len(recs):
        raise vlib.Infra("TraceCache consumed %s of %d\n%s" % (consumed, len(recs), r.out[-2500:]))
    details = [x for x in r.out.splitlines() if x.startswith('<<"DETAIL"')]
    ctx.cov["traces_validated_against_impl"] += len(traces)
    ctx.sample({"cache_trace_head": recs[1:7]})
    bad = set()
    for i, line in enumerate(mism):
        m = re.match(r'<<"MISMATCH", "([^"]*)", (\d+), "([^"]*)">>', line)
        tid, lno, what = m.group(1), int(m.group(2)), m.group(3)
        bad.add(tid)
        ctx.violation("cache/" + what, "%s at line %d: %s" % (what, lno, (details[i] if i < len(details) else "")[:700]),
                      {"tid": tid, "line": lno, "behaviour": behs[int(tid.split("#")[1])],
                       "trace": [t for t in traces if t[0] == tid][0][1]})
    for tid, t in traces:
        idx = [i for i, x in enumerate(t) if x["ev"] == "done" and x["res"]]
        if tid in bad or not idx:
            continue
        t2 = copy.deepcopy(t)
        t2[idx[0]]["res"][0]["ver"] += 1
        p = os.path.join(ctx.scratch, "cself.ndjson")
        vlib.write_ndjson(p, t2)
        m2, _, _ = vlib.validate(ctx, "TraceCache", "TraceCache.cfg", p, name="selftest")
        ctx.cov["binding_selftest"].append({"corrupted": "version returned by a cached read", "rejected": len(m2) > 0})
        if not m2:
            raise vlib.Infra("binding self-test: corrupted cache trace accepted")
        break
    # black box: cached kinds through the real pipeline (configs C and D have cached kinds)
    rtlib.model_check(ctx, ["C"] if quick else ["C", "D"])
    rbehs, rout = rtlib.drive(ctx, ["C", "D"], 80 if quick else 1600, 70 if quick else 110, name="rt15", hook_prop="C15")
    rtlib.judge(ctx, rbehs, rout, WHATS, "C15")
    # label/ID filtered cached lists at quiet: the selector algebra's table (TLC) evaluated by the runtime's cache List
    # and judged against the algebra (the uncached List of the same table is judged in the same trace)
    selectorlib.run(ctx, quick, sites={"cache-list"}, prefix="cached-filter/")
    ctx.assumptions += [
        "white box through the verif facade (type aliases only); black box through Runtime.CachedState() and controller reads",
    ]


if __name__ == "__main__":
    vlib.main(run, "C15")
