#!/bin/sh
# usage: seed_regress.sh [seed ids...] : for every kept seeded change, apply it in a scratch worktree of /repo's HEAD,
# run the checks named in its meta.json against that tree (quick tier), expect exit 1; remove the worktree.
cd /verif || exit 2
IDS="$*"; [ -z "$IDS" ] && IDS=$(ls seeded)
WT=/tmp/wt-regress-$$
for id in $IDS; do
  git -C /repo worktree remove --force $WT 2>/dev/null
  git -C /repo worktree add -q --detach $WT HEAD || exit 2
  if grep -q neutralised_by_fix /verif/seeded/$id/meta.json; then echo "$id: neutralised by a later fix (skipped)"; continue; fi
  if grep -q '"undetected": true' /verif/seeded/$id/meta.json; then echo "$id: recorded as not detected yet (open gap, DESIGN.md 9.12)"; continue; fi
  if ! git -C $WT apply --3way /verif/seeded/$id/patch.diff 2>/tmp/seed_regress.err; then echo "$id: patch does not apply ($(head -1 /tmp/seed_regress.err))"; continue; fi
  CHECKS=$(python3 -c "import json;print(' '.join(json.load(open('/verif/seeded/$id/meta.json'))['checks']))")
  [ -n "$ONLY_FIRST" ] && CHECKS=$(echo $CHECKS | cut -d' ' -f1)
  for c in $CHECKS; do
    out=$(tools/seed_run_wt.sh $WT $c 2>&1 | head -2 | cut -c1-200)
    case "$out" in *"rc=1"*) echo "$id $c DETECTED :: $(echo "$out" | tail -1)";; *) echo "$id $c NOT-DETECTED :: $out";; esac
  done
done
git -C /repo worktree remove --force $WT 2>/dev/null
