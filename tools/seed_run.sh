#!/bin/sh
# usage: seed_run.sh <seeded dir> <check ids...> : applies the seeded change to /repo, runs the checks (quick), reverts
S="$1"; shift
cd /repo || exit 2
[ -z "$(git status --porcelain)" ] || { echo "/repo not clean"; exit 2; }
git apply "$S/patch.diff" || { echo "patch does not apply"; exit 2; }
for id in "$@"; do
  out=$(/verif/bin/check "$id" "${TIER:-quick}" 2>&1); rc=$?
  echo "$id rc=$rc :: $(echo "$out" | grep -E 'done:|INFRA' | tail -1 | cut -c1-160)"
  echo "$out" | grep -E "^  key=" | head -4 | cut -c1-260
done
git checkout -- . ; git status --porcelain | head -3
