#!/usr/bin/env python3
"""Validates MANIFEST.json and evidence files against the schemas (uses jsonschema from the tooling venv if present)."""
import json, sys, glob, os
try:
    import jsonschema
except ImportError:
    sys.path.insert(0, glob.glob("/opt/veriftools/pyvenv/lib/python3*/site-packages")[0])
    import jsonschema
V = os.path.dirname(os.path.dirname(os.path.abspath(__file__)))
jsonschema.validate(json.load(open(V + "/MANIFEST.json")), json.load(open("/root/.vp/MANIFEST.schema.json")))
es = json.load(open("/root/.vp/EVIDENCE.schema.json"))
for f in sorted(glob.glob(V + "/evidence/C*.json")):
    jsonschema.validate(json.load(open(f)), es)
    print("ok", os.path.basename(f))
print("manifest ok")
