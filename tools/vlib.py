"""Shared machinery for the /verif checks: scratch handling, TLC runs, Go harness runs,
trace validation, known findings, evidence.

Exit codes: 0 = everything explored held, 1 = VIOLATION (printed), 2 = infrastructure/vacuity.
"""
import json, os, re, shutil, subprocess, sys, tempfile, time, random, glob

VERIF = os.path.dirname(os.path.dirname(os.path.abspath(__file__)))
REPO = os.environ.get("VERIF_REPO", "/repo")
SPEC = os.path.join(VERIF, "spec")
HARNESS = os.path.join(VERIF, "harness")
EVID = os.environ.get("VERIF_EVID") or os.path.join(VERIF, "evidence")   # VERIF_EVID / VERIF_REPO: development aids (seeded-change runs on a scratch tree)
NCPU = os.cpu_count() or 4

GOENV = {
    "GOFLAGS": "-mod=mod", "GOPROXY": "off", "GOSUMDB": "off", "GOTOOLCHAIN": "local",
}
GO = shutil.which("go1.26.8") or "go"


class Infra(Exception):
    """Infrastructure problem: exit 2, never a violation."""


class Crash(Exception):
    """The code under test panicked inside a driver (top frame of the panicking goroutine is in the repository's
    packages, not in the harness): observed behaviour of the real code, reported as a violation."""
    def __init__(self, run, func, text):
        Exception.__init__(self, "%s: panic in %s" % (run, func))
        self.run, self.func, self.text = run, func, text


def _repo_race(out):
    """First repository function named in a data race report of the race detector (None if there is no report)."""
    i = out.find("WARNING: DATA RACE")
    if i < 0:
        return None
    for ln in out[i:].splitlines()[1:40]:
        ln = ln.strip()
        if ln.startswith("github.com/cosi-project/runtime/"):
            return ln.split("(")[0] if ".(*" not in ln else ln.rsplit("(", 1)[0]
    return "unknown"


def _repo_panic(out):
    """Returns the function of the first frame of the panicking goroutine if that frame is repository code."""
    i = out.find("\npanic: ")
    if i < 0 and not out.startswith("panic: "):
        return None
    lines = out[max(i, 0):].splitlines()
    for k, ln in enumerate(lines):
        if ln.startswith("goroutine ") and "[running" in ln:
            for fr in lines[k + 1:k + 12]:
                fr = fr.strip()
                if not fr or fr.startswith("/") or fr.startswith("panic(") or fr.startswith("runtime.") or fr.startswith("created by"):
                    continue
                if fr.startswith("github.com/cosi-project/runtime/"):
                    return fr.split("(")[0] if not fr.startswith("github.com/cosi-project/runtime/pkg/state/impl/inmem.(*") else fr.rsplit("(", 1)[0]
                return None
    return None


class Ctx:
    def __init__(self, prop, tier, level="model_checking"):
        self.prop = prop
        self.tier = tier
        self.level = level
        self.seed = int(os.environ.get("VERIF_SEED", "1"))
        self.rng = random.Random(self.seed)
        self.t0 = time.time()
        base = os.environ.get("VERIF_SCRATCH") or tempfile.gettempdir()
        self.scratch = tempfile.mkdtemp(prefix="verif-%s-" % prop, dir=base)
        self.cov = {"states": 0, "transitions": 0, "traces_validated_against_impl": 0,
                    "samples": [], "configs": [], "behaviours_replayed": 0,
                    "binding_selftest": [], "vacuity": [], "known_findings_seen": []}
        self.assumptions = []
        self.violations = []   # list of dict(key, what, replay)
        self.known = load_known()
        self.keep = bool(os.environ.get("VERIF_KEEP"))

    # ---- bookkeeping -------------------------------------------------------------------
    def sub(self, name):
        d = os.path.join(self.scratch, name)
        os.makedirs(d, exist_ok=True)
        return d

    def sample(self, s, limit=6):
        if len(self.cov["samples"]) < limit:
            self.cov["samples"].append(s)

    def log(self, *a):
        print("[%s %s %6.1fs]" % (self.prop, self.tier, time.time() - self.t0), *a, flush=True)

    def violation(self, key, what, replay_payload):
        """Report a property violation observed on the real code. `key` identifies it for
        known_findings.json. Returns True if it is a listed open finding."""
        for k in self.known:
            if k.get("property") == self.prop and k.get("status") == "open" and k.get("key") == key:
                if key not in self.cov["known_findings_seen"]:
                    self.cov["known_findings_seen"].append(key)
                    print("KNOWN-FINDING: property=%s %s" % (self.prop, k.get("what", key)), flush=True)
                return True
        for v in self.violations:
            if v["key"] == key:
                v["count"] = v.get("count", 1) + 1
                return False
        rdir = os.path.join(EVID, "replays")
        os.makedirs(rdir, exist_ok=True)
        path = os.path.join(rdir, "%s-%s-%d-%d.json" % (self.prop, self.tier, self.seed, len(self.violations)))
        with open(path, "w") as f:
            json.dump({"property": self.prop, "key": key, "what": what, "seed": self.seed,
                       "tier": self.tier, "payload": replay_payload}, f, indent=1, default=str)
        self.violations.append({"key": key, "what": what, "replay": path})
        print("VIOLATION property=%s replay=%s" % (self.prop, path), flush=True)
        print("  key=%s :: %s" % (key, what), flush=True)
        return False

    def finish(self):
        cov = self.cov
        cov.setdefault("evaluations", max(1, cov.get("behaviours_replayed", 0) + cov["traces_validated_against_impl"]))
        ev = {
            "property_id": self.prop, "tier": self.tier, "seed": self.seed, "level": self.level,
            "coverage": cov, "assumptions": self.assumptions,
            "wall_s": round(time.time() - self.t0, 2), "violations": len(self.violations),
        }
        if not cov["samples"]:
            cov["samples"] = ["(no sample recorded)"]
        os.makedirs(EVID, exist_ok=True)
        with open(os.path.join(EVID, "%s.json" % self.prop), "w") as f:
            json.dump(ev, f, indent=1, default=str)
        if not self.keep:
            shutil.rmtree(self.scratch, ignore_errors=True)
        self.log("done: states=%d transitions=%d traces=%d violations=%d" % (
            cov["states"], cov["transitions"], cov["traces_validated_against_impl"], len(self.violations)))
        return 1 if self.violations else 0


def load_known():
    p = os.path.join(VERIF, "known_findings.json")
    if not os.path.exists(p):
        return []
    with open(p) as f:
        return json.load(f).get("findings", [])


# ---------------------------------------------------------------------------------------------
# TLC
# ---------------------------------------------------------------------------------------------
_STATS = re.compile(r"(\d+) states generated, (\d+) distinct states found, (\d+) states left on queue")


def _unwrap(out):
    """TLC pretty-prints a printed tuple that is wider than 80 columns over several lines (`<< "MISMATCH",` / indented
    elements / `... >>`). Join such tuples back into the one-line form `<<"MISMATCH", ...>>` the parsers expect."""
    res, cur = [], None
    for ln in out.splitlines():
        if cur is not None:
            if ln.startswith("   ") or ln.startswith("\t"):
                cur.append(ln.strip())
                continue
            res.append(_canon(" ".join(cur)))
            cur = None
        if ln.startswith("<< "):
            cur = [ln.strip()]
        else:
            res.append(ln)
    if cur is not None:
        res.append(_canon(" ".join(cur)))
    return "\n".join(res)


def _canon(t):
    if t.startswith("<< "):
        t = "<<" + t[3:]
    if t.endswith(" >>"):
        t = t[:-3] + ">>"
    return t


class TlcResult:
    def __init__(self, rc, out, wall):
        out = _unwrap(out)
        self.rc, self.out, self.wall = rc, out, wall
        m = _STATS.findall(out)
        self.generated = int(m[-1][0]) if m else 0
        self.distinct = int(m[-1][1]) if m else 0
        self.completed = "Model checking completed. No error has been found." in out
        self.inv = None
        mi = re.search(r"Error: Invariant (\S+) is violated", out)
        if mi:
            self.inv = mi.group(1)
        mp = re.search(r"Error: Action property (\S+) is violated", out)
        if mp:
            self.inv = mp.group(1)
        if "Temporal properties were violated" in out:
            self.inv = self.inv or "temporal"
        self.postfail = "Postcondition" in out and "is false" in out.lower() or "violated the postcondition" in out.lower()
        self.error = None
        if not self.completed and not self.inv and not self.postfail:
            me = re.search(r"Error: (.*)", out)
            self.error = me.group(1) if me else ("rc=%d" % rc)

    def printed(self, tag):
        """Values printed with PrintT(<<tag, ...>>) -> list of raw strings after the tag."""
        res = []
        for line in self.out.splitlines():
            if line.startswith('<<"%s"' % tag):
                res.append(line)
        return res


def tlc(ctx, module, cfg, *, workers=None, timeout=600, args=(), env=None, deque=False, name=None,
        count=True, specdir=SPEC, heap=None):
    """Run TLC on spec/<module>.tla with spec/<cfg> in a scratch copy. Returns TlcResult."""
    d = ctx.sub("tlc-" + (name or cfg.replace(".cfg", "")))
    run = os.path.join(d, "spec")
    if not os.path.exists(run):
        shutil.copytree(specdir, run)
    meta = os.path.join(d, "meta")
    tmp = os.path.join(d, "tmp")
    os.makedirs(tmp, exist_ok=True)
    jopts = "-Djava.io.tmpdir=%s" % tmp
    if deque:
        jopts += " -Dtlc2.tool.queue.IStateQueue=StateDeque"
    e = dict(os.environ)
    e["JAVA_TOOL_OPTIONS"] = (e.get("JAVA_TOOL_OPTIONS", "") + " " + jopts).strip()
    if env:
        e.update({k: str(v) for k, v in env.items()})
    w = str(workers or min(NCPU, 16))
    jar = "/opt/veriftools/tla/tla2tools.jar"
    cm = glob.glob("/opt/veriftools/tla/*ommunity*.jar")
    cp = ":".join([jar] + cm)
    cmd = ["timeout", str(timeout), "java", "-XX:+UseParallelGC", "-Xss64m"]
    if heap:
        cmd.append("-Xmx%s" % heap)
    cmd += ["-cp", cp, "tlc2.TLC", "-metadir", meta, "-noGenerateSpecTE", "-workers", w,
            "-config", cfg] + list(args) + [module]
    t = time.time()
    p = subprocess.run(cmd, cwd=run, env=e, stdout=subprocess.PIPE, stderr=subprocess.STDOUT, text=True)
    r = TlcResult(p.returncode, p.stdout, time.time() - t)
    shutil.rmtree(meta, ignore_errors=True)
    shutil.rmtree(tmp, ignore_errors=True)
    if p.returncode == 124:
        r.error = "timeout after %ds" % timeout
    if count and r.distinct:
        ctx.cov["states"] += r.distinct
        ctx.cov["transitions"] += r.generated
    return r


def mc(ctx, module, cfg, *, expect_ok=True, **kw):
    """Exhaustive model check of the design. A design error on the unchanged spec is exit 2
    (the spec is wrong or a design counterexample needs reproduction) - never a VIOLATION."""
    done = getattr(ctx, "_mc_done", None)
    if done is None:
        done = ctx._mc_done = {}
    if (module, cfg) in done:          # the same configuration was already checked in this run (shared stages)
        return done[(module, cfg)]
    r = tlc(ctx, module, cfg, **kw)
    if r.completed:
        done[(module, cfg)] = r
    ctx.cov["configs"].append({"module": module, "cfg": cfg, "distinct": r.distinct,
                               "generated": r.generated, "wall_s": round(r.wall, 1),
                               "completed": r.completed})
    ctx.log("MC %s/%s: %d distinct, %d generated, %.1fs, %s" % (
        module, cfg, r.distinct, r.generated, r.wall,
        "ok" if r.completed else ("INV " + str(r.inv) if r.inv else "ERR " + str(r.error))))
    if expect_ok and not r.completed:
        tail = "\n".join(r.out.splitlines()[-60:])
        raise Infra("model check %s/%s did not complete cleanly: inv=%s err=%s\n%s" % (module, cfg, r.inv, r.error, tail))
    return r


def apalache(ctx, module, init, inv, length, *, cinit="CInit", timeout=600, expect="NoError", specdir=SPEC):
    """apalache-mc check in a scratch copy. Used for inductive-invariant arguments (unbounded integers, arbitrary start state):
    `Init => Inv` at length 0, `IndInit /\\ Next => Inv'` at length 1. Returns wall seconds; anything but the expected outcome is
    an infrastructure problem of the design stage (never a VIOLATION: the specification, not the code, is checked here)."""
    d = ctx.sub("apalache-%s-%s-%s" % (module, init, inv))
    run = os.path.join(d, "spec")
    if not os.path.exists(run):
        shutil.copytree(specdir, run)
    exe = shutil.which("apalache-mc")
    if not exe:
        raise Infra("apalache-mc not found")
    cmd = ["timeout", str(timeout), exe, "check", "--out-dir=" + os.path.join(d, "out"), "--cinit=" + cinit, "--init=" + init,
           "--inv=" + inv, "--length=%d" % length, module + ".tla"]
    e = dict(os.environ)
    e["JAVA_TOOL_OPTIONS"] = ("-Djava.io.tmpdir=%s" % d)
    t = time.time()
    p = subprocess.run(cmd, cwd=run, env=e, stdout=subprocess.PIPE, stderr=subprocess.STDOUT, text=True)
    wall = time.time() - t
    m = re.search(r"The outcome is: (\w+)", p.stdout)
    outcome = m.group(1) if m else "none(rc=%d)" % p.returncode
    ctx.cov["configs"].append({"module": module, "engine": "apalache", "init": init, "inv": inv, "length": length,
                               "outcome": outcome, "wall_s": round(wall, 1)})
    ctx.log("APALACHE %s init=%s inv=%s length=%d: %s, %.1fs" % (module, init, inv, length, outcome, wall))
    shutil.rmtree(os.path.join(d, "out"), ignore_errors=True)
    if outcome != expect:
        raise Infra("apalache %s/%s/%s: outcome %s (expected %s)\n%s" % (module, init, inv, outcome, expect, "\n".join(p.stdout.splitlines()[-30:])))
    return wall


def tlaps(ctx, module, *, timeout=900, expect_proved=True, specdir=SPEC):
    """tlapm on spec/<module>.tla in a scratch copy: every proof obligation must be discharged (expect_proved) - or, for a mutant
    of the specification, at least one must fail. Design stage only: anything unexpected is an infrastructure problem."""
    d = ctx.sub("tlaps-" + module)
    run = os.path.join(d, "spec")
    if not os.path.exists(run):
        os.makedirs(run)
        shutil.copy(os.path.join(specdir, module + ".tla"), run)
    exe = shutil.which("tlapm")
    if not exe:
        raise Infra("tlapm not found")
    t = time.time()
    p = subprocess.run(["timeout", str(timeout), exe, "--threads", str(min(NCPU, 8)), module + ".tla"], cwd=run,
                       stdout=subprocess.PIPE, stderr=subprocess.STDOUT, text=True)
    wall = time.time() - t
    m = re.search(r"All (\d+) obligations? proved", p.stdout)
    failed = re.search(r"(\d+)/(\d+) obligations? failed", p.stdout)
    ctx.cov["configs"].append({"module": module, "engine": "tlaps", "obligations": int(m.group(1)) if m else None,
                               "failed": int(failed.group(1)) if failed else 0, "wall_s": round(wall, 1)})
    ctx.log("TLAPS %s: %s, %.1fs" % (module, ("all %s obligations proved" % m.group(1)) if m else ("%s failed" % (failed.group(0) if failed else "no verdict")), wall))
    if expect_proved and not m:
        raise Infra("tlapm %s: not all obligations proved\n%s" % (module, "\n".join(p.stdout.splitlines()[-30:])))
    if not expect_proved and (m or not failed):
        raise Infra("tlapm %s: the mutant was expected to have failing obligations\n%s" % (module, "\n".join(p.stdout.splitlines()[-30:])))
    return wall


def coverage_zero(out):
    """Actions with zero coverage in a -coverage run."""
    zero = []
    for m in re.finditer(r"<(\w+) line \d+, col \d+ to line \d+, col \d+ of module (\w+)>: (\d+):(\d+)", out):
        if m.group(3) == "0" and m.group(4) == "0":
            zero.append(m.group(2) + "!" + m.group(1))
    return sorted(set(zero))


def gen_behaviours(ctx, module, cfg, *, num, depth, tag="BEH", timeout=600, workers=4, env=None, name=None):
    """TLC -simulate with a history variable printed via PrintT(<<tag, ToJson(hist)>>).
    Returns list of decoded JSON behaviours."""
    per = max(1, num // workers)
    r = tlc(ctx, module, cfg, workers=workers, timeout=timeout, count=False, name=name or ("gen-" + cfg),
            args=["-simulate", "num=%d" % per, "-depth", str(depth), "-seed", str(ctx.seed)], env=env)
    res = []
    for line in r.out.splitlines():
        if line.startswith('<<"%s"' % tag):
            m = re.match(r'<<"%s", (".*")>>$' % tag, line)
            if not m:
                continue
            try:
                s = json.loads(m.group(1).replace("\\\\", "\\")) if False else _tla_unquote(m.group(1))
                res.append(json.loads(s))
            except Exception as ex:  # noqa
                raise Infra("cannot parse behaviour line: %s (%s)" % (line[:200], ex))
    if not res:
        raise Infra("generator %s/%s produced no behaviours:\n%s" % (module, cfg, "\n".join(r.out.splitlines()[-40:])))
    ctx.log("GEN %s/%s: %d behaviours in %.1fs" % (module, cfg, len(res), r.wall))
    return res


def _tla_unquote(s):
    # TLC prints strings with \" and \\ escapes
    assert s[0] == '"' and s[-1] == '"'
    out, i, s = [], 0, s[1:-1]
    while i < len(s):
        c = s[i]
        if c == "\\" and i + 1 < len(s):
            n = s[i + 1]
            out.append({"n": "\n", "t": "\t", "r": "\r", "f": "\f"}.get(n, n))
            i += 2
        else:
            out.append(c)
            i += 1
    return "".join(out)


# ---------------------------------------------------------------------------------------------
# Trace validation
# ---------------------------------------------------------------------------------------------
def write_ndjson(path, records):
    with open(path, "w") as f:
        for r in records:
            f.write(json.dumps(r, separators=(",", ":"), sort_keys=True) + "\n")


def read_ndjson(path):
    res = []
    with open(path) as f:
        for line in f:
            line = line.strip()
            if line:
                res.append(json.loads(line))
    return res


def validate(ctx, module, cfg, trace_path, *, timeout=900, deque=False, name=None, env=None, heap=None):
    """Validate a (concatenated) ndjson trace with a trace spec. The trace spec prints
    <<"MISMATCH", traceId, line, what...>> for every trace the property-level spec rejects and
    <<"CONSUMED", n>> from its postcondition / final step. Returns (mismatches, consumed, TlcResult).
    """
    e = {"TRACE": trace_path}
    if env:
        e.update(env)
    r = tlc(ctx, module, cfg, workers=1, timeout=timeout, deque=deque, name=name or ("val-" + cfg),
            count=False, env=e, heap=heap)
    mism = []
    for line in r.printed("MISMATCH"):
        mism.append(line)
    consumed = None
    for line in r.printed("CONSUMED"):
        m = re.search(r"(\d+)>>", line)
        if m:
            consumed = int(m.group(1))
    if r.error and not r.postfail:
        raise Infra("trace validation %s/%s failed to run: %s\n%s" % (module, cfg, r.error, "\n".join(r.out.splitlines()[-40:])))
    return mism, consumed, r


def parse_mismatch(line):
    """<<"MISMATCH", "tid", 12, "what", ...>> -> (tid, lineNo, rest)"""
    m = re.match(r'<<"MISMATCH", "([^"]*)", (\d+), (.*)>>$', line)
    if not m:
        return ("?", 0, line)
    return (m.group(1), int(m.group(2)), m.group(3))


# ---------------------------------------------------------------------------------------------
# Go harness
# ---------------------------------------------------------------------------------------------
def go_env():
    e = dict(os.environ)
    e.update(GOENV)
    e.setdefault("GOCACHE", os.path.join(os.path.expanduser("~"), ".cache", "go-build"))
    return e


def harness_prepare():
    """go.sum must match /repo's; copied on every run (the repo tree may have changed)."""
    src = os.path.join(REPO, "go.sum")
    dst = os.path.join(HARNESS, "go.sum")
    try:
        if not os.path.exists(dst) or open(src).read() != open(dst).read():
            shutil.copy(src, dst)
    except OSError as ex:
        raise Infra("cannot copy go.sum: %s" % ex)


def go_build_test(ctx, pkg, tags="verif", race=False):
    """Compile the test binary of harness package pkg against /repo's working tree."""
    hdir = HARNESS
    if os.path.realpath(REPO) != "/repo":
        # development aid: judge a scratch tree (a seeded change in a worktree) without touching /repo
        hdir = os.path.join(ctx.scratch, "harness")
        if not os.path.exists(hdir):
            shutil.copytree(HARNESS, hdir)
            gm = open(os.path.join(hdir, "go.mod")).read().replace("=> /repo", "=> " + os.path.realpath(REPO))
            open(os.path.join(hdir, "go.mod"), "w").write(gm)
            shutil.copy(os.path.join(REPO, "go.sum"), os.path.join(hdir, "go.sum"))
    else:
        harness_prepare()
    race = race or os.environ.get("VERIF_RACE") == "1"
    out = os.path.join(ctx.sub("bin"), pkg.replace("/", "_") + (".race" if race else "") + ".test")
    cmd = [GO, "test", "-c", "-tags", tags, "-o", out, "./" + pkg]
    if race:
        cmd[3:3] = ["-race"]
    t = time.time()
    p = subprocess.run(cmd, cwd=hdir, env=go_env(), stdout=subprocess.PIPE, stderr=subprocess.STDOUT, text=True)
    if p.returncode != 0 or not os.path.exists(out):
        raise Infra("harness build failed (%s):\n%s" % (pkg, p.stdout[-4000:]))
    ctx.log("built %s in %.1fs" % (pkg, time.time() - t))
    return out


def go_run(ctx, binary, run, env, *, timeout=600, cwd=None, allow_fail=False, extra=()):
    e = go_env()
    e.update({k: str(v) for k, v in env.items()})
    e["VERIF_SEED"] = str(ctx.seed)
    e["VERIF_TIER"] = ctx.tier
    cmd = ["timeout", "-k", "10", str(timeout), binary, "-test.run", "^%s$" % run, "-test.count=1",
           "-test.timeout", "%ds" % (timeout + 30), "-test.v"] + list(extra)
    t = time.time()
    p = subprocess.run(cmd, cwd=cwd or ctx.scratch, env=e, stdout=subprocess.PIPE, stderr=subprocess.STDOUT, text=True)
    ctx.log("go %s rc=%d %.1fs" % (run, p.returncode, time.time() - t))
    if p.returncode != 0 and not allow_fail:
        rfunc = _repo_race(p.stdout)
        if rfunc == "unknown":
            raise Infra("driver %s: data race reported without a frame of the code under test (harness bug):\n%s" % (run, p.stdout[p.stdout.find("WARNING: DATA RACE"):][:3000]))
        if rfunc:
            raise Crash(run, "DATA RACE in " + rfunc, p.stdout[p.stdout.find("WARNING: DATA RACE"):][:6000])
        func = _repo_panic(p.stdout)
        if func:
            raise Crash(run, func, p.stdout[p.stdout.find("panic: "):][:6000])
        raise Infra("driver %s failed rc=%d:\n%s" % (run, p.returncode, p.stdout[-6000:]))
    return p.returncode, p.stdout


def race_stage(ctx, pkg, run, env, timeout=3000):
    """Thorough-tier extra: the same driver once more, built with the Go race detector. A data race report that names a
    function of the code under test is reported as a violation (vlib.Crash); the driver's output is not judged again."""
    binary = go_build_test(ctx, pkg, race=True)
    e = dict(env)
    e["VERIF_OUT"] = e.get("VERIF_OUT", os.path.join(ctx.scratch, "race")) + ".race"
    go_run(ctx, binary, run, e, timeout=timeout)
    ctx.cov.setdefault("race_detector_runs", []).append("%s/%s" % (pkg, run))


# ---------------------------------------------------------------------------------------------
def main(run_fn, prop, level="model_checking"):
    tier = os.environ.get("VERIF_TIER") or (sys.argv[1] if len(sys.argv) > 1 else "quick")
    if tier not in ("quick", "thorough"):
        tier = "quick"
    ctx = Ctx(prop, tier, level)
    try:
        run_fn(ctx)
        rc = ctx.finish()
    except Crash as ex:
        ctx.violation("code-under-test-panicked/%s" % ex.func.split("/")[-1], "driver %s: the code under test panicked in %s" % (ex.run, ex.func),
                      {"driver": ex.run, "panic": ex.text})
        ctx.cov["driver_crashed"] = True
        ctx.finish()
        sys.exit(1)
    except Infra as ex:
        print("INFRA property=%s: %s" % (prop, ex), flush=True)
        ctx.cov["infra_error"] = str(ex)[:2000]
        if ctx.violations:
            ctx.finish()
            sys.exit(1)
        if not ctx.keep:
            shutil.rmtree(ctx.scratch, ignore_errors=True)
        sys.exit(2)
    sys.exit(rc)


# ---------------------------------------------------------------------------------------------
# helpers built on the above
# ---------------------------------------------------------------------------------------------
def split_traces(records):
    """Split a concatenated trace at its reset lines -> list of (tid, [records incl. reset])."""
    res = []
    for r in records:
        if r.get("ev") == "reset":
            res.append((r.get("tid", "?"), [r]))
        else:
            if not res:
                res.append(("?", []))
            res[-1][1].append(r)
    return res


def validate_highwater(ctx, module, cfg, traces, *, name, timeout=900, max_rounds=8, env=None):
    """Validation for trace specs with unlogged internal steps: acceptance = the high-water mark
    of the trace position reaches the end. Rejected traces are removed and the rest re-validated.
    Returns (accepted_count, rejected: list of (tid, line_in_trace, record))."""
    rejected = []
    cur = list(traces)
    rounds = 0
    while cur and rounds < max_rounds:
        rounds += 1
        path = os.path.join(ctx.sub("traces"), "%s-r%d.ndjson" % (name, rounds))
        flat = [r for _, recs in cur for r in recs]
        write_ndjson(path, flat)
        _, consumed, r = validate(ctx, module, cfg, path, deque=True, name="%s-r%d" % (name, rounds),
                                  timeout=timeout, env=env)
        if consumed is None:
            raise Infra("validator %s printed no CONSUMED line:\n%s" % (module, "\n".join(r.out.splitlines()[-30:])))
        if consumed >= len(flat):
            return len(cur), rejected
        # find the trace containing line consumed+1 (1-based)
        pos = 0
        for i, (tid, recs) in enumerate(cur):
            if consumed < pos + len(recs):
                rejected.append((tid, consumed - pos + 1, recs[consumed - pos], recs))
                cur = cur[:i] + cur[i + 1:]
                break
            pos += len(recs)
        else:
            raise Infra("cannot locate rejected line %d" % consumed)
    if rounds >= max_rounds and cur:
        # still check that what is left is fine, otherwise give up loudly
        raise Infra("more than %d rejected traces in %s" % (max_rounds, name))
    return len(cur), rejected
