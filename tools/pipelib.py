"""Traces of the controller runtime's notification pipeline (hooks in pkg/controller/runtime, build tag verif) recorded while the
repository's own test suites / the harness drivers run, judged by TLC against the implementation-level pipeline model
(spec/TracePipe.tla). Runs, groups by runtime instance, hands over; decides nothing."""
import collections, concurrent.futures, glob, json, os, subprocess, time

import vlib
from vlib import Infra

QUICK_PKGS = ["./pkg/controller/generic/...", "./pkg/controller/runtime/internal/..."]
THOROUGH_PKGS = ["./pkg/controller/..."]
# which property a rejection contradicts: a key that is dropped or parked is a lost wake-up (C05); the cache-related skip rule
# decides what a reader of a cached kind is woken for (C15)
KINDS = {"C05": None, "C15": {"change-dropped-by-deduplication", "deduplicated-value-wrong"}}


def run_repo_tests(ctx, pkgs, name, timeout=1800, run=None):
    d = ctx.sub("pipetrace-" + name)
    e = vlib.go_env()
    e["VERIF_RUNTIME_TRACE"] = os.path.join(d, "t")
    cmd = ["timeout", "-k", "10", str(timeout), vlib.GO, "test", "-tags", "verif", "-vet=off", "-count=1", "-timeout", "%ds" % timeout]
    if run:
        cmd += ["-run", run]
    cmd += pkgs
    t = time.time()
    p = subprocess.run(cmd, cwd=vlib.REPO, env=e, stdout=subprocess.PIPE, stderr=subprocess.STDOUT, text=True)
    files = sorted(glob.glob(os.path.join(d, "t.*.ndjson")))
    ctx.log("repo tests (pipeline hooks) %s rc=%d %.1fs -> %d trace files" % (name, p.returncode, time.time() - t, len(files)))
    return files, p.returncode, p.stdout


def traces_of(files, max_lines=8000):
    traces = []
    for f in files:
        by = collections.OrderedDict()
        with open(f) as fh:
            for ln in fh:
                try:
                    r = json.loads(ln)
                except ValueError:
                    continue
                by.setdefault(r["rt"], []).append(r)
        for rt, rs in by.items():
            rs.sort(key=lambda r: r["seq"])
            traces.append([{"ev": "reset", "tid": "%s#rt%d" % (os.path.basename(f).replace(".ndjson", ""), rt)}] + rs[:max_lines])
    return traces


def judge(ctx, traces, name, limit=4000, timeout=1800):
    work, cur, n = [], [], 0
    for t in traces:
        if cur and n + len(t) > limit:
            work.append(cur)
            cur, n = [], 0
        cur.append(t)
        n += len(t)
    if cur:
        work.append(cur)
    found, total = [], 0

    def one(i):
        flat = [r for t in work[i] for r in t]
        path = os.path.join(ctx.sub("traces"), "%s-%d.ndjson" % (name, i))
        vlib.write_ndjson(path, flat)
        mism, consumed, r = vlib.validate(ctx, "TracePipe", "TracePipe.cfg", path, name="%s-%d" % (name, i), timeout=timeout, heap="2g")
        if consumed != len(flat):
            raise Infra("TracePipe consumed %s of %d lines:\n%s" % (consumed, len(flat), "\n".join(r.out.splitlines()[-25:])))
        details = [ln for ln in r.out.splitlines() if ln.startswith('<<"DETAIL"')]
        res = []
        for k, m in enumerate(mism):
            tid, line, rest = vlib.parse_mismatch(m)
            res.append((tid, line, rest.strip().strip('"'), flat[line - 1] if 0 < line <= len(flat) else None, details[k][:1200] if k < len(details) else ""))
        return len(flat), res

    with concurrent.futures.ThreadPoolExecutor(max_workers=max(1, min(len(work), vlib.NCPU // 2))) as ex:
        for n, res in ex.map(one, range(len(work))):
            total += n
            found += res
    return total, found


def _account(ctx, prop, traces, total, found, source):
    ctx.cov["traces_validated_against_impl"] += len(traces)
    ctx.cov.setdefault("pipeline_hook_lines", 0)
    ctx.cov["pipeline_hook_lines"] += total
    ctx.cov.setdefault("pipeline_hook_sources", []).append({"source": source, "runtimes": len(traces), "lines": total})
    ctx.log("pipeline hook traces (%s): %d runtimes, %d lines, %d mismatches" % (source, len(traces), total, len(found)))
    mine = KINDS.get(prop)
    for tid, line, kind, rec, detail in found:
        if mine is None or kind in mine:
            ctx.violation("pipeline-hook/%s" % kind, "%s: pipeline trace %s line %d: %s %s" % (source, tid, line, kind, detail[:500]),
                          {"source": source, "tid": tid, "line": line, "kind": kind, "record": rec, "detail": detail})


def stage(ctx, prop, tier, name="repo-pipe"):
    pkgs = QUICK_PKGS if tier == "quick" else THOROUGH_PKGS
    files, rc, out = run_repo_tests(ctx, pkgs, name)
    if not files:
        raise Infra("the repository's tests produced no pipeline hook traces (rc=%d):\n%s" % (rc, out[-3000:]))
    traces = traces_of(files)
    total, found = judge(ctx, traces, name)
    _account(ctx, prop, traces, total, found, "repository tests " + " ".join(pkgs))
    return traces


def traced(ctx, name):
    d = ctx.sub("pipetrace-" + name)
    return {"VERIF_RUNTIME_TRACE": os.path.join(d, "t")}, d


def judge_driver(ctx, prop, d, name):
    files = sorted(glob.glob(os.path.join(d, "t.*.ndjson")))
    if not files:
        raise Infra("driver %s left no pipeline hook traces" % name)
    traces = traces_of(files)
    total, found = judge(ctx, traces, name)
    _account(ctx, prop, traces, total, found, "driver " + name)
    for f in files:
        os.remove(f)
