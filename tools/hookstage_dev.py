"""development aid: run only the repository-test hook stage for one property (VERIF_REPO may point at a scratch tree)"""
import sys, vlib, inmemlib, shutil
prop, tier = sys.argv[1], (sys.argv[2] if len(sys.argv) > 2 else "quick")
ctx = vlib.Ctx(prop, tier)
vlib.EVID = ctx.sub("evid")
try:
    inmemlib.stage(ctx, prop, tier)
    print("violations:", [(v["key"], v.get("count", 1)) for v in ctx.violations], "other:", ctx.cov.get("hook_trace_mismatches_of_other_properties"))
finally:
    shutil.rmtree(ctx.scratch, ignore_errors=True)
