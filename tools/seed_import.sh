#!/bin/sh
# usage: seed_import.sh <scratch worktree with uncommitted change + *seed_demo_test.go + _seed/notes.md> <new seed id> <property> [checks...]
# copies patch, demonstration and notes into /verif/seeded/<id>/, confirms the seed in its worktree (seed_confirm.sh), then
# runs the named checks (default: the property's own) against a FRESH worktree of /repo's HEAD with the patch applied.
WT="$1"; ID="$2"; PROP="$3"; shift 3
CHECKS="$*"; [ -z "$CHECKS" ] && CHECKS="$PROP"
D=/verif/seeded/$ID; mkdir -p "$D"
git -C "$WT" diff -- . ':(exclude)_seed' ':(exclude)*seed_demo_test.go' > "$D/patch.diff"
[ -s "$D/patch.diff" ] || { echo "$ID: no source change"; exit 2; }
DEMO=$(git -C "$WT" status --short | awk '/seed_demo_test.go/{print $2}' | head -1)
[ -n "$DEMO" ] || { echo "$ID: no demo"; exit 2; }
cp "$WT/$DEMO" "$D/"; echo "$DEMO" > "$D/demo_path.txt"
[ -f "$WT/_seed/notes.md" ] && cp "$WT/_seed/notes.md" "$D/notes.md"
PKG="./$(dirname "$DEMO")/"
echo "##### $ID confirm (demo $DEMO)"
/verif/tools/seed_confirm.sh "$WT" "$PKG" "SeedDemo" "$PKG" 2>&1 | grep -E "^---|^rc=|^ok|^FAIL|^---" | head -12
W2=/tmp/wt-import-$ID
git -C /repo worktree remove --force $W2 2>/dev/null
git -C /repo worktree add -q --detach $W2 HEAD || exit 2
if git -C $W2 apply --3way "$D/patch.diff" 2>/tmp/seed_import.err; then
  echo "##### $ID checks: $CHECKS"
  /verif/tools/seed_run_wt.sh $W2 $CHECKS
else
  echo "$ID: patch does not apply on HEAD: $(head -2 /tmp/seed_import.err)"
fi
git -C /repo worktree remove --force $W2
