SPECIFICATION Spec
CONSTANTS Keys = {"a", "b", "c"}  Workers = {1, 2}  Vals = {1, 2, 3}  MaxNow = 5  MaxDelay = 3
INVARIANTS NoDoubleHold OnHoldIsHeld AtMostOnePendingPerKey Sorted FreshIsPending ParkedOnlyWhileHeld LenIsPendingPlusParked
PROPERTIES NotBeforeRequested
CHECK_DEADLOCK FALSE
