------------------------------- MODULE Access -------------------------------
(***************************************************************************)
(* Controller confinement (C08): what an operation issued through the      *)
(* runtime API by a controller with given declarations must do.            *)
(* A row = declarations + operation + target + state of the target + owner *)
(* option; Expected(row) = outcome class and the target's value afterwards.*)
(***************************************************************************)
EXTENDS Integers, Sequences, FiniteSets, TLC

Self == "ctrl"
Other == "other"
NoId == "-"

Absent == [ver |-> 0, owner |-> "", phase |-> "running", fins |-> {}]
Existing(ex) ==
  CASE ex = "absent"  -> Absent
    [] ex = "self"    -> [ver |-> 1, owner |-> Self, phase |-> "running", fins |-> {}]
    [] ex = "other"   -> [ver |-> 1, owner |-> Other, phase |-> "running", fins |-> {}]
    [] ex = "none"    -> [ver |-> 1, owner |-> "", phase |-> "running", fins |-> {}]
    [] ex = "selfFin" -> [ver |-> 1, owner |-> Self, phase |-> "running", fins |-> {"x"}]
    [] ex = "selfTd"  -> [ver |-> 1, owner |-> Self, phase |-> "tearingDown", fins |-> {}]

ReadOps == {"get", "getUncached", "list", "ctx"}
WriteOps == {"create", "update", "modify", "teardown", "destroy"}
FinOps == {"addfin", "remfin"}

(* the three access checks *)
IsOutput(row) == row.typ \in row.outs
CanRead(row) ==
  \/ IsOutput(row)
  \/ \E i \in row.ins : i.typ = row.typ /\ (i.id = NoId \/ (row.op # "list" /\ i.id = row.id))
CanFinalize(row) ==
  \E i \in row.ins : /\ i.typ = row.typ /\ i.kind \in {"strong", "qPrimary", "qMapped"}
                     /\ (i.id = NoId \/ i.id = row.id)
Allowed(row) == CASE row.op \in ReadOps -> CanRead(row)
                  [] row.op \in WriteOps -> IsOutput(row)
                  [] OTHER -> CanFinalize(row)

(* owner the operation acts under *)
ActOwner(row) == CASE row.opt = "noOwner" -> ""
                   [] row.opt = "ownerOther" -> Other
                   [] OTHER -> Self

(* <<class, value after>> of an allowed operation on current value v *)
Effect(row, v) ==
  LET ow == ActOwner(row) IN
  CASE row.op \in ReadOps -> IF v.ver = 0 /\ row.op \in {"get", "getUncached"} THEN <<"notfound", v>> ELSE <<"ok", v>>
    [] row.op = "create" -> IF v.ver # 0 THEN <<"conflict", v>>
                            ELSE <<"ok", [ver |-> 1, owner |-> ow, phase |-> "running", fins |-> {}]>>
    [] row.op = "update" -> IF v.ver = 0 THEN <<"notfound", v>>
                            ELSE IF v.owner # Self THEN <<"ownerconflict", v>>
                            ELSE IF v.phase # "running" THEN <<"phaseconflict", v>>
                            ELSE <<"ok", [v EXCEPT !.ver = @ + 1]>>
    [] row.op = "modify" -> IF v.ver = 0 THEN <<"ok", [ver |-> 1, owner |-> ow, phase |-> "running", fins |-> {}]>>
                            (* Modify expects the running phase by default; options: any phase (phaseAny), tearing down (phaseTd); *)
                            (* the owner is enforced whatever the phase option                                                      *)
                            ELSE IF row.opt # "phaseAny" /\ v.phase # (IF row.opt = "phaseTd" THEN "tearingDown" ELSE "running")
                                 THEN <<"phaseconflict", v>>
                            ELSE IF v.owner # ow THEN <<"ownerconflict", v>>
                            ELSE <<"ok", [v EXCEPT !.ver = @ + 1]>>
    [] row.op = "teardown" -> IF v.ver = 0 THEN <<"notfound", v>>
                              ELSE IF v.phase = "tearingDown" THEN <<"ok", v>>
                              ELSE IF v.owner # ow THEN <<"ownerconflict", v>>
                              ELSE <<"ok", [v EXCEPT !.ver = @ + 1, !.phase = "tearingDown"]>>
    [] row.op = "destroy" -> IF v.ver = 0 THEN <<"notfound", v>>
                             ELSE IF v.owner # ow THEN <<"ownerconflict", v>>
                             ELSE IF v.fins # {} THEN <<"conflict", v>>
                             ELSE <<"ok", Absent>>
    [] row.op = "addfin" -> IF v.ver = 0 THEN <<"notfound", v>>
                            ELSE IF "fin" \in v.fins THEN <<"ok", v>>
                            ELSE <<"ok", [v EXCEPT !.ver = @ + 1, !.fins = @ \cup {"fin"}]>>
    [] row.op = "remfin" -> IF v.ver = 0 THEN <<"ok", v>>     \* removing a finalizer from a missing resource is not an error
                            ELSE IF "x" \notin v.fins THEN <<"ok", v>>
                            ELSE <<"ok", [v EXCEPT !.ver = @ + 1, !.fins = @ \ {"x"}]>>

Expected(row) ==
  LET v == Existing(row.ex) IN
  IF ~Allowed(row) THEN [allowed |-> FALSE, cls |-> "other", after |-> v]
  ELSE LET e == Effect(row, v) IN [allowed |-> TRUE, cls |-> e[1], after |-> e[2]]

Classes == {"ok", "notfound", "conflict", "ownerconflict", "phaseconflict", "other"}
RowOK(row) ==
  LET e == Expected(row) IN
  /\ e.cls \in Classes
  /\ (e.cls # "ok" => e.after = Existing(row.ex))                 \* any rejected operation leaves the state untouched
  /\ (~e.allowed => e.cls = "other")
  /\ (row.op = "create" /\ e.cls = "ok" => e.after.owner = ActOwner(row))   \* created resources are stamped
  /\ (row.op \in {"update", "modify", "teardown", "destroy"} /\ e.cls = "ok" /\ e.after # Existing(row.ex) /\ Existing(row.ex).ver # 0
        => Existing(row.ex).owner = ActOwner(row))                 \* foreign resources only with an explicit owner
=============================================================================
