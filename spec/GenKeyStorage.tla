--------------------------- MODULE GenKeyStorage ---------------------------
EXTENDS KeyStorage, Json, IOUtils
VARIABLES hist, done
gvars == <<init, slots, tag, tagOK, ntok, nops, good, last, hist, done>>
Cmd(op, s, kp, o, ko, v) == [op |-> op, s |-> s, kp |-> kp, o |-> o, ko |-> ko, v |-> v]
Rec(c) == hist' = Append(hist, c) /\ UNCHANGED done
GNext ==
  \E coin \in {RandomElement(1..10)} :
    IF coin <= 1 THEN \E s \in SlotIds, kp \in KeyPairs : Initialize(s, kp) /\ Rec(Cmd("init", s, kp, 0, 0, ""))
    ELSE IF coin <= 4 THEN \E n, o \in SlotIds, kn \in KeyPairs \cup {0}, ko \in KeyPairs : AddSlot(n, kn, o, ko) /\ Rec(Cmd("add", n, kn, o, ko, ""))
    ELSE IF coin <= 5 THEN \E s \in SlotIds, kp \in KeyPairs : DeleteSlot(s, kp) /\ Rec(Cmd("delete", s, kp, 0, 0, ""))
    ELSE IF coin <= 8 THEN \E s \in SlotIds, kp \in KeyPairs : GetMaster(s, kp) /\ Rec(Cmd("get", s, kp, 0, 0, ""))
    ELSE IF coin <= 9 THEN (UNCHANGED vars /\ Rec(Cmd("roundtrip", 0, 0, 0, 0, "")))
    ELSE IF Pristine /\ init
         THEN \/ \E s \in SlotIds : AlterBlob(s) /\ Rec(Cmd("alterBlob", s, 0, 0, 0, ""))
              \/ \E s \in SlotIds : BackdoorRemove(s) /\ Rec(Cmd("backdoorRemove", s, 0, 0, 0, ""))
              \/ \E s \in SlotIds, v \in {"empty", "garbage", "copy"} : BackdoorAdd(s, v) /\ Rec(Cmd("backdoorAdd", s, 0, 0, 0, v))
              \/ \E v \in {"flip", "strip", "truncate", "zero"} : AlterTag /\ Rec(Cmd("alterTag", 0, 0, 0, 0, v))
         ELSE \E s \in SlotIds, kp \in KeyPairs : GetMaster(s, kp) /\ Rec(Cmd("get", s, kp, 0, 0, ""))
Finish == ~done /\ PrintT(<<"BEH", ToJson(hist)>>) /\ done' = TRUE /\ UNCHANGED vars /\ UNCHANGED hist
GenInit == Init /\ hist = <<>> /\ done = FALSE
GenNext == IF nops >= MaxOps THEN Finish ELSE ~done /\ GNext
GenSpec == GenInit /\ [][GenNext]_gvars
=============================================================================
