------------------------------ MODULE MC_DepDB ------------------------------
EXTENDS DepDB
O(t, k) == [typ |-> t, kind |-> k]
I(t, i, k) == [typ |-> t, id |-> i, kind |-> k]
MCOutMenu == {<<>>, <<O("tA", "excl")>>, <<O("tA", "shared")>>, <<O("tB", "excl")>>,
              <<O("tA", "shared"), O("tB", "excl")>>, <<O("tB", "shared"), O("tA", "excl")>>,
              <<O("tA", "shared"), O("tA", "shared")>>, <<O("tB", "excl"), O("tB", "shared")>>}
MCInMenu == {<<>>, <<I("tA", NoId, "weak")>>, <<I("tA", "a", "strong")>>, <<I("tB", NoId, "destroyReady"), I("tB", "a", "weak")>>,
             <<I("tA", NoId, "qPrimary")>>, <<I("tA", NoId, "qPrimary"), I("tB", "a", "qMapped")>>,
             <<I("tA", "a", "weak"), I("tA", "a", "strong")>>, <<I("tB", NoId, "qMappedDestroyReady"), I("tB", NoId, "qMapped")>>,
             <<I("tA", NoId, "weak"), I("tB", NoId, "qMapped")>>, <<I("tB", "b", "strong"), I("tA", NoId, "weak")>>}
=============================================================================
