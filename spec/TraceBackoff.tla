---------------------------- MODULE TraceBackoff ----------------------------
(***************************************************************************)
(* Judge for retry / back-off behaviour (C09 b, C16): a trace lists, in    *)
(* virtual time, every reconcile (or run) invocation of an item with the   *)
(* outcome it returned, every fresh notification ("touch") and a closing   *)
(* "end" after a long quiet period.                                        *)
(***************************************************************************)
EXTENDS Integers, Sequences, FiniteSets, TLC, Json, IOUtils

CONSTANTS MaxLen, Delays
VARIABLES n, hist     \* unused parts of Backoff (instantiated for its operators)
INSTANCE Backoff

TraceLog == ndJsonDeserialize(IOEnv.TRACE)
VARIABLES st, l, tid, bad,    \* st: id -> [t, o, d, cnt, touched, seen]
          acct                \* accounting of the reconcile invocations seen so far: [processed, crashes, skips, requeues]
tvars == <<st, l, tid, bad, n, hist, acct>>
Acct0 == [processed |-> 0, crashes |-> 0, skips |-> 0, requeues |-> 0]
Count(a, o, d) == LET m == MetricOf(o, d) IN
                  [a EXCEPT !.processed = @ + 1,
                            !.crashes = IF m = "crashes" THEN @ + 1 ELSE @,
                            !.skips = IF m = "skips" THEN @ + 1 ELSE @,
                            !.requeues = IF m = "requeues" THEN @ + 1 ELSE @]
Empty == [x \in {} |-> 0]
Put(f, k, v) == [x \in DOMAIN f \cup {k} |-> IF x = k THEN v ELSE f[x]]

TInit == st = Empty /\ l = 1 /\ tid = "" /\ bad = FALSE /\ n = 0 /\ hist = <<>> /\ acct = Acct0
Reject(what, exp, got) ==
  /\ PrintT(<<"MISMATCH", tid, l, what>>) /\ PrintT(<<"DETAIL", ToString(exp), ToString(got)>>)
  /\ bad' = TRUE /\ UNCHANGED <<st, tid>>
Keep == UNCHANGED <<tid, bad>>

(* a reconcile that takes time: t is when it was invoked, b how long it ran; intervals count from its return *)
Busy(e) == IF "b" \in DOMAIN e THEN e.b ELSE 0
Rec(e) ==
  LET eo == NormO(e.o, e.d)
      new(cnt) == [t |-> e.t + Busy(e), o |-> eo, d |-> e.d, cnt |-> NextCount(cnt, eo), before |-> IF eo = "reseterr" THEN 0 ELSE cnt,
                   touched |-> FALSE, seen |-> TRUE]
  IN
  IF "fresh" \in DOMAIN e /\ ~e.fresh THEN Reject("restart-without-fresh-reconcile", TRUE, e.fresh)
  ELSE IF e.id \notin DOMAIN st \/ ~st[e.id].seen
  THEN st' = Put(st, e.id, new(0)) /\ Keep
  ELSE LET p == st[e.id]
           dt == e.t - p.t
       IN
       IF p.o \in {"ok", "skip"} /\ ~p.touched THEN Reject("reconcile-without-notification", p, e)
       ELSE IF p.o \in {"err", "panic", "reseterr"} /\ ~p.touched /\ ~(Lo(p.before) <= dt /\ dt <= Hi(p.before))
            THEN Reject("backoff-envelope", [n |-> p.before, lo |-> Lo(p.before), hi |-> Hi(p.before)], dt)
       ELSE IF p.o \in {"err", "panic", "reseterr"} /\ p.touched /\ dt > Hi(p.before)
            THEN Reject("backoff-envelope", [n |-> p.before, hi |-> Hi(p.before)], dt)
       ELSE IF p.o \in {"requeue", "requeueErr"} /\ ~p.touched /\ dt # p.d THEN Reject("requeue-interval", p.d, dt)
       ELSE IF p.o \in {"requeue", "requeueErr"} /\ p.touched /\ dt > p.d THEN Reject("requeue-interval", p.d, dt)
       ELSE st' = Put(st, e.id, new(p.cnt)) /\ Keep

Touch(e) ==
  /\ st' = IF e.id \in DOMAIN st THEN [st EXCEPT ![e.id].touched = TRUE]
           ELSE Put(st, e.id, [t |-> e.t, o |-> "ok", d |-> 0, cnt |-> 0, before |-> 0, touched |-> TRUE, seen |-> FALSE])
  /\ Keep

End(e) ==
  LET lost == {i \in DOMAIN st : st[i].touched /\ (st[i].o \in {"ok", "skip"} \/ ~st[i].seen)}
      noretry == {i \in DOMAIN st : st[i].seen /\ st[i].o \notin {"ok", "skip", "startlong"}}
  IN IF lost # {} THEN Reject("lost-notification", lost, "no reconcile")
     ELSE IF noretry # {} THEN Reject("retry-lost", noretry, "no retry until the end")
     (* the runtime's metrics of the controller (deltas over the behaviour) against the invocations the trace lists *)
     ELSE IF "m" \in DOMAIN e /\ [processed |-> e.m.processed, crashes |-> e.m.crashes, skips |-> e.m.skips, requeues |-> e.m.requeues] # acct
          THEN Reject("metrics-disagree-with-invocations", acct, e.m)
     ELSE UNCHANGED st /\ Keep

TNext ==
  /\ l <= Len(TraceLog) /\ l' = l + 1 /\ UNCHANGED <<n, hist>>
  /\ LET e == TraceLog[l] IN
       IF e.ev = "rec" /\ ~bad /\ "o" \in DOMAIN e THEN acct' = Count(acct, e.o, IF "d" \in DOMAIN e THEN e.d ELSE 0)
       ELSE IF e.ev = "reset" \/ bad THEN TRUE ELSE acct' = acct
  /\ LET e == TraceLog[l] IN
       IF e.ev = "reset" THEN st' = Empty /\ tid' = e.tid /\ bad' = FALSE /\ acct' = Acct0
       ELSE IF bad THEN UNCHANGED <<st, tid, bad, acct>>
       ELSE CASE e.ev = "rec" -> Rec(e)
              [] e.ev = "touch" -> Touch(e)
              [] e.ev = "end" -> End(e)
              [] OTHER -> UNCHANGED <<st, tid, bad>>
TSpec == TInit /\ [][TNext]_tvars
Consumed == TLCGet("stats").diameter - 1
Post == PrintT(<<"CONSUMED", Consumed>>) /\ Consumed = Len(TraceLog)
=============================================================================
