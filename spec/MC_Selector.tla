----------------------------- MODULE MC_Selector -----------------------------
EXTENDS Selector, Json, SequencesExt
VARIABLE x
TermRows == {<< <<t>> >> : t \in Terms}
Rows == TermRows \cup Combos
Init == x = 0 /\ PrintT(<<"BEH", ToJson([maps |-> SetToSeq(Maps), rows |-> SetToSeq(Rows)])>>)
Next == x' = x
Spec == Init /\ [][Next]_x
Algebra == InversionDuality /\ NilNeverMatches /\ LtImpliesLte /\ EqualIsSingletonIn
=============================================================================
