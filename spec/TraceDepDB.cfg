SPECIFICATION TSpec
CONSTANTS Ctrls = {"c1"}  Types = {"tA", "tB"}  Ids = {"a", "b"}  MaxCalls = 0  OutMenu = {}  InMenu = {}
POSTCONDITION Post
CHECK_DEADLOCK FALSE
