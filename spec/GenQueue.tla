------------------------------ MODULE GenQueue ------------------------------
(* Command generator for the queue driver: simulation of Queue with a history  *)
(* of driver commands; "get" attempts are also issued when nothing is due.     *)
EXTENDS Queue, Json, IOUtils

VARIABLES hist, done
gvars == <<pq, onHold, parked, length, now, held, fresh, notBefore, hist, done>>
GenDepth == IF "GEN_DEPTH" \in DOMAIN IOEnv THEN atoi(IOEnv.GEN_DEPTH) ELSE 40
Cmd(c, k, v, w, d) == [c |-> c, k |-> k, v |-> v, w |-> w, d |-> d]
Rec(c) == hist' = Append(hist, c) /\ UNCHANGED done

GPut(k, v) == Put(k, v) /\ Rec(Cmd("put", k, v, 0, 0))
GGet(w) == Get(w) /\ Rec(Cmd("get", "", 0, w, 0))
GGetNone(w) == /\ held[w] = None /\ (IF pq = <<>> THEN TRUE ELSE pq[1].at > now)
               /\ UNCHANGED vars /\ Rec(Cmd("get", "", 0, w, 0))
GRelease(w) == Release(w, 0) /\ Rec(Cmd("release", "", 0, w, 0))
GRequeue(w, d) == Release(w, now + d) /\ Rec(Cmd("requeue", "", 0, w, d))
(* a worker calls Release / Requeue once more on a handle it already released (deferred Release after Requeue is the *)
(* runtime's own pattern): documented no-op, whatever happened to the key meanwhile                                   *)
GStale(w, d) == UNCHANGED vars /\ Rec(Cmd("stale", "", 0, w, d))
GTick == Tick /\ Rec(Cmd("sleep", "", 0, 0, 1))

ModelNext ==
  \E coin \in {RandomElement(1..10)} :
    IF coin <= 3 THEN \E k \in Keys, v \in Vals : GPut(k, v)
    ELSE IF coin <= 6 THEN \E w \in Workers : GGet(w) \/ GGetNone(w) \/ GRelease(w)
    ELSE IF coin <= 7 THEN (\E w \in Workers, d \in 0..MaxDelay : GRequeue(w, d)) \/ (\E w \in Workers : GGetNone(w) \/ GGet(w))
    ELSE IF coin <= 8 THEN \E w \in Workers, d \in 0..1 : GStale(w, d)
    ELSE IF now < MaxNow THEN GTick ELSE \E k \in Keys, v \in Vals : GPut(k, v)

Finish == /\ ~done /\ PrintT(<<"BEH", ToJson(hist)>>) /\ done' = TRUE /\ UNCHANGED vars /\ UNCHANGED hist
GenInit == Init /\ hist = <<>> /\ done = FALSE
GenNext == IF Len(hist) >= GenDepth THEN Finish ELSE ~done /\ ModelNext
GenSpec == GenInit /\ [][GenNext]_gvars
=============================================================================
