SPECIFICATION TSpec
CONSTANTS Rate = 10  Burst = 3
POSTCONDITION Post
CHECK_DEADLOCK FALSE
