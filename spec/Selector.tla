------------------------------ MODULE Selector ------------------------------
(***************************************************************************)
(* One selector semantics (C14): the label-term algebra of                 *)
(* resource.Labels.Matches over a curated finite string set whose lexical  *)
(* order and numeric parse (with unit suffixes) are explicit tables.       *)
(* A label map is "none" (no labels at all), "other" (labels, but not the  *)
(* key under test) or a value of the key "l".                              *)
(***************************************************************************)
EXTENDS Integers, Sequences, FiniteSets, TLC

(* strings in Go's byte-wise order *)
Strs == <<"", "-5", "10", "1e", "2Ki", "3k", "9", "a", "b", "x1">>
StrSet == {Strs[i] : i \in 1..Len(Strs)}
Rank(s) == CHOOSE i \in 1..Len(Strs) : Strs[i] = s
NaN == -999999
(* compare.parseValue: optional sign and digits, then an optional unit (k, m, ..., ki, mi, ...) *)
Num(s) == CASE s = "-5" -> -5 [] s = "10" -> 10 [] s = "9" -> 9 [] s = "2Ki" -> 2048 [] s = "3k" -> 3000 [] OTHER -> NaN

Maps == {"none", "other"} \cup {"=" \o s : s \in StrSet}     \* "=v" : label l has value v
HasL(m) == m \notin {"none", "other"}
ValOf(m) == CHOOSE s \in StrSet : m = "=" \o s

Ops == {"exists", "equal", "in", "lt", "lte", "ltnum", "ltenum"}
IsComparison(op) == op \in {"lt", "lte", "ltnum", "ltenum"}

(* three-valued result of a term before inversion: "t", "f", "nil" (nil = no match, even inverted) *)
Raw(m, t) ==
  IF ~HasL(m) THEN (IF IsComparison(t.op) THEN "nil" ELSE "f")
  ELSE IF t.op # "exists" /\ t.vals = <<>> THEN "f"
  ELSE LET v == ValOf(m) IN
       CASE t.op = "exists" -> "t"
         [] t.op = "equal" -> IF v = t.vals[1] THEN "t" ELSE "f"
         [] t.op = "in" -> IF \E i \in 1..Len(t.vals) : t.vals[i] = v THEN "t" ELSE "f"
         [] t.op = "lte" -> IF Rank(v) <= Rank(t.vals[1]) THEN "t" ELSE "f"
         [] t.op = "lt" -> IF Rank(v) < Rank(t.vals[1]) THEN "t" ELSE "f"
         [] t.op = "ltnum" -> IF Num(v) = NaN \/ Num(t.vals[1]) = NaN THEN "nil" ELSE IF Num(v) < Num(t.vals[1]) THEN "t" ELSE "f"
         [] t.op = "ltenum" -> IF Num(v) = NaN \/ Num(t.vals[1]) = NaN THEN "nil" ELSE IF Num(v) <= Num(t.vals[1]) THEN "t" ELSE "f"
TermMatches(m, t) == LET r == Raw(m, t) IN IF r = "nil" THEN FALSE ELSE IF t.invert THEN r = "f" ELSE r = "t"
QueryMatches(m, q) == \A i \in 1..Len(q) : TermMatches(m, q[i])                       \* AND within a query (empty: TRUE)
QueriesMatch(m, qs) == qs = <<>> \/ \E i \in 1..Len(qs) : QueryMatches(m, qs[i])       \* OR across queries (none: TRUE)

ValLists == {<<>>} \cup {<<s>> : s \in StrSet} \cup {<<"a", "b">>, <<"10", "x1">>, <<"", "9">>}
Terms == [op : Ops, vals : ValLists, invert : BOOLEAN]
(* systematic multi-term rows over representative terms: every ordered pair inside one query (AND), every pair  *)
(* as two queries (OR), and triples mixing inverted and plain terms - order matters to translations that carry  *)
(* per-term state from one term to the next                                                                      *)
RepTerms == {[op |-> "exists", vals |-> <<>>, invert |-> i] : i \in BOOLEAN}
       \cup {[op |-> "equal", vals |-> <<"a">>, invert |-> i] : i \in BOOLEAN}
       \cup {[op |-> "in", vals |-> <<"a", "b">>, invert |-> i] : i \in BOOLEAN}
       \cup {[op |-> "ltnum", vals |-> <<"10">>, invert |-> i] : i \in BOOLEAN}
       \cup {[op |-> "lte", vals |-> <<"3k">>, invert |-> i] : i \in BOOLEAN}
PairRows == {<< <<a, b>> >> : a \in RepTerms, b \in RepTerms} \cup {<< <<a>>, <<b>> >> : a \in RepTerms, b \in RepTerms}
TripleRows == {<< <<a, b, a>> >> : a \in {t \in RepTerms : t.invert}, b \in {t \in RepTerms : ~t.invert}}
         \cup {<< <<a, b>>, <<b>> >> : a \in {t \in RepTerms : t.invert}, b \in {t \in RepTerms : ~t.invert}}
(* multi-term rows: AND inside a query, OR across queries *)
Combos == {<< <<[op |-> "exists", vals |-> <<>>, invert |-> FALSE], [op |-> "ltnum", vals |-> <<"10">>, invert |-> FALSE]>> >>,
           << <<[op |-> "equal", vals |-> <<"a">>, invert |-> FALSE]>>, <<[op |-> "equal", vals |-> <<"b">>, invert |-> FALSE]>> >>,
           << <<[op |-> "exists", vals |-> <<>>, invert |-> TRUE]>>, <<[op |-> "lte", vals |-> <<"3k">>, invert |-> TRUE], [op |-> "in", vals |-> <<"a", "b">>, invert |-> TRUE]>> >>,
           << <<>> >>, <<>>}
          \cup PairRows \cup TripleRows

(* algebra checked by TLC *)
InversionDuality == \A m \in Maps, t \in Terms : Raw(m, t) # "nil" => TermMatches(m, [t EXCEPT !.invert = ~t.invert]) = ~TermMatches(m, t)
NilNeverMatches == \A m \in Maps, t \in Terms : Raw(m, t) = "nil" => ~TermMatches(m, t) /\ ~TermMatches(m, [t EXCEPT !.invert = ~t.invert])
LtImpliesLte == \A m \in Maps, s \in StrSet :
                  /\ TermMatches(m, [op |-> "lt", vals |-> <<s>>, invert |-> FALSE]) => TermMatches(m, [op |-> "lte", vals |-> <<s>>, invert |-> FALSE])
                  /\ TermMatches(m, [op |-> "ltnum", vals |-> <<s>>, invert |-> FALSE]) => TermMatches(m, [op |-> "ltenum", vals |-> <<s>>, invert |-> FALSE])
EqualIsSingletonIn == \A m \in Maps, s \in StrSet, inv \in BOOLEAN :
                        TermMatches(m, [op |-> "equal", vals |-> <<s>>, invert |-> inv]) = TermMatches(m, [op |-> "in", vals |-> <<s>>, invert |-> inv])
=============================================================================
