------------------------------ MODULE TracePipe ------------------------------
(***************************************************************************)
(* Trace validation of the controller runtime's notification pipeline      *)
(* against the implementation-level model of Runtime.tla (dedup goroutine: *)
(* take a batch, acquire the single map from `empty` or `ch`, process,     *)
(* drain, hand over; delivery goroutine: take the map from `ch`, take one  *)
(* key, hand the rest back).  The lines are written by build-tag guarded   *)
(* hooks in runtime.go by whichever goroutine owns the map at that moment  *)
(* (after a receive, before a send), in ANY execution of the real runtime  *)
(* (the repository's own conformance suites, the harness drivers).         *)
(*                                                                         *)
(* Judged (the part of C05 / C15 that is a safety property of the          *)
(* pipeline): the map is a conserved token - what one goroutine hands over *)
(* is what the next one receives; processing a batch sets exactly the keys *)
(* of its change events to their latest values (events of a cached kind    *)
(* that is still bootstrapping only feed the cache) and drops nothing; a   *)
(* map that still holds keys is never parked in `empty` (nobody would look *)
(* at it again until another event arrives: a lost wake-up); the delivery  *)
(* goroutine takes a key that is in the map, with its value, and hands     *)
(* back exactly the rest.                                                  *)
(***************************************************************************)
EXTENDS Integers, Sequences, FiniteSets, TLC, Json, IOUtils, SequencesExt

TraceLog == ndJsonDeserialize(IOEnv.TRACE)

VARIABLES m,      \* the dedup map: set of <<key, value>> pairs
          mloc,   \* "empty" | "ch" | "dd" (dedup goroutine) | "dl" is never observable: the delivery goroutine reports after it let go
          pend,   \* the batch the dedup goroutine received and has not processed yet
          l, tid, bad
tvars == <<m, mloc, pend, l, tid, bad>>

Pairs(js) == {<<p[1], p[2]>> : p \in ToSet(js)}
KeysOf(ps) == {p[1] : p \in ps}
Without(ps, k) == {p \in ps : p[1] # k}
Set(ps, k, v) == Without(ps, k) \cup {<<k, v>>}

Init == m = {} /\ mloc = "empty" /\ pend = <<>> /\ l = 1 /\ tid = "" /\ bad = FALSE
Reject(what, exp, got) ==
  /\ PrintT(<<"MISMATCH", tid, l, what>>) /\ PrintT(<<"DETAIL", ToString(exp), ToString(got)>>)
  /\ bad' = TRUE /\ UNCHANGED <<m, mloc, pend, tid>>
Keep == UNCHANGED <<tid, bad>>

(* processEvents over a batch: booted = kinds whose Bootstrapped event was seen earlier in this batch *)
RECURSIVE Apply(_, _, _)
Apply(ps, evs, booted) ==
  IF evs = <<>> THEN ps
  ELSE LET e == Head(evs) IN
       IF e.t = "bootstrapped" THEN Apply(ps, Tail(evs), booted \cup {e.kind})
       ELSE IF e.t \in {"created", "updated", "destroyed"}
       THEN IF e.cached /\ ~e.boot /\ e.kind \notin booted
            THEN Apply(ps, Tail(evs), booted)                    \* bootstrap contents of a cached kind: cache only
            ELSE Apply(Set(ps, e.k, e.v), Tail(evs), booted)
       ELSE Apply(ps, Tail(evs), booted)                          \* noop

Batch(e) ==
  IF pend # <<>> THEN Reject("batch-taken-before-the-previous-one-was-processed", pend, e.evs)
  ELSE pend' = e.evs /\ UNCHANGED <<m, mloc>> /\ Keep

Acquire(e) ==
  IF mloc \notin {"empty", "ch"} THEN Reject("map-acquired-while-owned", mloc, "acquire")
  ELSE IF Pairs(e.m) # m THEN Reject("map-changed-in-transit", m, Pairs(e.m))
  ELSE mloc' = "dd" /\ UNCHANGED <<m, pend>> /\ Keep

Processed(e) ==
  IF mloc # "dd" THEN Reject("batch-processed-without-the-map", mloc, "processed")
  ELSE IF Pairs(e.m) # Apply(m, pend, {})
       THEN Reject(IF KeysOf(Apply(m, pend, {})) \ KeysOf(Pairs(e.m)) # {} THEN "change-dropped-by-deduplication" ELSE "deduplicated-value-wrong",
                   Apply(m, pend, {}), Pairs(e.m))
  ELSE m' = Pairs(e.m) /\ pend' = <<>> /\ UNCHANGED mloc /\ Keep

Handover(e) ==
  IF mloc # "dd" THEN Reject("handover-without-the-map", mloc, e.to)
  ELSE IF Pairs(e.m) # m THEN Reject("map-changed-in-transit", m, Pairs(e.m))
  ELSE IF e.to = "empty" /\ m # {} THEN Reject("undelivered-keys-parked", "ch", [parked |-> m])
  ELSE IF e.to = "ch" /\ m = {} THEN Reject("empty-map-handed-to-delivery", "empty", "ch")
  ELSE mloc' = e.to /\ UNCHANGED <<m, pend>> /\ Keep

Take(e) ==
  IF mloc # "ch" THEN Reject("delivery-took-a-map-it-was-not-given", mloc, e.k)
  ELSE IF <<e.k, e.v>> \notin m THEN Reject("delivered-key-not-in-the-map", m, <<e.k, e.v>>)
  ELSE IF Pairs(e.m) # Without(m, e.k) THEN Reject("keys-lost-by-delivery", Without(m, e.k), Pairs(e.m))
  ELSE IF (e.to = "empty") # (Without(m, e.k) = {}) THEN Reject("undelivered-keys-parked", [rest |-> Without(m, e.k)], e.to)
  ELSE m' = Without(m, e.k) /\ mloc' = e.to /\ UNCHANGED pend /\ Keep

Next ==
  /\ l <= Len(TraceLog) /\ l' = l + 1
  /\ LET e == TraceLog[l] IN
       IF e.ev = "reset" THEN m' = {} /\ mloc' = "empty" /\ pend' = <<>> /\ tid' = e.tid /\ bad' = FALSE
       ELSE IF bad THEN UNCHANGED <<m, mloc, pend, tid, bad>>
       ELSE CASE e.ev = "batch" -> Batch(e)
              [] e.ev = "acquire" -> Acquire(e)
              [] e.ev = "processed" -> Processed(e)
              [] e.ev = "handover" -> Handover(e)
              [] e.ev = "take" -> Take(e)
              [] OTHER -> UNCHANGED <<m, mloc, pend, tid, bad>>
Spec == Init /\ [][Next]_tvars
View == l
Consumed == TLCGet("stats").diameter - 1
Post == PrintT(<<"CONSUMED", Consumed>>) /\ Consumed = Len(TraceLog)
=============================================================================
