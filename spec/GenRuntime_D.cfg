SPECIFICATION GenSpec
CONSTANTS Kinds = {"K1", "K2"}  Ids = {1, 2}  Ctrls = {"q"}  Cfg <- CfgD  Alt <- AltNoneQ  Cached = {"K2"}  MaxWrites = 7  MaxFaults = 1  Noops = TRUE  MapTo <- MapAll
CHECK_DEADLOCK FALSE
