------------------------------ MODULE GenRemote ------------------------------
(* Request sequences for the gRPC differential driver: the store requests of MC_Store plus *)
(* the Teardown / TeardownAndDestroy helpers (which have RPCs of their own).               *)
EXTENDS MC_Store
RReq ==
  LET base == GenReq
      pick == RandomElement(1..6)
      k == IF DOMAIN store # {} /\ RandomElement(1..4) > 1 THEN RandomElement(DOMAIN store) ELSE RandomElement(Keys)
      ow == IF Exists(k) /\ RandomElement(1..4) > 1 THEN store[k].owner ELSE RandomElement(Owners)
  IN IF pick = 1 THEN [op |-> "teardown", k |-> k, owner |-> ow, exp |-> "any", obj |-> Dummy]
     ELSE IF pick = 2 /\ "blocked" \notin Outcomes([op |-> "tad", k |-> k, owner |-> ow, exp |-> "any", obj |-> Dummy])
          THEN [op |-> "tad", k |-> k, owner |-> ow, exp |-> "any", obj |-> Dummy]
     ELSE base
RNext == /\ Len(hist) < GenDepth
         /\ \E r \in {RReq} : (\E cls \in Outcomes(r) \ {"blocked"} : Do(r, cls)) /\ hist' = Append(hist, r)
RSpec == Init /\ [][RNext]_vars
=============================================================================
