------------------------------ MODULE GenCache ------------------------------
EXTENDS Cache, Json, IOUtils
VARIABLES hist, done
gvars == <<boot, items, rd, cx, nops, partial, hist, done>>
Cmd(c, id, ver, td, r, op) == [c |-> c, id |-> id, ver |-> ver, td |-> td, r |-> r, op |-> op]
Rec(x) == hist' = Append(hist, x) /\ UNCHANGED done
GNext ==
  \/ \E id \in Ids, v \in Vals : CAppend(id, v) /\ Rec(Cmd("append", id, v.ver, v.td, 0, ""))
  \/ \E id \in Ids, v \in Vals : PutRes(id, v) /\ Rec(Cmd("put", id, v.ver, v.td, 0, ""))
  \/ MarkBoot /\ Rec(Cmd("boot", 0, 0, FALSE, 0, ""))
  \/ \E id \in Ids : Remove(id) /\ Rec(Cmd("remove", id, 0, FALSE, 0, ""))
  \/ \E id \in Ids : NewCtx(id) /\ Rec(Cmd("ctx", id, 0, FALSE, 0, ""))
  \/ \E r \in Readers, op \in {"get", "list"}, id \in Ids : Read(r, op, id) /\ Rec(Cmd("read", id, 0, FALSE, r, op))
  \/ \E r \in Readers : Ack(r) /\ UNCHANGED <<hist, done>>
Finish == ~done /\ PrintT(<<"BEH", ToJson(hist)>>) /\ done' = TRUE /\ UNCHANGED vars /\ UNCHANGED hist
GenInit == Init /\ hist = <<>> /\ done = FALSE
GenNext == IF nops >= MaxOps THEN Finish ELSE ~done /\ GNext
GenSpec == GenInit /\ [][GenNext]_gvars
=============================================================================
