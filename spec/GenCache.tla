------------------------------ MODULE GenCache ------------------------------
EXTENDS Cache, Json, IOUtils
VARIABLES hist, done
gvars == <<boot, items, rd, cx, nops, partial, hist, done>>
Cmd(c, id, ver, td, r, op) == [c |-> c, id |-> id, ver |-> ver, td |-> td, r |-> r, op |-> op]
Rec(x) == hist' = Append(hist, x) /\ UNCHANGED done
(* weighted choice of the action class; contexts prefer cached running resources *)
GAppend == \E id \in Ids, v \in Vals : CAppend(id, v) /\ Rec(Cmd("append", id, v.ver, v.td, 0, ""))
GBoot == MarkBoot /\ Rec(Cmd("boot", 0, 0, FALSE, 0, ""))
GRead == \E r \in Readers, op \in {"get", "list"}, id \in Ids : Read(r, op, id) /\ Rec(Cmd("read", id, 0, FALSE, r, op))
GPut == \E id \in Ids, v \in Vals : PutRes(id, v) /\ Rec(Cmd("put", id, v.ver, v.td, 0, ""))
GPutTd == \E id \in Ids, v \in {x \in Vals : x.td} : PutRes(id, v) /\ Rec(Cmd("put", id, v.ver, v.td, 0, ""))
GRemove == \E id \in Ids : Remove(id) /\ Rec(Cmd("remove", id, 0, FALSE, 0, ""))
GCtxRunning == \E id \in {i \in Ids : i \in DOMAIN items /\ ~items[i].td} : NewCtx(id) /\ Rec(Cmd("ctx", id, 0, FALSE, 0, ""))
GCtx == \E id \in Ids : NewCtx(id) /\ Rec(Cmd("ctx", id, 0, FALSE, 0, ""))
GCancel == \E n \in 1..3 : CancelParent(n) /\ Rec(Cmd("cancelctx", n, 0, FALSE, 0, ""))
GRace == \/ \E id \in Ids, v \in Vals : RaceListPut(id, v) /\ Rec(Cmd("racelist", id, v.ver, v.td, 0, "put"))
         \/ \E id \in Ids : RaceListRemove(id) /\ Rec(Cmd("racelist", id, 0, FALSE, 0, "remove"))
GAck == \E r \in Readers : Ack(r) /\ UNCHANGED <<hist, done>>
GNext ==
  \E coin \in {RandomElement(1..12)} :
    IF ~boot /\ coin <= 4 THEN GAppend \/ GBoot
    ELSE IF ~boot THEN GBoot \/ GRead
    ELSE IF coin <= 2 THEN GPut
    ELSE IF coin <= 3 THEN GRemove \/ GPut
    ELSE IF coin <= 6 THEN (IF Cardinality(cx) < 3 THEN (IF \E i \in Ids : i \in DOMAIN items /\ ~items[i].td THEN GCtxRunning ELSE GCtx) ELSE GPutTd)
    ELSE IF coin <= 8 THEN (IF \E c \in cx : ~c.cancelled THEN GCancel ELSE GPutTd)
    ELSE IF coin <= 9 THEN GPutTd \/ GRemove
    ELSE IF coin <= 10 THEN (IF \E r \in Readers : rd[r].st = "idle" THEN GRead ELSE GAck)
    ELSE IF coin <= 11 THEN GRace \/ GPut
    ELSE GAck \/ GPut
Finish == ~done /\ PrintT(<<"BEH", ToJson(hist)>>) /\ done' = TRUE /\ UNCHANGED vars /\ UNCHANGED hist
GenInit == Init /\ hist = <<>> /\ done = FALSE
GenNext == IF nops >= MaxOps THEN Finish ELSE ~done /\ GNext
GenSpec == GenInit /\ [][GenNext]_gvars
=============================================================================
