SPECIFICATION Spec
CONSTANTS Ctrls = {"c1", "c2", "c3"}  Types = {"tA", "tB"}  Ids = {"a", "b"}  MaxCalls = 5
  OutMenu <- MCOutMenu  InMenu <- MCInMenu
INVARIANTS AtMostOneExclusive ExclusiveSharedNeverCoexist NoConflictingInputs OnlyRegisteredInGraph KindsMatchFlavour ImplRefinesProp RoutingOnlyRegistered
PROPERTIES RejectedHasNoEffect
CHECK_DEADLOCK FALSE
