----------------------------- MODULE TraceStore -----------------------------
(* Trace validation for C01 (sequential replay): every line of the trace is one  *)
(* store operation executed by the real code together with everything it          *)
(* returned and the full contents afterwards.  The sequential specification       *)
(* Store is applied to the same request; the recorded class must be one of the    *)
(* applicable outcomes, the predicate vector must be the one of that class, the   *)
(* written-back / returned objects and the contents must be equal.               *)
(* Several traces are concatenated; a "reset" line starts the next one.          *)
EXTENDS Store, Json, IOUtils, SequencesExt

TraceLog == ndJsonDeserialize(IOEnv.TRACE)

VARIABLES l,      \* next line
          tid,    \* current trace id
          bad,    \* current trace already rejected (skip to the next reset)
          nprec   \* lines whose class differs from the implementation-level precedence

tvars == <<store, res, l, tid, bad, nprec>>

AbsV(j) == [ver |-> j.ver, owner |-> j.owner, phase |-> j.phase, fins |-> ToSet(j.fins),
            labels |-> {<<p[1], p[2]>> : p \in ToSet(j.labels)}, spec |-> j.spec, cr |-> j.cr]
AbsK(j) == [ns |-> j.ns, typ |-> j.typ, id |-> j.id]
AbsKVs(js) == {<<AbsK(p.k), AbsV(p.v)>> : p \in ToSet(js)}

(* the request as the specification sees it; a create gets its creation class from the log *)
AbsReq(e) ==
  LET o == AbsV(e.req.obj)
      mine == {p \in ToSet(e.contents) : AbsK(p.k) = AbsK(e.req.k)}
      cr == IF e.req.op = "create" /\ e.cls = "ok" /\ mine # {} THEN (CHOOSE p \in mine : TRUE).v.cr ELSE o.cr
  IN [op |-> e.req.op, k |-> AbsK(e.req.k), owner |-> e.req.owner, exp |-> e.req.exp,
      obj |-> [o EXCEPT !.cr = cr, !.owner = IF e.req.op = "create" THEN e.req.owner ELSE o.owner]]

(* C01 does not speak about the creation time written back into the caller's object *)
(* (that is C11's write-back clause); reads must return it.                        *)
WriteBack(op, kvs) == IF op \in {"create", "update"} THEN {<<p[1], [p[2] EXCEPT !.cr = 0]>> : p \in kvs} ELSE kvs

Reject(e, what, exp, got) ==
  /\ PrintT(<<"MISMATCH", tid, l, what, e.req.op, e.cls>>)
  /\ PrintT(<<"DETAIL", ToString(exp), ToString(got)>>)
  /\ bad' = TRUE
  /\ UNCHANGED <<store, res, tid, nprec>>

Init == /\ store = Empty /\ res = [cls |-> "ok", out |-> {}]
        /\ l = 1 /\ tid = "" /\ bad = FALSE /\ nprec = 0

(* a write the (fault-injecting) backing store rejected: the call fails with that error and leaves no trace *)
Injected(e) == e.cls = "other" /\ e.err = "verif: injected backing store failure" /\ e.req.op \in {"create", "update", "destroy"}

StepOp(e) ==
  LET r == AbsReq(e) IN
  IF Injected(e)
    THEN IF e.pv # PredVector("other") THEN Reject(e, "predicates", PredVector("other"), e.pv)
         ELSE IF AbsKVs(e.out) # {} THEN Reject(e, "output", {}, AbsKVs(e.out))
         ELSE IF AbsKVs(e.contents) # PairsOf(store) THEN Reject(e, "contents-after-rejected-write", store, AbsKVs(e.contents))
         ELSE UNCHANGED <<store, res, tid, bad, nprec>>
  ELSE IF e.cls \notin Outcomes(r)
    THEN Reject(e, "class", Outcomes(r), e.cls)
  ELSE IF e.pv # PredVector(e.cls)
    THEN Reject(e, "predicates", PredVector(e.cls), e.pv)
  ELSE IF WriteBack(e.req.op, AbsKVs(e.out)) # WriteBack(e.req.op, Output(r, e.cls))
    THEN Reject(e, "output", Output(r, e.cls), AbsKVs(e.out))
  ELSE IF AbsKVs(e.contents) # PairsOf(NewStore(r, e.cls))
    THEN Reject(e, "contents", NewStore(r, e.cls), AbsKVs(e.contents))
  ELSE /\ Do(r, e.cls)
       /\ nprec' = nprec + (IF e.cls = ImplOutcome(r) THEN 0 ELSE 1)
       /\ UNCHANGED <<tid, bad>>

Next ==
  /\ l <= Len(TraceLog)
  /\ l' = l + 1
  /\ LET e == TraceLog[l] IN
       IF e.ev = "reset"
         THEN /\ store' = Empty /\ res' = [cls |-> "ok", out |-> {}]
              /\ tid' = e.tid /\ bad' = FALSE /\ UNCHANGED nprec
       ELSE IF bad THEN UNCHANGED <<store, res, tid, bad, nprec>>
       ELSE StepOp(e)
  /\ (l = Len(TraceLog)) => PrintT(<<"PRECEDENCE", nprec'>>)

Spec == Init /\ [][Next]_tvars

Consumed == TLCGet("stats").diameter - 1
Post == PrintT(<<"CONSUMED", Consumed>>) /\ Consumed = Len(TraceLog)
=============================================================================
