------------------------------- MODULE Store -------------------------------
(***************************************************************************)
(* Sequential specification of the COSI resource store (state.CoreState): *)
(* the property-level oracle of C01 and the base module of every other    *)
(* specification that talks about store contents.                         *)
(*                                                                         *)
(* A resource value is the projection                                      *)
(*   [ver, owner, phase, fins, labels, spec, cr]                           *)
(* (cr = equality class of the creation timestamp).  `store` is a function *)
(* whose DOMAIN is the set of existing keys [ns, typ, id].                 *)
(***************************************************************************)
EXTENDS Integers, Sequences, FiniteSets, TLC

VARIABLES store,  \* committed contents
          res     \* observation: result of the last operation [cls, out]

svars == <<store, res>>

Phases == {"running", "tearingDown"}

Exists(k)    == k \in DOMAIN store
Del(f, k) == [x \in DOMAIN f \ {k} |-> f[x]]
Put(f, k, v) == [x \in DOMAIN f \cup {k} |-> IF x = k THEN v ELSE f[x]]
Empty        == [x \in {} |-> 0]

KindOf(k)    == <<k.ns, k.typ>>
KeysOfKind(ns, typ) == {k \in DOMAIN store : k.ns = ns /\ k.typ = typ}
Pairs(ks)    == {<<k, store[k]>> : k \in ks}
Contents     == Pairs(DOMAIN store)
PairsOf(f)   == {<<k, f[k]>> : k \in DOMAIN f}

(* Requests all have the same shape:                                        *)
(*   [op, k, owner, exp, obj]  obj = [ver, owner, phase, fins, labels, spec, cr]*)
(*   owner : owner option of the call (""=none); exp : expected phase or "any" *)

Val(obj, ver, cr) == [ver |-> ver, owner |-> obj.owner, phase |-> obj.phase, fins |-> obj.fins,
                      labels |-> obj.labels, spec |-> obj.spec, cr |-> cr]

(***************************************************************************)
(* Outcome classes.  When several failure reasons apply the property only  *)
(* requires the reported class to be one of them (not-found whenever the   *)
(* resource is absent).  ImplOutcome is the fixed precedence of            *)
(* collection.go (exists > owner > version > phase; exists > owner > fins).*)
(***************************************************************************)
Outcomes(r) ==
  CASE r.op = "create" ->
         IF Exists(r.k) THEN {"conflict"} ELSE {"ok"}
    [] r.op = "update" ->
         IF ~Exists(r.k) THEN {"notfound"}
         ELSE LET c == store[r.k]
                  f == (IF c.owner # r.owner THEN {"ownerconflict"} ELSE {})
                       \cup (IF c.ver # r.obj.ver THEN {"conflict"} ELSE {})
                       \cup (IF r.exp # "any" /\ c.phase # r.exp THEN {"phaseconflict"} ELSE {})
              IN IF f = {} THEN {"ok"} ELSE f
    [] r.op = "destroy" ->
         IF ~Exists(r.k) THEN {"notfound"}
         ELSE LET c == store[r.k]
                  f == (IF c.owner # r.owner THEN {"ownerconflict"} ELSE {})
                       \cup (IF c.fins # {} THEN {"conflict"} ELSE {})
              IN IF f = {} THEN {"ok"} ELSE f
    [] r.op = "get" -> IF Exists(r.k) THEN {"ok"} ELSE {"notfound"}
    [] r.op = "list" -> {"ok"}
    (* helper operations of state.State that have an RPC of their own (sequential meaning) *)
    [] r.op = "teardown" ->
         IF ~Exists(r.k) THEN {"notfound"}
         ELSE IF store[r.k].phase = "tearingDown" THEN {"ok"}
         ELSE IF store[r.k].owner # r.owner THEN {"ownerconflict"} ELSE {"ok"}
    [] r.op = "tad" ->       \* only issued when no finalizer is pending (it would block otherwise)
         IF ~Exists(r.k) THEN {"notfound"}
         ELSE IF store[r.k].phase = "running" /\ store[r.k].owner # r.owner THEN {"ownerconflict"}   \* the teardown step
         ELSE IF store[r.k].fins # {} THEN {"blocked"}                                             \* waits for finalizers
         ELSE IF store[r.k].owner # r.owner THEN {"ownerconflict"}                                 \* the destroy step
         ELSE {"ok"}

ImplOutcome(r) ==
  LET o == Outcomes(r) IN
  IF "ownerconflict" \in o THEN "ownerconflict"
  ELSE IF "conflict" \in o THEN "conflict"
  ELSE CHOOSE c \in o : TRUE

(* The effect of request r with outcome cls (cls \in Outcomes(r)). *)
NewStore(r, cls) ==
  IF cls # "ok" THEN store
  ELSE CASE r.op = "create"  -> Put(store, r.k, Val(r.obj, 1, r.obj.cr))
         [] r.op = "update"  -> Put(store, r.k, Val(r.obj, store[r.k].ver + 1, store[r.k].cr))
         [] r.op = "destroy" -> Del(store, r.k)
         [] r.op = "teardown" -> IF store[r.k].phase = "tearingDown" THEN store
                                 ELSE Put(store, r.k, [store[r.k] EXCEPT !.phase = "tearingDown", !.ver = @ + 1])
         [] r.op = "tad" -> Del(store, r.k)
         [] OTHER -> store

(* What the caller gets back: written-back object for create/update, *)
(* the value(s) read for get/list, nothing otherwise.                 *)
Output(r, cls) ==
  IF cls # "ok" THEN {}
  ELSE CASE r.op = "create"  -> {<<r.k, Val(r.obj, 1, r.obj.cr)>>}
         [] r.op = "update"  -> {<<r.k, Val(r.obj, store[r.k].ver + 1, store[r.k].cr)>>}
         [] r.op = "get"     -> {<<r.k, store[r.k]>>}
         [] r.op = "list"    -> Pairs(KeysOfKind(r.k.ns, r.k.typ))
         [] OTHER -> {}

Do(r, cls) ==
  /\ cls \in Outcomes(r)
  /\ store' = NewStore(r, cls)
  /\ res' = [cls |-> cls, out |-> Output(r, cls)]

(***************************************************************************)
(* Error classification: the truth value of every predicate the API       *)
(* offers, on every class.  nsq / tyq: qualifier equal to the resource's   *)
(* namespace / type ("ok") or different ("bad").                           *)
(***************************************************************************)
PredVector(cls) ==
  [ nf      |-> IF cls = "notfound" THEN "t" ELSE "f",
    cf      |-> IF cls \in {"conflict", "ownerconflict", "phaseconflict"} THEN "t" ELSE "f",
    oc      |-> IF cls = "ownerconflict" THEN "t" ELSE "f",
    pc      |-> IF cls = "phaseconflict" THEN "t" ELSE "f",
    cfNsOk  |-> IF cls \in {"conflict", "ownerconflict", "phaseconflict"} THEN "t" ELSE "f",
    cfTyOk  |-> IF cls \in {"conflict", "ownerconflict", "phaseconflict"} THEN "t" ELSE "f",
    cfNsBad |-> "f",
    cfTyBad |-> "f" ]

(***************************************************************************)
(* Properties of the sequential store (checked on MC_Store).               *)
(***************************************************************************)
FailedLeavesUntouched == [][res'.cls # "ok" => store' = store]_svars

VersionDiscipline ==
  [][\A k \in DOMAIN store' :
        IF k \in DOMAIN store
        THEN /\ store'[k].ver \in {store[k].ver, store[k].ver + 1}
             /\ store'[k].cr = store[k].cr
             /\ (store'[k].ver = store[k].ver => store'[k] = store[k])
        ELSE store'[k].ver = 1]_svars

NeverRemovedWithFinalizers ==
  [][\A k \in DOMAIN store : k \notin DOMAIN store' => store[k].fins = {}]_svars

OneKeyPerStep ==
  [][Cardinality({k \in DOMAIN store \cup DOMAIN store' :
        (k \in DOMAIN store) # (k \in DOMAIN store') \/
        (k \in DOMAIN store /\ k \in DOMAIN store' /\ store[k] # store'[k])}) <= 1]_svars
=============================================================================
