---------------------------- MODULE GenRateLimit ----------------------------
EXTENDS Integers, Sequences, TLC, Json, IOUtils
VARIABLES hist, done
GenDepth == IF "GEN_DEPTH" \in DOMAIN IOEnv THEN atoi(IOEnv.GEN_DEPTH) ELSE 25
Ops == <<"create", "modify", "modify", "teardown", "destroy", "addfin", "remfin", "get", "list", "createDenied", "cleanup">>
GapsSeq == <<0, 0, 0, 7, 30, 100, 130, 250, 400, 1000>>
Keys == <<"tA/a", "tA/b", "tB/a">>
Init == hist = <<>> /\ done = FALSE
Step == \E op \in {Ops[RandomElement(1..Len(Ops))]}, g \in {GapsSeq[RandomElement(1..Len(GapsSeq))]}, k \in {Keys[RandomElement(1..Len(Keys))]} :
          hist' = Append(hist, [c |-> op, gap |-> g, k |-> k]) /\ UNCHANGED done
Finish == ~done /\ PrintT(<<"BEH", ToJson(hist)>>) /\ done' = TRUE /\ UNCHANGED hist
Next == IF Len(hist) >= GenDepth THEN Finish ELSE ~done /\ Step
Spec == Init /\ [][Next]_<<hist, done>>
=============================================================================
