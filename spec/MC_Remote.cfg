SPECIFICATION FSpec
INVARIANTS RoundTrip AtMostOneWastedRpc
PROPERTIES StickyOnceSet
CHECK_DEADLOCK FALSE
