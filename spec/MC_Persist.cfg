SPECIFICATION Spec
CONSTANTS Keys = {"a", "b"}  MaxOps = 5  MaxFaults = 2  MaxCrashes = 2
INVARIANTS DiskIsWrittenPrefix AckedSurvive MemNeverAhead MemBehindOnlyInside ReadsSeeDisk LoadOnlyWhenNeeded
PROPERTIES FailedWriteInvisible AfterRecovery
CHECK_DEADLOCK FALSE
