SPECIFICATION Spec
INVARIANT Laws
CHECK_DEADLOCK FALSE
