SPECIFICATION Spec
CONSTANTS Rate = 10  Burst = 3  Gaps = {0, 30, 100, 250, 1000}  MaxOps = 6
INVARIANTS NeverNegative WindowBound WaitBounded
CHECK_DEADLOCK FALSE
