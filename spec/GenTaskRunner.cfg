SPECIFICATION GenSpec
CONSTANTS Ids = {"a", "b", "c"}  Specs = {1, 2}  MaxOps = 1000
CHECK_DEADLOCK FALSE
