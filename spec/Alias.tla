-------------------------------- MODULE Alias --------------------------------
(***************************************************************************)
(* Caller isolation (C19).  Objects are handles onto heap cells: the       *)
(* metadata containers (labels, annotations, finalizers) of copies share   *)
(* their backing cell until one of them is written (copy-on-write as in    *)
(* kv.KV and Finalizers: clone, then write).  The store keeps its own      *)
(* deep copies.  Property: a mutation through one handle is a stutter for  *)
(* the store and for every other handle.                                   *)
(***************************************************************************)
EXTENDS Integers, Sequences, FiniteSets, TLC
CONSTANTS Handles, Vals, MaxOps, Broken      \* Broken = TRUE models "write in place" (the mutant the frame condition must catch)
VARIABLES heap, ptr, stored, nops, ncell
(* heap: cell -> set of values; ptr: handle -> cell (0 = unused); stored: the store's own cell *)
vars == <<heap, ptr, stored, nops, ncell>>
View(h) == IF ptr[h] = 0 THEN {} ELSE heap[ptr[h]]
Init == heap = (1 :> {}) /\ ptr = [h \in Handles |-> 0] /\ stored = 1 /\ nops = 0 /\ ncell = 1
Step == nops < MaxOps /\ nops' = nops + 1
NewCell(c) == heap' = heap @@ (ncell + 1 :> c) /\ ncell' = ncell + 1
(* Get / List: the caller receives a deep copy *)
Get(h) == Step /\ NewCell(heap[stored]) /\ ptr' = [ptr EXCEPT ![h] = ncell + 1] /\ UNCHANGED stored
(* Create / Update with the object held by h: the store keeps a deep copy of it *)
Put(h) == Step /\ ptr[h] # 0 /\ NewCell(heap[ptr[h]]) /\ stored' = ncell + 1 /\ UNCHANGED ptr
(* metadata copy (struct assignment / Copy()): shares the backing cell *)
Copy(h, g) == Step /\ ptr[h] # 0 /\ h # g /\ ptr' = [ptr EXCEPT ![g] = ptr[h]] /\ UNCHANGED <<heap, stored, ncell>>
(* mutation through h: clone, then write (copy-on-write) - or in place if Broken *)
Mutate(h, v) == /\ Step /\ ptr[h] # 0 /\ UNCHANGED stored
                /\ IF Broken THEN heap' = [heap EXCEPT ![ptr[h]] = @ \cup {v}] /\ UNCHANGED <<ptr, ncell>>
                   ELSE NewCell(heap[ptr[h]] \cup {v}) /\ ptr' = [ptr EXCEPT ![h] = ncell + 1]
Next == \E h \in Handles : Get(h) \/ Put(h) \/ (\E g \in Handles : Copy(h, g)) \/ (\E v \in Vals : Mutate(h, v))
Spec == Init /\ [][Next]_vars
(* frame condition of a mutation: nothing else changes *)
MutationIsLocal ==
  [][\A h \in Handles : (ptr[h] # 0 /\ View(h)' # View(h) /\ stored' = stored /\ ptr'[h] # 0 /\ (\A g \in Handles \ {h} : ptr'[g] = ptr[g]))
        => (heap'[stored'] = heap[stored] /\ \A g \in Handles \ {h} : View(g)' = View(g))]_vars
=============================================================================
