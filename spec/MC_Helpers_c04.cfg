SPECIFICATION Spec
CONSTANTS Actors <- A3  Programs <- ProgramsC04
INVARIANTS ObligationsMet NoMissedWakeup
PROPERTIES NeverRemovedWithFinalizers OnTopOfCurrent VersionStep CtxCancelHonest 
CHECK_DEADLOCK FALSE
