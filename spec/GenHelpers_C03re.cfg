SPECIFICATION GenSpec
CONSTANTS Actors <- A3  Programs <- ProgramsRecreate
CHECK_DEADLOCK FALSE
