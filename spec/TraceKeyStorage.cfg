SPECIFICATION TSpec
CONSTANTS SlotIds = {1, 2, 3}  KeyPairs = {1, 2, 3}  MaxOps = 1000000
POSTCONDITION Post
CHECK_DEADLOCK FALSE
