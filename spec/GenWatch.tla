------------------------------ MODULE GenWatch ------------------------------
(* Behaviour generator for the watch drivers (C02 / C12 / C14): simulation of  *)
(* the implementation-level model WatchLog with a history variable holding the *)
(* driver-visible commands.  Watcher reads are not commands (the driver cannot  *)
(* schedule them; they happen eagerly or, after a burst, late).                 *)
EXTENDS WatchLog, Json, IOUtils

VARIABLES hist, done
gvars == <<log, cap, stream, cur, ws, hist, done>>
EnvInitCap == atoi(IOEnv.INITCAP)
EnvMaxCap  == atoi(IOEnv.MAXCAP)
EnvGap     == atoi(IOEnv.GAP)
GenDepth == IF "GEN_DEPTH" \in DOMAIN IOEnv THEN atoi(IOEnv.GEN_DEPTH) ELSE 40

Cmd(c, w, kind, i, filt, mode, n, p, op, lab, wait) ==
  [c |-> c, w |-> w, kind |-> kind, id |-> i, filt |-> filt, mode |-> mode, n |-> n, p |-> p,
   op |-> op, lab |-> lab, wait |-> wait, bb |-> FALSE]

Rec(cmd) == hist' = Append(hist, cmd) /\ UNCHANGED done

LastOp == IF log' = <<>> THEN "none"
          ELSE LET e == log'[Len(log')] IN
               CASE e.t = "created" -> "create" [] e.t = "updated" -> "update" [] OTHER -> "destroy"

GPublish(i) == /\ Publish(i)
               /\ Rec(Cmd("pub", 0, "", i, FALSE, "", 0, 0, LastOp, log'[Len(log')].lab,
                          RandomElement({TRUE, TRUE, FALSE})))
GStartOne(w, i)      == StartOne(w, i)      /\ Rec(Cmd("start", w, "one", i, FALSE, "default", 0, 0, "", FALSE, TRUE))
GStartAll(w, f, agg) == StartAll(w, f)      /\ Rec(Cmd("start", w, IF agg THEN "agg" ELSE "all", 0, f, "default", 0, 0, "", FALSE, TRUE))
GStartBoot(w, f, c, agg) == StartBoot(w, f, c) /\ Rec(Cmd("start", w, IF agg THEN "agg" ELSE "all", 0, f,
                                                         IF c THEN "bootstrap" ELSE "bmbootstrap", 0, 0, "", FALSE, TRUE))
GStartTail(w, kind, i, n, agg, bb) ==
  StartTail(w, kind, i, n, bb) /\ Rec([Cmd("start", w, IF kind = "one" THEN "one" ELSE IF agg THEN "agg" ELSE "all", i, FALSE, "tail", n, 0, "", FALSE, TRUE) EXCEPT !.bb = bb /\ kind = "all"])
GStartBookmark(w, kind, i, p, agg, bb) ==
  StartBookmark(w, kind, i, p, bb) /\ Rec([Cmd("start", w, IF kind = "one" THEN "one" ELSE IF agg THEN "agg" ELSE "all", i, FALSE, "bookmark", 0, p, "", FALSE, TRUE) EXCEPT !.bb = bb /\ kind = "all"])
GDeliver(w) == Deliver(w) /\ Rec(Cmd("recv", w, "", 0, FALSE, "", 0, 0, "", FALSE, TRUE))
GRead(w) == Read(w) /\ UNCHANGED <<hist, done>>

Pubs   == \E i \in Ids : GPublish(i)
Starts == \/ \E w \in W, i \in Ids : GStartOne(w, i)
          \/ \E w \in W, f \in BOOLEAN, a \in BOOLEAN : GStartAll(w, f, a)
          \/ \E w \in W, f \in BOOLEAN, c \in BOOLEAN, a \in BOOLEAN : GStartBoot(w, f, c, a)
          \/ \E w \in W, i \in Ids, n \in Tails, a \in BOOLEAN, bb \in BOOLEAN : GStartTail(w, "one", i, n, a, FALSE) \/ GStartTail(w, "all", 0, n, a, bb)
          \/ \E w \in W, i \in Ids, p \in -1..(Len(log) + 1), a \in BOOLEAN, bb \in BOOLEAN : GStartBookmark(w, "one", i, p, a, FALSE) \/ GStartBookmark(w, "all", 0, p, a, bb)
Moves  == \E w \in W : GRead(w) \/ GDeliver(w)
CanStart == \E w \in W : ws[w].status = "idle"
CanMove  == \E w \in W : ws[w].status = "active" /\ (ws[w].outbox # <<>> \/ ws[w].pos < writePos)

(* weighted choice of the action class (simulation mode only) *)
(* transport faults and long pauses (only meaningful for the remote watch driver, C13) *)
StartedWs == {w \in W : ws[w].status # "idle"}
GFault == /\ StartedWs # {} /\ UNCHANGED vars
          /\ Rec(Cmd("fault", RandomElement(StartedWs), "", 0, FALSE, "", RandomElement({0, 0, 1, 2}), 0, "", FALSE, TRUE))
GWait == UNCHANGED vars /\ Rec(Cmd("wait", 0, "", 0, FALSE, "", 0, RandomElement({1, 1, 1200}), "", FALSE, TRUE))
Faults == IF "GEN_FAULTS" \in DOMAIN IOEnv THEN IOEnv.GEN_FAULTS = "1" ELSE FALSE

ModelNext ==
  \E coin \in {RandomElement(1..(IF Faults THEN 10 ELSE 8))} :
     IF coin = 9 THEN (IF StartedWs # {} THEN GFault ELSE Pubs)
     ELSE IF coin = 10 THEN GWait
     ELSE IF coin <= 3 THEN Pubs
     ELSE IF coin <= 5 THEN (IF CanStart THEN Starts ELSE Pubs)
     ELSE (IF CanMove THEN Moves ELSE Pubs)

Finish == /\ ~done
          /\ Len(hist) >= GenDepth \/ Len(log) >= MaxPub
          /\ PrintT(<<"BEH", ToJson(hist)>>)
          /\ done' = TRUE
          /\ UNCHANGED <<log, cap, stream, cur, ws, hist>>

GenInit == Init /\ hist = <<>> /\ done = FALSE
GenNext == IF Len(hist) >= GenDepth \/ Len(log) >= MaxPub THEN Finish ELSE (~done /\ ModelNext)
GenSpec == GenInit /\ [][GenNext]_gvars
=============================================================================
