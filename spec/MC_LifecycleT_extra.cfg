SPECIFICATION Spec
CONSTANTS MaxExt = 7  Finalizers = TRUE  Extra = TRUE
INVARIANTS FinBeforeOut C06
CHECK_DEADLOCK FALSE
