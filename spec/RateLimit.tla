------------------------------ MODULE RateLimit ------------------------------
(***************************************************************************)
(* Rate limiting of the changes a controller makes (options               *)
(* WithChangeRateLimit(limit, burst); controllerstate/adapter.go): every   *)
(* mutating call of the controller's runtime handle - allowed or denied,   *)
(* succeeding or failing - first takes one token from a token bucket       *)
(* (capacity Burst, refilled with Rate tokens per second), waiting for     *)
(* exactly as long as it takes the missing fraction to arrive; reads take  *)
(* nothing.  Time is in ms, tokens in 1/1000.                              *)
(***************************************************************************)
EXTENDS Integers, Sequences, TLC
CONSTANTS Rate,      \* tokens per second
          Burst,     \* bucket capacity in tokens
          Gaps,      \* idle times between calls (ms)
          MaxOps
VARIABLES tok,       \* milli-tokens in the bucket at time `at`
          at,        \* time of the last bucket update (ms)
          now, nops, lastWait, hist
vars == <<tok, at, now, nops, lastWait, hist>>
Cap == Burst * 1000
Min(a, b) == IF a < b THEN a ELSE b
(* bucket contents at time t >= at:  Rate tokens/s = Rate milli-tokens/ms *)
Refill(tk, from, t) == Min(Cap, tk + Rate * (t - from))
(* ms to wait until one whole token is available, given tk milli-tokens now *)
WaitFor(tk) == IF tk >= 1000 THEN 0 ELSE ((1000 - tk) + Rate - 1) \div Rate
Init == tok = Cap /\ at = 0 /\ now = 0 /\ nops = 0 /\ lastWait = 0 /\ hist = <<>>
(* a mutating call issued at time now + gap *)
Mutate(gap) ==
  LET t == now + gap
      tk == Refill(tok, at, t)
      w == WaitFor(tk)
  IN /\ nops < MaxOps /\ nops' = nops + 1
     /\ lastWait' = w
     /\ now' = t + w
     /\ at' = t + w
     /\ tok' = Refill(tk, t, t + w) - 1000
     /\ hist' = Append(hist, t + w)
Read(gap) == /\ nops < MaxOps /\ nops' = nops + 1 /\ now' = now + gap /\ lastWait' = 0 /\ UNCHANGED <<tok, at, hist>>
Next == \E g \in Gaps : Mutate(g) \/ Read(g)
Spec == Init /\ [][Next]_vars
(* ---- properties of the policy ---- *)
NeverNegative == tok >= 0 /\ tok <= Cap
(* in every window the number of changes is bounded by Burst + Rate * window *)
WindowBound == \A i, j \in 1..Len(hist) : i < j => (j - i) * 1000 <= Cap + Rate * (hist[j] - hist[i])
(* no call waits longer than one token period, and none waits while a token is there *)
WaitBounded == lastWait * Rate <= 1000 + Rate
=============================================================================
