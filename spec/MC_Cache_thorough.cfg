SPECIFICATION Spec
CONSTANTS Ids = {1, 2}  Readers = {1, 2}  MaxOps = 8  MaxVer = 2
INVARIANTS NoReadBeforeBootstrap BlockedOnlyBeforeBootstrap CtxCancelIff CtxCurrent
CHECK_DEADLOCK FALSE
