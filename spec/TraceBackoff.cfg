SPECIFICATION TSpec
CONSTANTS MaxLen = 1  Delays = {0}
POSTCONDITION Post
CHECK_DEADLOCK FALSE
