------------------------------- MODULE Cache -------------------------------
(***************************************************************************)
(* The runtime read cache of one kind (C15), white box: contents appended  *)
(* until Bootstrapped, then put / remove; readers block until the initial  *)
(* contents are complete; teardown-bound contexts of cached resources.     *)
(***************************************************************************)
EXTENDS Integers, Sequences, FiniteSets, TLC
CONSTANTS Ids, Readers, MaxOps, MaxVer
VARIABLES boot, items,        \* bootstrapped?, id -> [ver, td] (DOMAIN = cached ids)
          rd,                 \* reader -> [st, op, id, res]   st \in {"idle","blocked","done"}
          cx,                 \* set of contexts [n, id, cancelled, obs]
          nops, partial       \* ghost: a reader saw a partially bootstrapped view
vars == <<boot, items, rd, cx, nops, partial>>
Idle == [st |-> "idle", op |-> "", id |-> 0, res |-> {}]
View(op, id) == IF op = "get" THEN (IF id \in DOMAIN items THEN {<<id, items[id]>>} ELSE {})
                ELSE {<<i, items[i]>> : i \in DOMAIN items}
Put(f, k, v) == [x \in DOMAIN f \cup {k} |-> IF x = k THEN v ELSE f[x]]
TdLike(its, id) == id \notin DOMAIN its \/ its[id].td
Cancel(its) == {[c EXCEPT !.cancelled = @ \/ TdLike(its, c.id), !.obs = @ \/ TdLike(its, c.id)] : c \in cx}

Init == boot = FALSE /\ items = [x \in {} |-> 0] /\ rd = [r \in Readers |-> Idle] /\ cx = {} /\ nops = 0 /\ partial = FALSE
Step == nops < MaxOps /\ nops' = nops + 1
(* bootstrap contents arrive in id order *)
CAppend(id, v) == /\ Step /\ ~boot /\ \A j \in DOMAIN items : j < id
                 /\ items' = Put(items, id, v) /\ UNCHANGED <<boot, rd, cx, partial>>
MarkBoot == /\ Step /\ ~boot /\ boot' = TRUE
            /\ rd' = [r \in Readers |-> IF rd[r].st = "blocked" THEN [rd[r] EXCEPT !.st = "done", !.res = View(rd[r].op, rd[r].id)] ELSE rd[r]]
            /\ UNCHANGED <<items, cx, partial>>
PutRes(id, v) == /\ Step /\ boot /\ items' = Put(items, id, v) /\ cx' = Cancel(items') /\ UNCHANGED <<boot, rd, partial>>
Remove(id) == /\ Step /\ boot /\ id \in DOMAIN items
              /\ items' = [x \in DOMAIN items \ {id} |-> items[x]] /\ cx' = Cancel(items') /\ UNCHANGED <<boot, rd, partial>>
Read(r, op, id) == /\ Step /\ rd[r].st = "idle"
                   /\ rd' = [rd EXCEPT ![r] = IF boot THEN [st |-> "done", op |-> op, id |-> id, res |-> View(op, id)]
                                                        ELSE [st |-> "blocked", op |-> op, id |-> id, res |-> {}]]
                   /\ UNCHANGED <<boot, items, cx, partial>>
Ack(r) == /\ rd[r].st = "done" /\ rd' = [rd EXCEPT ![r] = Idle] /\ UNCHANGED <<boot, items, cx, nops, partial>>
NewCtx(id) == /\ Step /\ boot /\ Cardinality(cx) < 3
              /\ cx' = cx \cup {[n |-> Cardinality(cx) + 1, id |-> id, cancelled |-> TdLike(items, id), obs |-> TdLike(items, id)]}
              /\ UNCHANGED <<boot, items, rd, partial>>
(* the parent context of one teardown-bound context is cancelled: only that context ends *)
CancelParent(n) == /\ Step /\ \E c \in cx : c.n = n /\ ~c.cancelled
                   /\ cx' = {IF c.n = n THEN [c EXCEPT !.cancelled = TRUE, !.obs = TRUE] ELSE c : c \in cx}
                   /\ UNCHANGED <<boot, items, rd, partial>>
(* a filtered List (label / ID query) running concurrently with one cache mutation: the state effect is the mutation; what *)
(* the List may return (the contents at ONE instant: before or after the mutation) is judged on the code (TraceCache)        *)
RaceListPut(id, v) == PutRes(id, v)
RaceListRemove(id) == Remove(id)
Vals == [ver : 1..MaxVer, td : BOOLEAN]
Next == \/ \E id \in Ids, v \in Vals : CAppend(id, v) \/ PutRes(id, v)
        \/ MarkBoot \/ \E id \in Ids : Remove(id) \/ NewCtx(id) \/ RaceListRemove(id)
        \/ \E id \in Ids, v \in Vals : RaceListPut(id, v)
        \/ \E n \in 1..3 : CancelParent(n)
        \/ \E r \in Readers, op \in {"get", "list"}, id \in Ids : Read(r, op, id)
        \/ \E r \in Readers : Ack(r)
Spec == Init /\ [][Next]_vars
NoReadBeforeBootstrap == \A r \in Readers : rd[r].st = "done" => boot
BlockedOnlyBeforeBootstrap == \A r \in Readers : rd[r].st = "blocked" => ~boot
CtxCancelIff == \A c \in cx : c.cancelled <=> c.obs
CtxCurrent == \A c \in cx : TdLike(items, c.id) => c.cancelled
=============================================================================
