----------------------------- MODULE TraceDepDB -----------------------------
(* Judge for C17: registration / UpdateInputs calls made on the real runtime with   *)
(* their outcome, the exported dependency graph after every call, and, after writes *)
(* to probe resources, the set of controllers that were notified.                   *)
EXTENDS DepDB, Json, IOUtils, SequencesExt

TraceLog == ndJsonDeserialize(IOEnv.TRACE)
VARIABLES l, tid, bad
tvars == <<db, ncalls, last, l, tid, bad>>

AbsOut(j) == [typ |-> j.typ, kind |-> j.kind]
AbsIn(j) == [typ |-> j.typ, id |-> j.id, kind |-> j.kind]
AbsCall(e) == [op |-> e.op, c |-> e.c, fl |-> e.fl,
               outs |-> [i \in 1..Len(e.outs) |-> AbsOut(e.outs[i])],
               ins |-> [i \in 1..Len(e.ins) |-> AbsIn(e.ins[i])]]
AbsEdges(js) == {[c |-> j.c, typ |-> j.typ, id |-> j.id, kind |-> j.kind] : j \in ToSet(js)}

TInit == db = EmptyDB /\ ncalls = 0 /\ last = [ok |-> TRUE, agree |-> TRUE] /\ l = 1 /\ tid = "" /\ bad = FALSE
Reject(what, exp, got) ==
  /\ PrintT(<<"MISMATCH", tid, l, what>>) /\ PrintT(<<"DETAIL", ToString(exp), ToString(got)>>)
  /\ bad' = TRUE /\ UNCHANGED <<db, tid>>
Keep == UNCHANGED <<tid, bad>>

Call(e) ==
  LET call == AbsCall(e)
      p == PropCall(db, call)
  IN IF p[1] # (e.res = "ok")
     THEN Reject(IF p[1] THEN "valid-call-rejected" ELSE "invalid-call-accepted", [accept |-> p[1], call |-> call], e.res)
     ELSE db' = p[2] /\ Keep

GraphLine(e) ==
  IF AbsEdges(e.edges) # Graph(db)
  THEN Reject("graph", [missing |-> Graph(db) \ AbsEdges(e.edges), extra |-> AbsEdges(e.edges) \ Graph(db)], "exported graph")
  ELSE UNCHANGED db /\ Keep

WriteLine(e) ==
  LET must == Notified(db, e.typ, e.id, [phase |-> e.phase, finsEmpty |-> e.finsEmpty])
      may == MayNotify(db, e.typ, e.id)
      got == ToSet(e.woke)
  IN IF ~(must \subseteq got)
     THEN Reject("notification-missing", [must |-> must, typ |-> e.typ, id |-> e.id, phase |-> e.phase], got)
     ELSE IF ~(got \subseteq may)
     THEN Reject("notification-spurious", [may |-> may, typ |-> e.typ, id |-> e.id, phase |-> e.phase], got)
     ELSE UNCHANGED db /\ Keep

TNext ==
  /\ l <= Len(TraceLog) /\ l' = l + 1 /\ UNCHANGED <<ncalls, last>>
  /\ LET e == TraceLog[l] IN
       IF e.ev = "reset" THEN db' = EmptyDB /\ tid' = e.tid /\ bad' = FALSE
       ELSE IF bad THEN UNCHANGED <<db, tid, bad>>
       ELSE CASE e.ev = "call" -> Call(e)
              [] e.ev = "graph" -> GraphLine(e)
              [] e.ev = "write" -> WriteLine(e)
              [] e.ev = "crash" -> Reject("runtime-crashed", "event delivery survives", e.note)
              [] OTHER -> UNCHANGED db /\ Keep
TSpec == TInit /\ [][TNext]_tvars
Consumed == TLCGet("stats").diameter - 1
Post == PrintT(<<"CONSUMED", Consumed>>) /\ Consumed = Len(TraceLog)
=============================================================================
