---------------------------- MODULE TracePersist ----------------------------
(***************************************************************************)
(* Judge for the persistent store (C10).  Lines:                           *)
(*  op     - a store request executed on the real state (inmem + bbolt),   *)
(*           with its outcome, the contents seen through the state API,    *)
(*           the contents read back from the database file, the number of  *)
(*           watch events a kind watcher received for it, and whether a    *)
(*           backing-store failure had been injected into it;              *)
(*  crash  - the process "crashed" (state dropped, file closed) during the *)
(*           given request (before / after its backing-store write) or     *)
(*           between requests;                                             *)
(*  reopen - contents of the re-opened state;                             *)
(*  raceread - a request issued by one of two clients whose first access   *)
(*           to the re-opened state overlapped (one of them was parked     *)
(*           inside the backing store's Load): class and returned values   *)
(*           must be those of the completely loaded state.                 *)
(* The sequential specification Store gives the meaning of requests.       *)
(***************************************************************************)
EXTENDS Store, Json, IOUtils, SequencesExt
TraceLog == ndJsonDeserialize(IOEnv.TRACE)
VARIABLES inflight,   \* <<>> or <<request>> : the request that was running when the process crashed
          l, tid, bad
tvars == <<store, res, inflight, l, tid, bad>>
AbsV(j) == [ver |-> j.ver, owner |-> j.owner, phase |-> j.phase, fins |-> ToSet(j.fins),
            labels |-> {<<p[1], p[2]>> : p \in ToSet(j.labels)}, spec |-> j.spec, cr |-> j.cr]
AbsK(j) == [ns |-> j.ns, typ |-> j.typ, id |-> j.id]
AbsKVs(js) == {<<AbsK(p.k), AbsV(p.v)>> : p \in ToSet(js)}
AbsReq(e) ==
  LET o == AbsV(e.req.obj)
      mine == {p \in ToSet(e.contents) : AbsK(p.k) = AbsK(e.req.k)}
      cr == IF e.req.op = "create" /\ mine # {} THEN (CHOOSE p \in mine : TRUE).v.cr ELSE o.cr
  IN [op |-> e.req.op, k |-> AbsK(e.req.k), owner |-> e.req.owner, exp |-> e.req.exp,
      obj |-> [o EXCEPT !.cr = cr, !.owner = IF e.req.op = "create" THEN e.req.owner ELSE o.owner]]
IsWrite(op) == op \in {"create", "update", "destroy"}
FromPairs(ps) == [k \in {p[1] : p \in ps} |-> (CHOOSE p \in ps : p[1] = k)[2]]

Init == store = Empty /\ res = [cls |-> "ok", out |-> {}] /\ inflight = <<>> /\ l = 1 /\ tid = "" /\ bad = FALSE
Reject(what, exp, got) ==
  /\ PrintT(<<"MISMATCH", tid, l, what>>) /\ PrintT(<<"DETAIL", ToString(exp), ToString(got)>>)
  /\ bad' = TRUE /\ UNCHANGED <<store, res, inflight, tid>>

(* parallel-clients stage: several clients write at once, each to a namespace of its own; the database file and the watch *)
(* events are not observed per operation there (the re-opened contents are)                                              *)
Par(e) == "par" \in DOMAIN e /\ e.par
Op(e) ==
  LET r == AbsReq(e) IN
  IF e.inj /\ IsWrite(r.op) /\ "ok" \in Outcomes(r)
  THEN (* the backing store rejected the write: the operation fails, nothing is observable *)
       IF e.cls = "ok" THEN Reject("injected-failure-reported-success", "error", e.cls)
       ELSE IF AbsKVs(e.contents) # Contents THEN Reject("failed-write-visible-in-memory", Contents, AbsKVs(e.contents))
       ELSE IF AbsKVs(e.disk) # Contents THEN Reject("failed-write-visible-on-disk", Contents, AbsKVs(e.disk))
       ELSE IF e.nev # 0 THEN Reject("failed-write-published-event", 0, e.nev)
       ELSE UNCHANGED <<store, res, inflight, tid, bad>>
  ELSE IF e.cls \notin Outcomes(r) THEN Reject("class", Outcomes(r), e.cls)
  ELSE IF AbsKVs(e.contents) # PairsOf(NewStore(r, e.cls)) THEN Reject("memory-contents", NewStore(r, e.cls), AbsKVs(e.contents))
  ELSE IF ~Par(e) /\ AbsKVs(e.disk) # PairsOf(NewStore(r, e.cls)) THEN Reject("memory-diverged-from-disk", NewStore(r, e.cls), AbsKVs(e.disk))
  ELSE IF ~Par(e) /\ e.nev # (IF e.cls = "ok" /\ IsWrite(r.op) THEN 1 ELSE 0) THEN Reject("watch-events", IF e.cls = "ok" /\ IsWrite(r.op) THEN 1 ELSE 0, e.nev)
  ELSE Do(r, e.cls) /\ UNCHANGED <<inflight, tid, bad>>

Crash(e) == /\ inflight' = IF e.during THEN <<e>> ELSE <<>>
            /\ UNCHANGED <<store, res, tid, bad>>

(* after a restart: a prefix of the issued operations containing every acknowledged one *)
Reopen(e) ==
  LET got == AbsKVs(e.contents)
      base == Contents
      withInflight ==
        IF inflight = <<>> THEN {}
        ELSE LET ce == inflight[1]
                 r0 == [op |-> ce.req.op, k |-> AbsK(ce.req.k), owner |-> ce.req.owner, exp |-> ce.req.exp, obj |-> AbsV(ce.req.obj)]
                 mine == {p \in got : p[1] = r0.k}
                 r == [r0 EXCEPT !.obj.cr = IF r0.op = "create" /\ mine # {} THEN (CHOOSE p \in mine : TRUE)[2].cr ELSE @,
                                 !.obj.owner = IF r0.op = "create" THEN r0.owner ELSE @]
             IN IF "ok" \in Outcomes(r) THEN {PairsOf(NewStore(r, "ok"))} ELSE {}
  IN IF got # base /\ got \notin withInflight
     THEN Reject("state-after-restart", [acked |-> base, orWithInflight |-> withInflight], got)
     ELSE /\ store' = FromPairs(got) /\ inflight' = <<>> /\ UNCHANGED <<res, tid, bad>>

RaceRead(e) ==
  LET o == AbsV(e.req.obj)
      r == [op |-> e.req.op, k |-> AbsK(e.req.k), owner |-> e.req.owner, exp |-> e.req.exp, obj |-> o]
  IN IF e.cls \notin Outcomes(r) THEN Reject("first-access-during-load/class", Outcomes(r), e.cls)
     ELSE IF r.op \in {"get", "list"} /\ AbsKVs(e.out) # Output(r, e.cls)
          THEN Reject("first-access-during-load/values", Output(r, e.cls), AbsKVs(e.out))
     ELSE UNCHANGED <<store, res, inflight, tid, bad>>

Next == /\ l <= Len(TraceLog) /\ l' = l + 1
        /\ LET e == TraceLog[l] IN
             IF e.ev = "reset" THEN store' = Empty /\ res' = [cls |-> "ok", out |-> {}] /\ inflight' = <<>> /\ tid' = e.tid /\ bad' = FALSE
             ELSE IF bad THEN UNCHANGED <<store, res, inflight, tid, bad>>
             ELSE CASE e.ev = "op" -> Op(e)
                    [] e.ev = "crash" -> Crash(e)
                    [] e.ev = "reopen" -> Reopen(e)
                    [] e.ev = "raceread" -> RaceRead(e)
                    [] OTHER -> UNCHANGED <<store, res, inflight, tid, bad>>
Spec == Init /\ [][Next]_tvars
Consumed == TLCGet("stats").diameter - 1
Post == PrintT(<<"CONSUMED", Consumed>>) /\ Consumed = Len(TraceLog)
=============================================================================
