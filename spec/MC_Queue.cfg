SPECIFICATION Spec
CONSTANTS Keys = {"a", "b"}  Workers = {1, 2}  Vals = {1, 2, 3}  MaxNow = 4  MaxDelay = 2
INVARIANTS NoDoubleHold OnHoldIsHeld AtMostOnePendingPerKey Sorted FreshIsPending ParkedOnlyWhileHeld LenIsPendingPlusParked
PROPERTIES NotBeforeRequested
CHECK_DEADLOCK FALSE
