------------------------------- MODULE DepDB -------------------------------
(***************************************************************************)
(* Controller registration, dynamic inputs, dependency graph and routing   *)
(* of change notifications (C17).                                          *)
(*                                                                         *)
(* Property level: a database is [excl, shared, ins, flav]; a call is      *)
(* accepted or rejected as a whole (Accepts), an accepted call is applied  *)
(* (Apply), a rejected one leaves everything as it was.                    *)
(* Implementation level: RegisterController / RegisterQController are the  *)
(* real sequences of AddControllerOutput / AddControllerInput calls, and   *)
(* UpdateInputs is the sorted merge; ImplCall folds them over the database *)
(* and rolls the controller's rows back on failure.  TLC checks that both  *)
(* levels agree on every reachable database and every call of the menu.    *)
(***************************************************************************)
EXTENDS Integers, Sequences, FiniteSets, TLC

CONSTANTS Ctrls, Types, Ids,        \* Ids does not contain NoId
          OutMenu, InMenu,          \* sets of sequences of outputs / inputs
          MaxCalls

NoId == "-"
RKinds == {"weak", "strong", "destroyReady"}
QKinds == {"qPrimary", "qMapped", "qMappedDestroyReady"}
KindsOf(fl) == IF fl = "r" THEN RKinds ELSE QKinds

(* output: [typ, kind \in {"excl","shared"}];  input: [typ, id, kind]  (one namespace) *)
SameKey(a, b) == a.typ = b.typ /\ a.id = b.id
Range(s) == {s[i] : i \in 1..Len(s)}

VARIABLES db, ncalls, last
vars == <<db, ncalls, last>>

EmptyDB == [excl |-> [t \in {} |-> ""], shared |-> [t \in Types |-> {}], ins |-> [c \in {} |-> {}], flav |-> [c \in {} |-> ""]]
Registered(d) == DOMAIN d.flav

(* ----------------------------------------------------------- property level *)
OutsOK(d, c, outs) ==
  /\ \A i \in 1..Len(outs) :
        LET o == outs[i] IN
        /\ o.typ \notin DOMAIN d.excl
        /\ \A j \in 1..(i - 1) : outs[j].typ # o.typ      \* a type claimed twice by one declaration is always rejected
        /\ o.kind = "excl" => d.shared[o.typ] = {}
        /\ o.kind = "shared" => c \notin d.shared[o.typ]
InsOK(fl, ins) ==
  /\ \A i \in 1..Len(ins) : ins[i].kind \in KindsOf(fl)
  /\ \A i, j \in 1..Len(ins) : i # j => ~SameKey(ins[i], ins[j])

Accepts(d, call) ==
  CASE call.op = "register" -> /\ call.c \notin Registered(d)
                               /\ OutsOK(d, call.c, call.outs)
                               /\ InsOK(call.fl, call.ins)
    [] call.op = "update"   -> /\ call.c \in Registered(d) /\ d.flav[call.c] = "r"
                               /\ InsOK("r", call.ins)

Apply(d, call) ==
  IF call.op = "register"
  THEN [excl   |-> [t \in DOMAIN d.excl \cup {o.typ : o \in {x \in Range(call.outs) : x.kind = "excl"}} |->
                      IF t \in DOMAIN d.excl THEN d.excl[t] ELSE call.c],
        shared |-> [t \in Types |-> IF \E o \in Range(call.outs) : o.typ = t /\ o.kind = "shared"
                                    THEN d.shared[t] \cup {call.c} ELSE d.shared[t]],
        ins    |-> [c \in DOMAIN d.ins \cup {call.c} |-> IF c = call.c THEN Range(call.ins) ELSE d.ins[c]],
        flav   |-> [c \in DOMAIN d.flav \cup {call.c} |-> IF c = call.c THEN call.fl ELSE d.flav[c]]]
  ELSE [d EXCEPT !.ins = [c \in DOMAIN d.ins |-> IF c = call.c THEN Range(call.ins) ELSE d.ins[c]]]

PropCall(d, call) == IF Accepts(d, call) THEN <<TRUE, Apply(d, call)>> ELSE <<FALSE, d>>

(* the exported graph: set of edges *)
Graph(d) ==
       {[c |-> d.excl[t], typ |-> t, id |-> NoId, kind |-> "excl"] : t \in DOMAIN d.excl}
  \cup UNION {{[c |-> c, typ |-> t, id |-> NoId, kind |-> "shared"] : c \in d.shared[t]} : t \in Types}
  \cup UNION {{[c |-> c, typ |-> i.typ, id |-> i.id, kind |-> i.kind] : i \in d.ins[c]} : c \in DOMAIN d.ins}

(* controllers that may be notified of a change to (typ, id): those with any matching input *)
MayNotify(d, typ, id) ==
  {c \in DOMAIN d.ins : \E i \in d.ins[c] : i.typ = typ /\ (i.id = NoId \/ i.id = id)}
(* controllers that must be notified of a change to (typ, id) in state st = [phase, finsEmpty]:  *)
(* some matching input is not destroy-ready-filtered, or the resource is ready to be destroyed *)
DestroyReady(st) == st.phase = "tearingDown" /\ st.finsEmpty
Notified(d, typ, id, st) ==
  {c \in DOMAIN d.ins : \E i \in d.ins[c] :
      /\ i.typ = typ /\ (i.id = NoId \/ i.id = id)
      /\ (i.kind \in {"destroyReady", "qMappedDestroyReady"} => DestroyReady(st))}

(* ----------------------------------------------------- implementation level *)
(* one AddControllerOutput on the raw tables; <<ok, d>> *)
AddOutput(d, c, o) ==
  IF o.typ \in DOMAIN d.excl THEN <<FALSE, d>>
  ELSE IF o.kind = "excl"
       THEN IF d.shared[o.typ] # {} THEN <<FALSE, d>>
            ELSE <<TRUE, [d EXCEPT !.excl = [t \in DOMAIN d.excl \cup {o.typ} |-> IF t = o.typ THEN c ELSE d.excl[t]]]>>
       ELSE IF c \in d.shared[o.typ] THEN <<FALSE, d>>
            ELSE <<TRUE, [d EXCEPT !.shared[o.typ] = @ \cup {c}]>>

InsOf(d, c) == IF c \in DOMAIN d.ins THEN d.ins[c] ELSE {}
AddInput(d, c, i) ==
  IF \E x \in InsOf(d, c) : SameKey(x, i) THEN <<FALSE, d>>
  ELSE <<TRUE, [d EXCEPT !.ins = [k \in DOMAIN d.ins \cup {c} |-> IF k = c THEN InsOf(d, c) \cup {i} ELSE d.ins[k]]]>>

RECURSIVE FoldOuts(_, _, _), FoldIns(_, _, _, _)
FoldOuts(d, c, outs) ==
  IF outs = <<>> THEN <<TRUE, d>>
  ELSE LET r == AddOutput(d, c, Head(outs)) IN IF r[1] THEN FoldOuts(r[2], c, Tail(outs)) ELSE <<FALSE, r[2]>>
FoldIns(d, c, fl, ins) ==
  IF ins = <<>> THEN <<TRUE, d>>
  ELSE IF Head(ins).kind \notin KindsOf(fl) THEN <<FALSE, d>>
  ELSE LET r == AddInput(d, c, Head(ins)) IN IF r[1] THEN FoldIns(r[2], c, fl, Tail(ins)) ELSE <<FALSE, r[2]>>

(* remove every row of controller c (the roll-back of a rejected registration) *)
Purge(d, c) ==
  [excl |-> [t \in {x \in DOMAIN d.excl : d.excl[x] # c} |-> d.excl[t]],
   shared |-> [t \in Types |-> d.shared[t] \ {c}],
   ins |-> [k \in DOMAIN d.ins \ {c} |-> d.ins[k]],
   flav |-> [k \in DOMAIN d.flav \ {c} |-> d.flav[k]]]

ImplRegister(d, call) ==
  IF call.c \in Registered(d) THEN <<FALSE, d>>
  ELSE LET r1 == FoldOuts(d, call.c, call.outs) IN
       IF ~r1[1] THEN <<FALSE, Purge(r1[2], call.c)>>
       ELSE IF call.fl = "r" /\ \E i \in 1..Len(call.ins) : call.ins[i].kind \notin RKinds THEN <<FALSE, Purge(r1[2], call.c)>>
       ELSE LET r2 == FoldIns(r1[2], call.c, call.fl, call.ins) IN
            IF ~r2[1] THEN <<FALSE, Purge(r2[2], call.c)>>
            ELSE <<TRUE, [r2[2] EXCEPT !.flav = [k \in DOMAIN r2[2].flav \cup {call.c} |-> IF k = call.c THEN call.fl ELSE r2[2].flav[k]],
                                       !.ins = [k \in DOMAIN r2[2].ins \cup {call.c} |-> IF k = call.c THEN InsOf(r2[2], call.c) ELSE r2[2].ins[k]]]>>

(* UpdateInputs: validation first, then the merge replaces the controller's input rows *)
ImplUpdate(d, call) ==
  IF call.c \notin Registered(d) \/ d.flav[call.c] # "r" THEN <<FALSE, d>>
  ELSE IF \E i \in 1..Len(call.ins) : call.ins[i].kind \notin RKinds THEN <<FALSE, d>>
  ELSE IF \E i, j \in 1..Len(call.ins) : i # j /\ SameKey(call.ins[i], call.ins[j]) THEN <<FALSE, d>>
  ELSE <<TRUE, [d EXCEPT !.ins[call.c] = Range(call.ins)]>>

ImplCall(d, call) == IF call.op = "register" THEN ImplRegister(d, call) ELSE ImplUpdate(d, call)

(* ------------------------------------------------------------------ model *)
Calls == [op : {"register"}, c : Ctrls, fl : {"r", "q"}, outs : OutMenu, ins : InMenu]
    \cup [op : {"update"},   c : Ctrls, fl : {"r"},      outs : {<<>>},  ins : InMenu]

Init == db = EmptyDB /\ ncalls = 0 /\ last = [ok |-> TRUE, agree |-> TRUE]
Next == /\ ncalls < MaxCalls
        /\ \E call \in Calls :
             LET p == PropCall(db, call)
                 m == ImplCall(db, call)
             IN /\ db' = p[2]
                /\ last' = [ok |-> p[1], agree |-> (p = m)]
                /\ ncalls' = ncalls + 1
Spec == Init /\ [][Next]_vars

AtMostOneExclusive == \A t \in DOMAIN db.excl : db.excl[t] \in Registered(db)
ExclusiveSharedNeverCoexist == \A t \in DOMAIN db.excl : db.shared[t] = {}
NoConflictingInputs == \A c \in DOMAIN db.ins : \A a, b \in db.ins[c] : a # b => ~SameKey(a, b)
OnlyRegisteredInGraph == \A e \in Graph(db) : e.c \in Registered(db)
KindsMatchFlavour == \A c \in DOMAIN db.ins : \A i \in db.ins[c] : i.kind \in KindsOf(db.flav[c])
ImplRefinesProp == last.agree
RejectedHasNoEffect == [][~last'.ok => db' = db]_vars
RoutingOnlyRegistered == \A t \in Types, i \in Ids : Notified(db, t, i, [phase |-> "running", finsEmpty |-> TRUE]) \subseteq Registered(db)
=============================================================================
