SPECIFICATION Spec
CONSTANTS Keys = {"a", "b"}  MaxOps = 7  MaxFaults = 2  MaxCrashes = 3
INVARIANTS DiskIsWrittenPrefix AckedSurvive MemNeverAhead MemBehindOnlyInside ReadsSeeDisk LoadOnlyWhenNeeded
PROPERTIES FailedWriteInvisible AfterRecovery
CHECK_DEADLOCK FALSE
