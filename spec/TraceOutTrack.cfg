SPECIFICATION TSpec
CONSTANTS Keys <- K4
          MaxVer = 100
POSTCONDITION Post
CHECK_DEADLOCK FALSE
