---------------------------- MODULE LifecycleQT ----------------------------
(***************************************************************************)
(* One input / one output of a QTransform controller (C06, C07) at the     *)
(* granularity of its store operations, following qtransform.go:           *)
(* Reconcile (r0) -> reconcileRunning (rr1 AddFinalizer, rr2/rr2d          *)
(* handleOutputTearingDown, rr3 Modify) or reconcileTearingDown (td1       *)
(* Teardown, td2 Destroy, td3 RemoveFinalizer); the queue is a dirty flag, *)
(* the destroy-ready mapped input on the output kind is mapPending.        *)
(* An external actor creates / updates / tears down / destroys / re-creates *)
(* the input, puts a foreign finalizer X on it and F on the output.        *)
(*                                                                         *)
(* NAMED DEVIATION InputFirstSeenTearingDown (option IgnoreTeardownUntil / *)
(* While): an input first seen in tearing-down phase without the           *)
(* controller's finalizer is reconciled as running, AddFinalizer is        *)
(* skipped (phase is not running) and the output is created without the    *)
(* finalizer on the input (C07), and orphaned if the input is destroyed    *)
(* (C06).  FinBeforeOut / C06 hold for IgnoreUntil = FALSE and are         *)
(* violated for TRUE exactly as on the code (known finding).               *)
(*                                                                         *)
(* Extra = TRUE: a secondary (extra mapped) input kind.  The transform     *)
(* reads the secondary resource while it computes the output (rr3 reads,   *)
(* rr3w writes: two store operations, the secondary may change in          *)
(* between); a change of the secondary queues a map job (secPending) whose *)
(* mapper names the primary input, which makes the item dirty.  The image  *)
(* of an input is 10 * in.val + sec.                                       *)
(***************************************************************************)
EXTENDS Integers, Sequences, FiniteSets, TLC
CONSTANTS MaxExt, IgnoreUntil, AllowedFins,    \* IgnoreUntil: BOOLEAN (WithIgnoreTeardownUntil(AllowedFins))
          Extra                               \* BOOLEAN (WithExtraMappedInput)
VARIABLES in, out, ext, pc, lin, dirty, mapPending, viol, sec, lsec, secPending
vars == <<in, out, ext, pc, lin, dirty, mapPending, viol, sec, lsec, secPending>>
svars == <<sec, lsec, secPending>>
Absent == [ex |-> FALSE, ph |-> "run", fins |-> {}, val |-> 0]
C == "C"   \* controller finalizer
F == "F"   \* foreign finalizer on outputs
X == "X"   \* foreign finalizer on inputs
Vals == {1, 2}

Init == in = Absent /\ out = Absent /\ ext = 0 /\ pc = "idle" /\ lin = Absent /\ dirty = FALSE /\ mapPending = FALSE /\ viol = "none"
        /\ sec = 0 /\ lsec = 0 /\ secPending = FALSE

DReady(o) == o.ex /\ o.ph = "td" /\ o.fins = {}
\* effects of a write to the output: destroy-ready mapped input notification
OutWritten(old, new) == IF DReady(new) \/ (~new.ex /\ DReady(old)) THEN TRUE ELSE mapPending

ExtStep(nin, nout) == /\ ext < MaxExt /\ ext' = ext + 1 /\ in' = nin /\ out' = nout
                      /\ dirty' = (dirty \/ nin # in) /\ mapPending' = (IF nout # out THEN OutWritten(out, nout) ELSE mapPending)
                      /\ UNCHANGED <<pc, lin, viol>> /\ UNCHANGED svars
(* the secondary is created / updated / destroyed (value 0 = absent): its watch event queues a map job *)
SecChange == /\ Extra /\ ext < MaxExt /\ ext' = ext + 1
             /\ \E v \in {0, 1, 2} \ {sec} : sec' = v
             /\ secPending' = TRUE
             /\ UNCHANGED <<in, out, pc, lin, dirty, mapPending, viol, lsec>>
Ext == \/ ~in.ex /\ \E v \in Vals : ExtStep([ex |-> TRUE, ph |-> "run", fins |-> {}, val |-> v], out)
       \/ in.ex /\ in.ph = "run" /\ \E v \in Vals \ {in.val} : ExtStep([in EXCEPT !.val = v], out)
       \/ in.ex /\ in.ph = "run" /\ ExtStep([in EXCEPT !.ph = "td"], out)
       \/ in.ex /\ in.fins = {} /\ ExtStep(Absent, out)
       \/ in.ex /\ X \notin in.fins /\ IgnoreUntil /\ ExtStep([in EXCEPT !.fins = @ \cup {X}], out)
       \/ in.ex /\ X \in in.fins /\ ExtStep([in EXCEPT !.fins = @ \ {X}], out)
       \/ out.ex /\ F \notin out.fins /\ ExtStep(in, [out EXCEPT !.fins = @ \cup {F}])
       \/ out.ex /\ F \in out.fins /\ ExtStep(in, [out EXCEPT !.fins = @ \ {F}])

\* controller write helpers
WIn(nin) == in' = nin /\ dirty' = TRUE /\ UNCHANGED <<out, mapPending>>
WOut(nout) == out' = nout /\ mapPending' = OutWritten(out, nout) /\ UNCHANGED <<in, dirty>>
Stay == UNCHANGED <<in, out, dirty, mapPending>>
Done == pc' = "idle"
Fail == pc' = "idle"   \* requeue with backoff: dirty set by caller

Start == /\ pc = "idle" /\ dirty /\ pc' = "r0" /\ dirty' = FALSE /\ UNCHANGED <<in, out, ext, lin, mapPending, viol>> /\ UNCHANGED svars

R0 == /\ pc = "r0" /\ lin' = in /\ UNCHANGED <<in, out, ext, dirty, mapPending, viol>> /\ UNCHANGED svars
      /\ IF ~in.ex THEN pc' = "idle"
         ELSE IF in.ph = "run" THEN pc' = "rr1"
         ELSE LET unexpected == \E f \in in.fins : f # C /\ IgnoreUntil /\ f \notin AllowedFins
              IN pc' = IF unexpected THEN "rr1" ELSE "td1"

RR1 == /\ pc = "rr1" /\ UNCHANGED <<ext, lin, viol>> /\ UNCHANGED svars
       /\ IF C \notin lin.fins /\ lin.ph = "run"
          THEN IF in.ex THEN WIn([in EXCEPT !.fins = @ \cup {C}]) /\ pc' = "rr2"
               ELSE /\ pc' = "idle" /\ dirty' = TRUE /\ UNCHANGED <<in, out, mapPending>>   \* AddFinalizer NotFound -> error -> requeue
          ELSE Stay /\ pc' = "rr2"

RR2 == /\ pc = "rr2" /\ UNCHANGED <<ext, lin, viol>> /\ UNCHANGED svars /\ Stay
       /\ pc' = IF ~out.ex \/ out.ph # "td" THEN "rr3" ELSE IF out.fins # {} THEN "idle" ELSE "rr2d"

RR2d == /\ pc = "rr2d" /\ UNCHANGED <<ext, lin, viol>> /\ UNCHANGED svars
        /\ IF out.ex /\ out.fins = {} THEN WOut(Absent) /\ pc' = "rr3"
           ELSE /\ pc' = "idle" /\ dirty' = TRUE /\ UNCHANGED <<in, out, mapPending>>

(* the transform function runs inside Modify: it reads the secondary (rr3), then the output is written (rr3w) *)
RR3 == /\ pc = "rr3" /\ UNCHANGED <<ext, lin, viol, sec, secPending>> /\ Stay /\ lsec' = sec /\ pc' = "rr3w"
Img == 10 * lin.val + lsec
RR3w == /\ pc = "rr3w" /\ UNCHANGED <<ext, lin, viol>> /\ UNCHANGED svars
        /\ IF ~out.ex THEN WOut([ex |-> TRUE, ph |-> "run", fins |-> {}, val |-> Img]) /\ pc' = "idle"
           ELSE IF out.ph = "td" THEN /\ pc' = "idle" /\ dirty' = TRUE /\ UNCHANGED <<in, out, mapPending>>  \* phase conflict -> error -> requeue
           ELSE IF out.val = Img THEN Stay /\ pc' = "idle"
           ELSE WOut([out EXCEPT !.val = Img]) /\ pc' = "idle"

TD1 == /\ pc = "td1" /\ UNCHANGED <<ext, lin, viol>> /\ UNCHANGED svars
       /\ IF ~out.ex THEN Stay /\ pc' = "td3"
          ELSE IF out.ph = "td" THEN Stay /\ pc' = (IF out.fins = {} THEN "td2" ELSE "idle")
          ELSE WOut([out EXCEPT !.ph = "td"]) /\ pc' = (IF out.fins = {} THEN "td2" ELSE "idle")

TD2 == /\ pc = "td2" /\ UNCHANGED <<ext, lin, viol>> /\ UNCHANGED svars
       /\ IF out.ex /\ out.fins = {} THEN WOut(Absent) /\ pc' = "td3"
          ELSE /\ pc' = "idle" /\ dirty' = TRUE /\ UNCHANGED <<in, out, mapPending>>

TD3 == /\ pc = "td3" /\ UNCHANGED <<ext, lin, viol>> /\ UNCHANGED svars
       /\ IF in.ex /\ C \in in.fins THEN WIn([in EXCEPT !.fins = @ \ {C}]) /\ pc' = "idle"
          ELSE Stay /\ pc' = "idle"

MapRun == /\ mapPending /\ mapPending' = FALSE /\ dirty' = (dirty \/ out.ex)
          /\ UNCHANGED <<in, out, ext, pc, lin, viol>> /\ UNCHANGED svars
(* the map job of the secondary: the mapper names the primary input of the same id, whether or not it exists *)
MapSec == /\ secPending /\ secPending' = FALSE /\ dirty' = TRUE
          /\ UNCHANGED <<in, out, ext, pc, lin, viol, mapPending, sec, lsec>>

Ctrl == Start \/ R0 \/ RR1 \/ RR2 \/ RR2d \/ RR3 \/ RR3w \/ TD1 \/ TD2 \/ TD3 \/ MapRun \/ MapSec
Next == (Ext /\ UNCHANGED <<pc, lin, viol>>) \/ SecChange \/ Ctrl
Spec == Init /\ [][Next]_vars

\* ---- C07 ----
FinBeforeOut == out.ex => (in.ex /\ C \in in.fins)
\* ---- C06 ----
Quiescent == pc = "idle" /\ ~dirty /\ ~mapPending /\ ~secPending
Held == out.ex /\ F \in out.fins
Converged ==
  /\ (in.ex /\ in.ph = "run") => (out.ex /\ ((out.ph = "run" /\ out.val = 10 * in.val + sec) \/ Held))
  /\ (~in.ex) => (~out.ex \/ Held)
  /\ (in.ex /\ in.ph = "td" /\ ~(IgnoreUntil /\ X \in in.fins)) => ((~out.ex \/ Held) /\ (~out.ex => C \notin in.fins))
C06 == Quiescent => Converged
=============================================================================
