SPECIFICATION Spec
CONSTANTS Kinds = {"K1"}  Ids = {1, 2}  Ctrls = {"m", "q"}  Cfg <- CfgB  Alt <- AltNoneMQ  Cached = {}  MaxWrites = 4  MaxFaults = 0  Noops = FALSE  MapTo <- MapSame
INVARIANTS NoLostWakeup MappedReachesPrimaries CacheCoherentWhenQuiet
CHECK_DEADLOCK FALSE
