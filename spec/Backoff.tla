------------------------------ MODULE Backoff ------------------------------
(***************************************************************************)
(* Retry policy of reconcile items / controller restarts (C09, C16):       *)
(* exponential back-off 500 ms * 1.5^n capped at 60 s, randomised by       *)
(* +-50 %, reset by success / skip / plain requeue-after; an explicit      *)
(* requeue interval is exact.  Both the model (outcome sequences) and the  *)
(* trace judge use the envelope operators below.                           *)
(***************************************************************************)
EXTENDS Integers, Sequences, TLC

RECURSIVE P(_, _)
P(b, n) == IF n = 0 THEN 1 ELSE b * P(b, n - 1)
(* nominal interval after n consecutive failures, in ms *)
Nominal(n) == IF n >= 12 THEN 60000 ELSE LET x == (500 * P(3, n)) \div P(2, n) IN IF x > 60000 THEN 60000 ELSE x
Lo(n) == Nominal(n) \div 2 - 1
Hi(n) == (3 * Nominal(n)) \div 2 + 2

Outcomes == {"ok", "err", "panic", "requeue", "requeueErr", "skip"}
(* failure count after an outcome *)
NextCount(n, o) == CASE o \in {"ok", "skip", "requeue", "startlong"} -> 0
                     [] o \in {"err", "panic"} -> n + 1
                     [] o = "reseterr" -> 1          \* the back-off was reset right before this failure
                     [] OTHER -> n

(* a requeue request without an interval is no request: RequeueError(err, 0) is a plain failure (exponential      *)
(* back-off), RequeueError(nil, 0) a plain success                                                                  *)
NormO(o, d) == IF o = "requeueErr" /\ d = 0 THEN "err" ELSE IF o = "requeue" /\ d = 0 THEN "ok" ELSE o

(* accounting (runtime metrics of a queue controller): every reconcile invocation is "processed"; it is counted as skipped *)
(* (skip tag), crashed (any error or panic, also an error that carries a requeue interval) or requeued (a requeue request   *)
(* with an interval and without an error) - or as nothing else (success, requeue request without interval)                   *)
MetricOf(o, d) == CASE o = "skip" -> "skips"
                    [] o \in {"err", "panic", "requeueErr"} -> "crashes"
                    [] o = "requeue" /\ d # 0 -> "requeues"
                    [] OTHER -> "none"

CONSTANTS MaxLen, Delays
VARIABLES n, hist
vars == <<n, hist>>
Init == n = 0 /\ hist = <<>>
Step(o, d) == /\ Len(hist) < MaxLen
              /\ n' = NextCount(n, NormO(o, d))
              /\ hist' = Append(hist, [o |-> o, d |-> d])
Next == \E o \in Outcomes, d \in Delays : Step(o, IF o \in {"requeue", "requeueErr"} THEN d ELSE 0)
Spec == Init /\ [][Next]_vars

EnvelopeMonotone == \A k \in 0..13 : Lo(k) <= Lo(k + 1) /\ Hi(k) <= Hi(k + 1) /\ Lo(k) < Hi(k) /\ Hi(k) <= 90002
CountBounded == n <= MaxLen
LastO == NormO(hist'[Len(hist')].o, hist'[Len(hist')].d)
ResetOnSuccess == [][(hist' # hist /\ LastO \in {"ok", "skip", "requeue"}) => n' = 0]_vars
GrowsOnFailure == [][(hist' # hist /\ LastO \in {"err", "panic"}) => n' = n + 1]_vars
=============================================================================
