----------------------------- MODULE MC_Helpers -----------------------------
EXTENDS Helpers

Call(h, tok, fin, owner, exp, cond) == [h |-> h, tok |-> tok, fin |-> fin, owner |-> owner, exp |-> exp, cond |-> cond]
Create(o)   == Call("create", "", "", o, "any", "any")
Destroy(o)  == Call("destroy", "", "", o, "any", "any")
Uwc(t, o, e) == Call("uwc", t, "", o, e, "any")
Modify(t, o) == Call("modify", t, "", o, "any", "any")
AddFin(f)   == Call("addfin", "", f, "", "any", "any")
RemFin(f)   == Call("remfin", "", f, "", "any", "any")
Teardown(o) == Call("teardown", "", "", o, "any", "any")
Tad(o)      == Call("tad", "", "", o, "any", "any")
WatchFor(c) == Call("watchfor", "", "", "", "any", c)
Ctx         == Call("ctx", "", "", "", "any", "any")

A3 == {1, 2, 3}
(* C03: a blocked helper (TeardownAndDestroy / WatchFor / context) racing finalizer traffic and re-creation *)
Menu1 == {<<Create(""), AddFin("f"), Tad("")>>, <<Create(""), Tad("")>>}
Menu2 == {<<AddFin("f"), RemFin("f")>>, <<AddFin("g"), RemFin("g"), Create("")>>, <<Teardown(""), RemFin("f")>>,
          <<RemFin("f"), Destroy(""), Create("")>>}
Menu3 == {<<WatchFor("finsEmpty")>>, <<Ctx>>, <<WatchFor("destroyed")>>, <<WatchFor("tearingDown")>>}
ProgramsC03 == {[a \in A3 |-> IF a = 1 THEN p1 ELSE IF a = 2 THEN p2 ELSE p3] : p1 \in Menu1, p2 \in Menu2, p3 \in Menu3}

(* C04: concurrent read-modify-write callers plus a disturber *)
MenuW1 == {<<Modify("t1", "")>>, <<Modify("t1", "A")>>, <<Create(""), Uwc("t1", "", "running")>>}
MenuW2 == {<<Uwc("t2", "", "any")>>, <<Modify("t2", "")>>, <<AddFin("f"), RemFin("f")>>, <<Uwc("t2", "B", "running")>>}
MenuW3 == {<<Teardown(""), Destroy(""), Create("")>>, <<Create("A")>>, <<Teardown(""), Uwc("t3", "", "tearingDown")>>,
           <<Modify("t3", "")>>}
ProgramsC04 == {[a \in A3 |-> IF a = 1 THEN p1 ELSE IF a = 2 THEN p2 ELSE p3] : p1 \in MenuW1, p2 \in MenuW2, p3 \in MenuW3}

(* C04, create / destroy races around the create path of Modify and the retry loops (used by the generator only) *)
MenuR1 == {<<Modify("t1", "")>>, <<Uwc("t1", "", "any")>>, <<Modify("t1", ""), Modify("t4", "")>>}
MenuR2 == {<<Create(""), Destroy("")>>, <<Create(""), Destroy(""), Create("")>>, <<Destroy(""), Create(""), Destroy("")>>}
MenuR3 == {<<Modify("t3", "")>>, <<Destroy(""), Create("")>>, <<AddFin("f"), RemFin("f")>>}
ProgramsRace == {[a \in A3 |-> IF a = 1 THEN p1 ELSE IF a = 2 THEN p2 ELSE p3] : p1 \in MenuR1, p2 \in MenuR2, p3 \in MenuR3}

(* C03: blocked watchers across a re-creation: the first incarnation climbs to version 5, the second one reaches the awaited *)
(* state at a LOWER version (versions restart at 1): a helper that remembers versions across incarnations misses it       *)
MenuV1 == {<<Create(""), AddFin("f"), AddFin("g"), RemFin("g"), RemFin("f"), Destroy(""), Create(""), Teardown("")>>,
           <<Create(""), AddFin("f"), RemFin("f"), AddFin("g"), RemFin("g"), Destroy(""), Create(""), AddFin("f"), Teardown(""), RemFin("f")>>}
MenuV2 == {<<WatchFor("tearingDown")>>, <<Ctx>>, <<Tad("")>>}
MenuV3 == {<<WatchFor("tearingDown")>>, <<WatchFor("finsEmpty")>>, <<WatchFor("destroyed")>>}
ProgramsRecreate == {[a \in A3 |-> IF a = 1 THEN p1 ELSE IF a = 2 THEN p2 ELSE p3] : p1 \in MenuV1, p2 \in MenuV2, p3 \in MenuV3}

(* C04: IDEMPOTENT mutators (tokens i1: "set X") by two callers plus a teardown: a retry whose mutation has become a no-op *)
(* must still honour the expected phase                                                                                   *)
MenuI1 == {<<Uwc("i1", "", "running")>>, <<Modify("i1", "")>>, <<Uwc("i1", "", "running"), Uwc("i1", "", "running")>>}
MenuI2 == {<<Uwc("i1", "", "any"), Teardown("")>>, <<Modify("i1", ""), Teardown("")>>, <<Teardown(""), Uwc("i1", "", "any")>>,
           <<Uwc("i1", "", "any"), Teardown(""), Destroy("")>>}
MenuI3 == {<<Create("")>>, <<Create(""), AddFin("f")>>}
ProgramsIdem == {[a \in A3 |-> IF a = 1 THEN p1 ELSE IF a = 2 THEN p2 ELSE p3] : p1 \in MenuI1, p2 \in MenuI2, p3 \in MenuI3}

(* C04: two callers applying the SAME non-idempotent mutation (counter + 1): both read the same base, compute the same result; *)
(* the loser of the version race has to apply its increment on top of the winner's (two successes = two increments)          *)
MenuS1 == {<<Uwc("t1", "", "any")>>, <<Modify("t1", "")>>, <<Uwc("t1", "", "running")>>}
MenuS2 == {<<Uwc("t1", "", "any")>>, <<Modify("t1", "")>>, <<Uwc("t1", "", "any"), Uwc("t1", "", "any")>>}
MenuS3 == {<<Create("")>>, <<Create(""), Uwc("t1", "", "any")>>}
ProgramsSame == {[a \in A3 |-> IF a = 1 THEN p1 ELSE IF a = 2 THEN p2 ELSE p3] : p1 \in MenuS1, p2 \in MenuS2, p3 \in MenuS3}

(* C03: three parties adding and removing their own finalizers around each other, after an earlier removal (the finalizer     *)
(* list then has spare capacity: an implementation that appends in place corrupts a concurrent party's addition); every       *)
(* successful AddFinalizer must be in force until its owner removes it, and destruction must wait for all of them              *)
MenuF1 == {<<Create(""), AddFin("a"), AddFin("b"), RemFin("b"), Teardown(""), RemFin("a"), Destroy("")>>,
           <<Create(""), AddFin("a"), AddFin("b"), RemFin("a"), Tad("")>>}
MenuF2 == {<<AddFin("x")>>, <<AddFin("x"), RemFin("x")>>}
MenuF3 == {<<AddFin("y")>>, <<AddFin("y"), RemFin("y")>>, <<AddFin("y"), RemFin("b")>>}
ProgramsFins == {[a \in A3 |-> IF a = 1 THEN p1 ELSE IF a = 2 THEN p2 ELSE p3] : p1 \in MenuF1, p2 \in MenuF2, p3 \in MenuF3}

(* liveness configuration: the interfering actor ends with the finalizer removed *)
ProgramsLive == {[a \in {1, 2} |-> IF a = 1 THEN <<Create(""), AddFin("f"), Tad("")>> ELSE p2] :
                   p2 \in {<<RemFin("f")>>, <<AddFin("g"), RemFin("g"), RemFin("f")>>, <<Teardown(""), RemFin("f")>>}}
A2 == {1, 2}
=============================================================================
