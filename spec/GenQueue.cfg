SPECIFICATION GenSpec
CONSTANTS Keys = {"a", "b", "c"}  Workers = {1, 2}  Vals = {1, 2, 3, 4}  MaxNow = 30  MaxDelay = 3
CHECK_DEADLOCK FALSE
