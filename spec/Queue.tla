------------------------------- MODULE Queue -------------------------------
(***************************************************************************)
(* The per-controller reconcile queue (C09), structured like the single    *)
(* event loop of queue.go: a priority queue ordered by release time (FIFO  *)
(* on ties), the set of keys on hold, values parked for keys on hold, the  *)
(* reported length, a logical clock.                                       *)
(***************************************************************************)
EXTENDS Integers, Sequences, FiniteSets, TLC

CONSTANTS Keys, Workers, Vals, MaxNow, MaxDelay

VARIABLES pq,       \* sequence of [k, v, at], ordered by at
          onHold,   \* keys handed to a worker and not yet released
          parked,   \* key -> value put while the key was on hold (dynamic domain)
          length,   \* what Len() reports
          now,      \* logical clock
          held,     \* worker -> [k, v] or None
          fresh,    \* ghost: key -> value of the latest Put since the key was last delivered (or None)
          notBefore \* ghost: key -> earliest delivery time requested by the last Requeue (cleared by a Put)

vars == <<pq, onHold, parked, length, now, held, fresh, notBefore>>
None == [k |-> "none", v |-> 0]

Idx(k) == {i \in 1..Len(pq) : pq[i].k = k}
InPQ(k) == Idx(k) # {}
RemoveAt(s, i) == SubSeq(s, 1, i - 1) \o SubSeq(s, i + 1, Len(s))
(* insert after every element whose time is <= at (tail among equals) *)
InsertPos(s, at) == Cardinality({i \in 1..Len(s) : s[i].at <= at}) + 1
InsertAt(s, i, e) == SubSeq(s, 1, i - 1) \o <<e>> \o SubSeq(s, i, Len(s))

(* PriorityQueue.Push: <<new queue, added?>> *)
Push(s, k, v, at, overwrite) ==
  LET ix == {i \in 1..Len(s) : s[i].k = k} IN
  IF ix = {}
  THEN <<InsertAt(s, InsertPos(s, at), [k |-> k, v |-> v, at |-> at]), TRUE>>
  ELSE LET i == CHOOSE x \in ix : TRUE
           s1 == IF overwrite THEN [s EXCEPT ![i].v = v] ELSE s
       IN IF at > s1[i].at THEN <<s1, FALSE>>
          ELSE LET e == [s1[i] EXCEPT !.at = at]
                   s2 == RemoveAt(s1, i)
               IN <<InsertAt(s2, InsertPos(s2, at), e), FALSE>>

Init == /\ pq = <<>> /\ onHold = {} /\ parked = [x \in {} |-> 0] /\ length = 0 /\ now = 0
        /\ held = [w \in Workers |-> None]
        /\ fresh = [k \in Keys |-> 0] /\ notBefore = [k \in Keys |-> 0]

Put(k, v) ==
  /\ IF k \in onHold
     THEN /\ parked' = [x \in DOMAIN parked \cup {k} |-> IF x = k THEN v ELSE parked[x]]
          /\ length' = IF k \in DOMAIN parked THEN length ELSE length + 1
          /\ UNCHANGED pq
     ELSE LET p == Push(pq, k, v, now, TRUE) IN
          /\ pq' = p[1] /\ length' = IF p[2] THEN length + 1 ELSE length
          /\ UNCHANGED parked
  /\ fresh' = [fresh EXCEPT ![k] = v]
  /\ notBefore' = [notBefore EXCEPT ![k] = 0]
  /\ UNCHANGED <<onHold, now, held>>

Get(w) ==
  /\ held[w] = None /\ pq # <<>> /\ pq[1].at <= now
  /\ held' = [held EXCEPT ![w] = [k |-> pq[1].k, v |-> pq[1].v]]
  /\ onHold' = onHold \cup {pq[1].k}
  /\ pq' = Tail(pq) /\ length' = length - 1
  /\ fresh' = [fresh EXCEPT ![pq[1].k] = 0]
  /\ UNCHANGED <<parked, now, notBefore>>

(* Release (at = 0) or Requeue(at > now) *)
Release(w, at) ==
  /\ held[w] # None
  /\ LET k == held[w].k
         p1 == IF at # 0 THEN Push(pq, k, held[w].v, at, FALSE) ELSE <<pq, FALSE>>
         l1 == IF at # 0 /\ p1[2] THEN length + 1 ELSE length
     IN IF k \in DOMAIN parked
        THEN LET p2 == Push(p1[1], k, parked[k], now, TRUE) IN
             /\ pq' = p2[1] /\ length' = IF p2[2] THEN l1 ELSE l1 - 1
             /\ parked' = [x \in DOMAIN parked \ {k} |-> parked[x]]
        ELSE pq' = p1[1] /\ length' = l1 /\ UNCHANGED parked
  /\ onHold' = onHold \ {held[w].k}
  /\ held' = [held EXCEPT ![w] = None]
  /\ notBefore' = [notBefore EXCEPT ![held[w].k] = IF held[w].k \in DOMAIN parked THEN 0 ELSE at]
  /\ UNCHANGED <<now, fresh>>

Tick == now < MaxNow /\ now' = now + 1 /\ UNCHANGED <<pq, onHold, parked, length, held, fresh, notBefore>>

Next == \/ \E k \in Keys, v \in Vals : Put(k, v)
        \/ \E w \in Workers : Get(w)
        \/ \E w \in Workers : Release(w, 0)
        \/ \E w \in Workers, d \in 1..MaxDelay : Release(w, now + d)
        \/ Tick
Spec == Init /\ [][Next]_vars
(* Liveness is checked with a bounded clock; re-notifying a key that is already pending at the very   *)
(* same instant moves it behind its equals (fair-queue rule of Push), so infinitely many same-instant *)
(* notifications could starve it.  With a real clock time advances; the liveness spec therefore does  *)
(* not re-put a key that is already pending.                                                          *)
NextL == \/ \E k \in Keys, v \in Vals : ~InPQ(k) /\ Put(k, v)
         \/ \E w \in Workers : Get(w)
         \/ \E w \in Workers : Release(w, 0)
         \/ \E w \in Workers, d \in 1..MaxDelay : Release(w, now + d)
         \/ Tick
FairSpec == Init /\ [][NextL]_vars /\ WF_vars(Tick) /\ \A w \in Workers : WF_vars(Get(w)) /\ WF_vars(Release(w, 0))

----------------------------------------------------------------------------
HeldKeys == {held[w].k : w \in {x \in Workers : held[x] # None}}
NoDoubleHold == \A w1, w2 \in Workers : w1 # w2 /\ held[w1] # None /\ held[w2] # None => held[w1].k # held[w2].k
OnHoldIsHeld == onHold = HeldKeys
AtMostOnePendingPerKey == \A k \in Keys : Cardinality(Idx(k)) <= 1
HeldNotPending == \A k \in onHold : ~InPQ(k) \/ TRUE   \* a requeued key is pending only after its release
Sorted == \A i, j \in 1..Len(pq) : i < j => pq[i].at <= pq[j].at
(* no loss + coalescing with the most recent value *)
FreshIsPending ==
  \A k \in Keys : fresh[k] # 0 =>
      \/ (k \in DOMAIN parked /\ parked[k] = fresh[k])
      \/ (\E i \in Idx(k) : pq[i].v = fresh[k])
ParkedOnlyWhileHeld == DOMAIN parked \subseteq onHold
LenIsPendingPlusParked == length = Len(pq) + Cardinality(DOMAIN parked)
(* a delivery earlier than the requested requeue time implies a fresh notification *)
NotBeforeRequested == [][\A w \in Workers : held[w] = None /\ held'[w] # None => now >= notBefore[held'[w].k]]_vars
(* a notification that arrives while the item is being processed is delivered again after release *)
PutWhileHeldIsRedelivered == \A k \in Keys : (k \in DOMAIN parked) ~> (\E w \in Workers : held[w] # None /\ held[w].k = k /\ k \notin DOMAIN parked)
=============================================================================
