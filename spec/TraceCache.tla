----------------------------- MODULE TraceCache -----------------------------
(* White-box judge of the runtime read cache (C15): cache mutations in order, reads with the *)
(* moment they were issued / completed and what they returned, and the state of teardown-     *)
(* bound contexts after every mutation.                                                       *)
EXTENDS Integers, Sequences, FiniteSets, TLC, Json, IOUtils, SequencesExt
TraceLog == ndJsonDeserialize(IOEnv.TRACE)
VARIABLES boot, items, pend, cobs, l, tid, bad
tvars == <<boot, items, pend, cobs, l, tid, bad>>
Empty == [x \in {} |-> 0]
Put(f, k, v) == [x \in DOMAIN f \cup {k} |-> IF x = k THEN v ELSE f[x]]
Del(f, k) == [x \in DOMAIN f \ {k} |-> f[x]]
TdLike(its, id) == id \notin DOMAIN its \/ its[id].td
View(op, id) == IF op = "get" THEN (IF id \in DOMAIN items THEN {<<id, items[id].ver, items[id].td>>} ELSE {})
                ELSE {<<i, items[i].ver, items[i].td>> : i \in DOMAIN items}
Res(js) == {<<j.id, j.ver, j.td>> : j \in ToSet(js)}
Init == boot = FALSE /\ items = Empty /\ pend = Empty /\ cobs = Empty /\ l = 1 /\ tid = "" /\ bad = FALSE
Reject(what, exp, got) ==
  /\ PrintT(<<"MISMATCH", tid, l, what>>) /\ PrintT(<<"DETAIL", ToString(exp), ToString(got)>>)
  /\ bad' = TRUE /\ UNCHANGED <<boot, items, pend, cobs, tid>>
Keep == UNCHANGED <<tid, bad>>
Observe(its) == [c \in DOMAIN cobs |-> cobs[c] \/ TdLike(its, c[2])]
Step(e) ==
  CASE e.ev \in {"append", "put"} ->
         /\ items' = Put(items, e.id, [ver |-> e.ver, td |-> e.td]) /\ cobs' = Observe(items') /\ UNCHANGED <<boot, pend>> /\ Keep
    [] e.ev = "remove" -> items' = Del(items, e.id) /\ cobs' = Observe(items') /\ UNCHANGED <<boot, pend>> /\ Keep
    [] e.ev = "boot" -> boot' = TRUE /\ UNCHANGED <<items, pend, cobs>> /\ Keep
    [] e.ev = "issue" ->    \* a read was issued; e.blocked = still blocked once everything settled
         IF e.blocked = boot THEN Reject(IF boot THEN "read-blocked-after-bootstrap" ELSE "read-before-bootstrap", ~boot, e.blocked)
         ELSE pend' = Put(pend, e.r, [op |-> e.op, id |-> e.id]) /\ UNCHANGED <<boot, items, cobs>> /\ Keep
    [] e.ev = "done" ->     \* a read completed with result e.res
         IF ~boot THEN Reject("read-before-bootstrap", "blocked", e.res)
         ELSE IF e.r \notin DOMAIN pend THEN Reject("unknown-read", "", e.r)
         ELSE IF Res(e.res) # View(pend[e.r].op, pend[e.r].id)
              THEN Reject("stale-or-partial-read", View(pend[e.r].op, pend[e.r].id), Res(e.res))
         ELSE pend' = Del(pend, e.r) /\ UNCHANGED <<boot, items, cobs>> /\ Keep
    [] e.ev = "racelist" ->   \* a filtered List during which the cache applied one mutation: the contents at one instant
         LET after == IF e.op = "put" THEN Put(items, e.id, [ver |-> e.ver, td |-> e.td]) ELSE Del(items, e.id)
             VOf(its) == {<<i, its[i].ver, its[i].td>> : i \in DOMAIN its}
         IN IF e.note # "ok" THEN Reject("filtered-list-failed", "ok", e.note)
            ELSE IF Res(e.res) # VOf(items) /\ Res(e.res) # VOf(after)
            THEN Reject("filtered-list-not-a-snapshot", [before |-> VOf(items), after |-> VOf(after)], Res(e.res))
            ELSE items' = after /\ cobs' = Observe(items') /\ UNCHANGED <<boot, pend>> /\ Keep
    [] e.ev = "ctx" -> cobs' = Put(cobs, <<e.n, e.id>>, TdLike(items, e.id)) /\ UNCHANGED <<boot, items, pend>> /\ Keep
    [] e.ev = "cancelctx" ->     \* the parent of context n was cancelled
         /\ cobs' = [c \in DOMAIN cobs |-> IF c[1] = e.n THEN TRUE ELSE cobs[c]] /\ UNCHANGED <<boot, items, pend>> /\ Keep
    [] e.ev = "ctxstate" ->
         LET c == <<e.n, e.id>> IN
         IF c \notin DOMAIN cobs THEN Reject("unknown-ctx", "", c)
         ELSE IF e.cancelled # cobs[c] THEN Reject(IF e.cancelled THEN "ctx-cancelled-spuriously" ELSE "ctx-not-cancelled", cobs[c], e.cancelled)
         ELSE UNCHANGED <<boot, items, pend, cobs>> /\ Keep
    [] e.ev = "end" -> IF boot /\ pend # Empty THEN Reject("read-never-completed", "", pend)
                       ELSE UNCHANGED <<boot, items, pend, cobs>> /\ Keep
    [] OTHER -> UNCHANGED <<boot, items, pend, cobs>> /\ Keep
Next == /\ l <= Len(TraceLog) /\ l' = l + 1
        /\ LET e == TraceLog[l] IN
             IF e.ev = "reset" THEN boot' = FALSE /\ items' = Empty /\ pend' = Empty /\ cobs' = Empty /\ tid' = e.tid /\ bad' = FALSE
             ELSE IF bad THEN UNCHANGED <<boot, items, pend, cobs, tid, bad>>
             ELSE Step(e)
Spec == Init /\ [][Next]_tvars
Consumed == TLCGet("stats").diameter - 1
Post == PrintT(<<"CONSUMED", Consumed>>) /\ Consumed = Len(TraceLog)
=============================================================================
