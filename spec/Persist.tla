------------------------------ MODULE Persist ------------------------------
(***************************************************************************)
(* In-memory state with a persistent backing store (C10): every mutating  *)
(* operation is  DiskWrite -> MemApply(+publish) -> Ack  under the         *)
(* collection lock; the disk write may fail (fault budget); the process    *)
(* may crash in any state, losing `mem`; after a restart the first access  *)
(* loads `disk` (the load may fail and is retried by the next access).     *)
(* The load is not atomic: LoadStart .. LoadItem(k)* .. LoadOK | LoadFail  *)
(* inject the persisted resources one by one under the load lock; every    *)
(* other access (Begin, Read) waits for `loaded`, so no caller ever sees   *)
(* an empty or partly loaded state (ReadsSeeDisk).                         *)
(***************************************************************************)
EXTENDS Integers, Sequences, FiniteSets, TLC
CONSTANTS Keys, MaxOps, MaxFaults, MaxCrashes
VARIABLES mem, disk, loaded, pc, cur, acked, events, nops, nfaults, ncrashes, ghostDisk,
          inload, injected, obs     \* load in progress, keys injected so far, last value a concurrent reader got
(* mem/disk/acked: key -> version (0 = absent); events: number of published events; ghostDisk: result of *)
(* all operations whose disk write succeeded                                                              *)
vars == <<mem, disk, loaded, pc, cur, acked, events, nops, nfaults, ncrashes, ghostDisk, inload, injected, obs>>
lvars == <<inload, injected, obs>>
None == [op |-> "none", k |-> "", v |-> 0]
Zero == [k \in Keys |-> 0]
Init == mem = Zero /\ disk = Zero /\ loaded = TRUE /\ pc = "idle" /\ cur = None /\ acked = Zero
        /\ events = 0 /\ nops = 0 /\ nfaults = 0 /\ ncrashes = 0 /\ ghostDisk = Zero
        /\ inload = FALSE /\ injected = {} /\ obs = [k |-> "", v |-> 0, d |-> 0]

(* an operation starts only on a loaded state (every access loads first) *)
Begin(k) == /\ pc = "idle" /\ loaded /\ nops < MaxOps /\ nops' = nops + 1
            /\ \E op \in (IF mem[k] = 0 THEN {"put"} ELSE {"put", "destroy"}) :
                 cur' = [op |-> op, k |-> k, v |-> IF op = "put" THEN mem[k] + 1 ELSE 0]
            /\ pc' = "disk"
            /\ UNCHANGED lvars /\ UNCHANGED <<mem, disk, loaded, acked, events, nfaults, ncrashes, ghostDisk>>
DiskOK == /\ pc = "disk" /\ disk' = [disk EXCEPT ![cur.k] = cur.v] /\ ghostDisk' = [ghostDisk EXCEPT ![cur.k] = cur.v]
          /\ pc' = "mem" /\ UNCHANGED lvars /\ UNCHANGED <<mem, loaded, cur, acked, events, nops, nfaults, ncrashes>>
DiskFail == /\ pc = "disk" /\ nfaults < MaxFaults /\ nfaults' = nfaults + 1
            /\ pc' = "idle" /\ cur' = None              \* the operation fails: nothing else happens
            /\ UNCHANGED lvars /\ UNCHANGED <<mem, disk, loaded, acked, events, nops, ncrashes, ghostDisk>>
MemApply == /\ pc = "mem" /\ mem' = [mem EXCEPT ![cur.k] = cur.v] /\ events' = events + 1
            /\ pc' = "ack" /\ UNCHANGED lvars /\ UNCHANGED <<disk, loaded, cur, acked, nops, nfaults, ncrashes, ghostDisk>>
Ack == /\ pc = "ack" /\ acked' = [acked EXCEPT ![cur.k] = cur.v] /\ pc' = "idle" /\ cur' = None
       /\ UNCHANGED lvars /\ UNCHANGED <<mem, disk, loaded, events, nops, nfaults, ncrashes, ghostDisk>>
Crash == /\ ncrashes < MaxCrashes /\ ncrashes' = ncrashes + 1
         /\ mem' = Zero /\ loaded' = FALSE /\ pc' = "idle" /\ cur' = None /\ inload' = FALSE /\ injected' = {}
         /\ UNCHANGED <<disk, acked, events, nops, nfaults, ghostDisk, obs>>
(* the first access after a restart takes the load lock and injects the persisted resources one by one *)
LoadStart == /\ ~loaded /\ ~inload /\ pc = "idle" /\ inload' = TRUE /\ injected' = {}
             /\ UNCHANGED <<mem, disk, loaded, pc, cur, acked, events, nops, nfaults, ncrashes, ghostDisk, obs>>
LoadItem(k) == /\ inload /\ k \notin injected /\ mem' = [mem EXCEPT ![k] = disk[k]] /\ injected' = injected \cup {k}
               /\ UNCHANGED <<disk, loaded, pc, cur, acked, events, nops, nfaults, ncrashes, ghostDisk, inload, obs>>
LoadOK == /\ inload /\ injected = Keys /\ loaded' = TRUE /\ inload' = FALSE
          /\ UNCHANGED <<mem, disk, pc, cur, acked, events, nops, nfaults, ncrashes, ghostDisk, injected, obs>>
(* a failing load leaves what it injected so far; `loaded` stays false and the next access starts over *)
LoadFail == /\ inload /\ nfaults < MaxFaults /\ nfaults' = nfaults + 1 /\ inload' = FALSE
            /\ UNCHANGED <<mem, disk, loaded, pc, cur, acked, events, nops, ncrashes, ghostDisk, injected, obs>>
(* a concurrent reader: like every access it passes the load barrier first *)
Read(k) == /\ loaded /\ pc = "idle" /\ obs' = [k |-> k, v |-> mem[k], d |-> disk[k]]
           /\ UNCHANGED <<mem, disk, loaded, pc, cur, acked, events, nops, nfaults, ncrashes, ghostDisk, inload, injected>>
Next == (\E k \in Keys : Begin(k) \/ LoadItem(k) \/ Read(k)) \/ DiskOK \/ DiskFail \/ MemApply \/ Ack \/ Crash \/ LoadStart \/ LoadOK \/ LoadFail
Spec == Init /\ [][Next]_vars

(* disk = result of all operations whose disk write succeeded *)
DiskIsWrittenPrefix == disk = ghostDisk
(* disk contains every acknowledged operation; it differs from the acknowledged contents only by operations *)
(* whose disk write succeeded but which were never acknowledged (in flight now, or interrupted by a crash)   *)
AckedSurvive ==
  \A k \in Keys :
     (disk[k] # acked[k]) => ((cur.k = k /\ pc \in {"mem", "ack"}) \/ ncrashes > 0)
(* memory never diverges from disk outside a critical section *)
MemNeverAhead == (loaded /\ pc = "idle") => mem = disk
MemBehindOnlyInside == loaded => \A k \in Keys : mem[k] = disk[k] \/ (cur.k = k /\ pc = "mem")
(* a failed disk write is invisible *)
FailedWriteInvisible == [][(pc = "disk" /\ pc' = "idle" /\ ncrashes' = ncrashes) => (mem' = mem /\ events' = events /\ disk' = disk)]_vars
AfterRecovery == [][(~loaded /\ loaded') => mem' = disk]_vars
(* no caller ever observes an empty or partly loaded state *)
ReadsSeeDisk == obs.v = obs.d
LoadOnlyWhenNeeded == inload => ~loaded
=============================================================================
