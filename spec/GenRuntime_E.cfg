SPECIFICATION GenSpec
CONSTANTS Kinds = {"K1"}  Ids = {1, 2}  Ctrls = {"u", "v"}  Cfg <- CfgE  Alt <- AltE  Cached = {}  MaxWrites = 7  MaxFaults = 0  Noops = TRUE  MapTo <- MapSame
CHECK_DEADLOCK FALSE
