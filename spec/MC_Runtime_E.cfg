SPECIFICATION Spec
CONSTANTS Kinds = {"K1"}  Ids = {1, 2}  Ctrls = {"u", "v"}  Cfg <- CfgE  Alt <- AltE  Cached = {}  MaxWrites = 4  MaxFaults = 0  Noops = FALSE  MapTo <- MapSame
INVARIANTS NoLostWakeup MappedReachesPrimaries CacheCoherentWhenQuiet
CHECK_DEADLOCK FALSE
