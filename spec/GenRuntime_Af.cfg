SPECIFICATION GenSpec
CONSTANTS Kinds = {"K1"}  Ids = {1}  Ctrls = {"w", "d"}  Cfg <- CfgA  Alt <- AltNoneWD  Cached = {}  MaxWrites = 7  MaxFaults = 1  Noops = TRUE  MapTo <- MapSame
CHECK_DEADLOCK FALSE
