----------------------------- MODULE MC_Runtime -----------------------------
EXTENDS Runtime
In(k, id, ik) == [k |-> k, id |-> id, ik |-> ik]
C(fl, ins, late) == [fl |-> fl, ins |-> ins, late |-> late]
(* A: a weak and a destroy-ready reduced controller on one kind *)
CfgA == [c \in {"w", "d"} |-> IF c = "w" THEN C("r", {In("K1", NoId, "weak")}, FALSE) ELSE C("r", {In("K1", NoId, "destroyReady")}, FALSE)]
(* B: one reduced controller mixing a kind-wide destroy-ready input with a by-id weak input; a queue controller on the same kind *)
CfgB == [c \in {"m", "q"} |-> IF c = "m" THEN C("r", {In("K1", NoId, "destroyReady"), In("K1", 1, "weak")}, FALSE)
                              ELSE C("q", {In("K1", NoId, "qPrimary")}, FALSE)]
(* C: queue controller with a mapped and a mapped-destroy-ready input, started late; strong by-id reduced controller; cached primary kind *)
CfgC == [c \in {"q", "s"} |-> IF c = "q" THEN C("q", {In("K1", NoId, "qPrimary"), In("K2", NoId, "qMapped")}, TRUE)
                              ELSE C("r", {In("K2", 1, "strong")}, FALSE)]
CfgD == [c \in {"q"} |-> C("q", {In("K1", NoId, "qPrimary"), In("K2", NoId, "qMappedDestroyReady")}, FALSE)]
MapSame(k, id) == {[k |-> "K1", id |-> id]}
MapAll(k, id) == {[k |-> "K1", id |-> i] : i \in Ids}
=============================================================================
