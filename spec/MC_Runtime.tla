----------------------------- MODULE MC_Runtime -----------------------------
EXTENDS Runtime
In(k, id, ik) == [k |-> k, id |-> id, ik |-> ik]
C(fl, ins, late) == [fl |-> fl, ins |-> ins, late |-> late]
(* A: a weak and a destroy-ready reduced controller on one kind *)
CfgA == [c \in {"w", "d"} |-> IF c = "w" THEN C("r", {In("K1", NoId, "weak")}, FALSE) ELSE C("r", {In("K1", NoId, "destroyReady")}, FALSE)]
(* B: one reduced controller mixing a kind-wide destroy-ready input with a by-id weak input; a queue controller on the same kind *)
CfgB == [c \in {"m", "q"} |-> IF c = "m" THEN C("r", {In("K1", NoId, "destroyReady"), In("K1", 1, "weak")}, FALSE)
                              ELSE C("q", {In("K1", NoId, "qPrimary")}, FALSE)]
(* C: queue controller with a mapped and a mapped-destroy-ready input, started late; strong by-id reduced controller; cached primary kind *)
CfgC == [c \in {"q", "s"} |-> IF c = "q" THEN C("q", {In("K1", NoId, "qPrimary"), In("K2", NoId, "qMapped")}, TRUE)
                              ELSE C("r", {In("K2", 1, "strong")}, FALSE)]
CfgD == [c \in {"q"} |-> C("q", {In("K1", NoId, "qPrimary"), In("K2", NoId, "qMappedDestroyReady")}, FALSE)]
(* E: a controller that drops its by-id input (keeping the by-kind one) / F: one that adds a kind later *)
CfgE == [c \in {"u", "v"} |-> IF c = "u" THEN C("r", {In("K1", NoId, "weak"), In("K1", 1, "strong")}, FALSE) ELSE C("r", {In("K1", NoId, "weak")}, FALSE)]
AltE == [c \in {"u", "v"} |-> IF c = "u" THEN {In("K1", NoId, "weak")} ELSE {}]
CfgF == [c \in {"u", "q"} |-> IF c = "u" THEN C("r", {In("K1", 1, "weak")}, FALSE) ELSE C("q", {In("K2", NoId, "qPrimary")}, FALSE)]
AltF == [c \in {"u", "q"} |-> IF c = "u" THEN {In("K1", 1, "weak"), In("K2", NoId, "weak")} ELSE {}]
(* G: a queue controller with TWO primary inputs (two kinds), started after resources of both kinds exist: the start-up listing *)
(* has to cover every primary input                                                                                          *)
CfgG == [c \in {"q"} |-> C("q", {In("K1", NoId, "qPrimary"), In("K2", NoId, "qPrimary")}, TRUE)]
(* H: a queue controller with two BY-ID inputs of one kind that differ in their input kind (mapped / mapped-destroy-ready): *)
(* what an event of that kind means to the controller depends on the id                                                     *)
CfgH == [c \in {"q"} |-> C("q", {In("K1", NoId, "qPrimary"), In("K2", 1, "qMapped"), In("K2", 2, "qMappedDestroyReady")}, FALSE)]
NoAlt2(S) == [c \in S |-> {}]
AltNoneWD == NoAlt2({"w", "d"})
AltNoneMQ == NoAlt2({"m", "q"})
AltNoneQS == NoAlt2({"q", "s"})
AltNoneQ == NoAlt2({"q"})
MapSame(k, id) == {[k |-> "K1", id |-> id]}
MapAll(k, id) == {[k |-> "K1", id |-> i] : i \in Ids}
=============================================================================
