------------------------------ MODULE MC_Codec ------------------------------
EXTENDS Codec, Json, SequencesExt
VARIABLE x
Init == x = 0 /\ PrintT(<<"BEH", ToJson([shapes |-> SetToSeq(Shapes), stackings |-> SetToSeq(Stackings)])>>)
Next == x' = x
Spec == Init /\ [][Next]_x
Laws == DispatchUnambiguous /\ NeverPanic /\ EncryptedNeverDifferent
=============================================================================
