----------------------------- MODULE StoreProof -----------------------------
(***************************************************************************)
(* TLAPS proof that the safety core of the sequential resource store holds  *)
(* for ARBITRARY sets of keys, owners and finalizers and unbounded versions *)
(* (TLC: 8 keys, versions <= 3; Apalache: 2 keys, unbounded versions).      *)
(* The store is the one of Store.tla / ApaStore.tla with a total function   *)
(* over Keys (version 0 = absent).                                          *)
(***************************************************************************)
EXTENDS Integers, TLAPS

CONSTANTS Keys, Owners, Fins, Specs
VARIABLES store, clock
vars == <<store, clock>>

Phases == {"running", "tearingDown"}
Rec == [ver : Nat, owner : Owners, phase : Phases, fins : SUBSET Fins, cr : Nat, spec : Specs]
ASSUME OwnersNonEmpty == "" \in Owners
ASSUME SpecsNonEmpty == 0 \in Specs
Absent == [ver |-> 0, owner |-> "", phase |-> "running", fins |-> {}, cr |-> 0, spec |-> 0]

Init == store = [k \in Keys |-> Absent] /\ clock = 0

Create(k, o, p, f, s) ==
  /\ store[k].ver = 0
  /\ store' = [store EXCEPT ![k] = [ver |-> 1, owner |-> o, phase |-> p, fins |-> f, cr |-> clock + 1, spec |-> s]]
  /\ clock' = clock + 1

Update(k, o, oo, v, exp, p, f, s) ==
  /\ store[k].ver > 0 /\ store[k].owner = o /\ store[k].ver = v /\ (exp = "any" \/ store[k].phase = exp)
  /\ store' = [store EXCEPT ![k] = [ver |-> store[k].ver + 1, owner |-> oo, phase |-> p, fins |-> f, cr |-> store[k].cr, spec |-> s]]
  /\ clock' = clock

Destroy(k, o) ==
  /\ store[k].ver > 0 /\ store[k].owner = o /\ store[k].fins = {}
  /\ store' = [store EXCEPT ![k] = Absent]
  /\ clock' = clock

(* failed calls are stuttering steps *)
Next ==
  \E k \in Keys, o \in Owners, oo \in Owners, p \in Phases, f \in SUBSET Fins, s \in Specs :
     \/ Create(k, o, p, f, s)
     \/ \E v \in Nat, exp \in Phases \cup {"any"} : Update(k, o, oo, v, exp, p, f, s)
     \/ Destroy(k, o)

Spec == Init /\ [][Next]_vars

TypeOK == store \in [Keys -> Rec] /\ clock \in Nat
IndInv ==
  /\ TypeOK
  /\ \A k \in Keys : store[k].ver = 0 => store[k] = Absent
  /\ \A k \in Keys : store[k].ver > 0 => (store[k].cr >= 1 /\ store[k].cr <= clock)

(* action properties *)
VersionDiscipline ==
  \A k \in Keys :
     (store[k].ver > 0 /\ store'[k].ver > 0) =>
        /\ (store'[k].ver = store[k].ver \/ store'[k].ver = store[k].ver + 1)
        /\ (store'[k].ver = store[k].ver + 1 => store'[k].cr = store[k].cr)
NeverRemovedWithFinalizers == \A k \in Keys : (store[k].ver > 0 /\ store'[k].ver = 0) => store[k].fins = {}
FreshIncarnationIsNewer == \A k \in Keys : (store[k].ver = 0 /\ store'[k].ver > 0) => (store'[k].ver = 1 /\ store'[k].cr > clock)

LEMMA AbsentIsRec == Absent \in Rec
  BY OwnersNonEmpty, SpecsNonEmpty DEF Absent, Rec, Phases

THEOREM InitInv == Init => IndInv
  <1> SUFFICES ASSUME Init PROVE IndInv OBVIOUS
  <1>1. TypeOK BY AbsentIsRec DEF Init, TypeOK
  <1>2. \A k \in Keys : store[k].ver = 0 => store[k] = Absent BY DEF Init
  <1>3. \A k \in Keys : store[k].ver > 0 => (store[k].cr >= 1 /\ store[k].cr <= clock) BY DEF Init, Absent
  <1> QED BY <1>1, <1>2, <1>3 DEF IndInv

THEOREM StepInv == IndInv /\ [Next]_vars => IndInv'
  <1> SUFFICES ASSUME IndInv, [Next]_vars PROVE IndInv' OBVIOUS
  <1> USE DEF IndInv, TypeOK
  <1>1. CASE UNCHANGED vars BY <1>1 DEF vars
  <1>2. ASSUME NEW k \in Keys, NEW o \in Owners, NEW p \in Phases, NEW f \in SUBSET Fins, NEW s \in Specs, Create(k, o, p, f, s)
        PROVE IndInv'
    <2>1. [ver |-> 1, owner |-> o, phase |-> p, fins |-> f, cr |-> clock + 1, spec |-> s] \in Rec BY DEF Rec
    <2>2. store' \in [Keys -> Rec] /\ clock' \in Nat BY <1>2, <2>1 DEF Create
    <2>3. \A j \in Keys : store'[j].ver = 0 => store'[j] = Absent BY <1>2 DEF Create
    <2>4. \A j \in Keys : store'[j].ver > 0 => (store'[j].cr >= 1 /\ store'[j].cr <= clock') BY <1>2 DEF Create, Rec
    <2> QED BY <2>2, <2>3, <2>4
  <1>3. ASSUME NEW k \in Keys, NEW o \in Owners, NEW oo \in Owners, NEW p \in Phases, NEW f \in SUBSET Fins, NEW s \in Specs,
               NEW v \in Nat, NEW exp \in Phases \cup {"any"}, Update(k, o, oo, v, exp, p, f, s)
        PROVE IndInv'
    <2>1. [ver |-> store[k].ver + 1, owner |-> oo, phase |-> p, fins |-> f, cr |-> store[k].cr, spec |-> s] \in Rec BY DEF Rec
    <2>2. store' \in [Keys -> Rec] /\ clock' \in Nat BY <1>3, <2>1 DEF Update
    <2>3. \A j \in Keys : store'[j].ver = 0 => store'[j] = Absent BY <1>3 DEF Update, Rec
    <2>4. \A j \in Keys : store'[j].ver > 0 => (store'[j].cr >= 1 /\ store'[j].cr <= clock') BY <1>3 DEF Update, Rec
    <2> QED BY <2>2, <2>3, <2>4
  <1>4. ASSUME NEW k \in Keys, NEW o \in Owners, Destroy(k, o) PROVE IndInv'
    <2>2. store' \in [Keys -> Rec] /\ clock' \in Nat BY <1>4, AbsentIsRec DEF Destroy
    <2>3. \A j \in Keys : store'[j].ver = 0 => store'[j] = Absent BY <1>4 DEF Destroy, Absent
    <2>4. \A j \in Keys : store'[j].ver > 0 => (store'[j].cr >= 1 /\ store'[j].cr <= clock') BY <1>4 DEF Destroy, Absent
    <2> QED BY <2>2, <2>3, <2>4
  <1> QED BY <1>1, <1>2, <1>3, <1>4 DEF Next

THEOREM Safety == Spec => []IndInv
  BY InitInv, StepInv, PTL DEF Spec

THEOREM StepProps == IndInv /\ [Next]_vars => VersionDiscipline /\ NeverRemovedWithFinalizers /\ FreshIncarnationIsNewer
  <1> SUFFICES ASSUME IndInv, [Next]_vars PROVE VersionDiscipline /\ NeverRemovedWithFinalizers /\ FreshIncarnationIsNewer OBVIOUS
  <1> USE DEF IndInv, TypeOK, VersionDiscipline, NeverRemovedWithFinalizers, FreshIncarnationIsNewer
  <1>1. CASE UNCHANGED vars BY <1>1 DEF vars
  <1>2. ASSUME NEW k \in Keys, NEW o \in Owners, NEW p \in Phases, NEW f \in SUBSET Fins, NEW s \in Specs, Create(k, o, p, f, s)
        PROVE VersionDiscipline /\ NeverRemovedWithFinalizers /\ FreshIncarnationIsNewer
    BY <1>2 DEF Create, Rec
  <1>3. ASSUME NEW k \in Keys, NEW o \in Owners, NEW oo \in Owners, NEW p \in Phases, NEW f \in SUBSET Fins, NEW s \in Specs,
               NEW v \in Nat, NEW exp \in Phases \cup {"any"}, Update(k, o, oo, v, exp, p, f, s)
        PROVE VersionDiscipline /\ NeverRemovedWithFinalizers /\ FreshIncarnationIsNewer
    BY <1>3 DEF Update, Rec
  <1>4. ASSUME NEW k \in Keys, NEW o \in Owners, Destroy(k, o)
        PROVE VersionDiscipline /\ NeverRemovedWithFinalizers /\ FreshIncarnationIsNewer
    BY <1>4 DEF Destroy, Absent, Rec
  <1> QED BY <1>1, <1>2, <1>3, <1>4 DEF Next
=============================================================================
