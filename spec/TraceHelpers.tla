---------------------------- MODULE TraceHelpers ----------------------------
(***************************************************************************)
(* Property-level judge for the lifecycle helpers (C03, C04).              *)
(*                                                                         *)
(* A trace is recorded by the gating proxy around a real store while       *)
(* helper calls of several actors are driven step by step along a          *)
(* TLC-generated schedule: "call" / "ret" of every helper call, every      *)
(* underlying CoreState operation in commit order with its outcome and the *)
(* value it wrote / read ("op"), every watch delivery ("deliver"), the     *)
(* state of teardown-bound contexts ("ctx"), and a closing "end" line      *)
(* written when nothing can move any more.                                 *)
(*                                                                         *)
(* The judge keeps the committed value of the one resource and, per actor, *)
(* what its current call did; the properties are evaluated when a call     *)
(* returns and at the end.  It does not look at the step structure of the  *)
(* helpers: any implementation whose calls behave atomically is accepted.  *)
(***************************************************************************)
EXTENDS Integers, Sequences, FiniteSets, TLC, Json, IOUtils, SequencesExt

TraceLog == ndJsonDeserialize(IOEnv.TRACE)

VARIABLES store,    \* committed value [ver, owner, phase, fins, toks]; ver = 0 <=> absent
          inc,      \* incarnation counter (number of successful creates)
          ndestroy, \* number of successful destroys
          calls,    \* actor -> record of the call in progress (DOMAIN = actors inside a call)
          ctxs,     \* actor -> [obs] for teardown-bound contexts handed out
          l, tid, bad
tvars == <<store, inc, ndestroy, calls, ctxs, l, tid, bad>>

(* cnt: the token mutators also count their applications in the value (they are not idempotent), so that a      *)
(* mutation applied twice on the way to one successful write is visible                                            *)
Absent == [ver |-> 0, owner |-> "", phase |-> "running", fins |-> {}, toks |-> {}, cnt |-> 0]
AbsV(j) == [ver |-> j.ver, owner |-> j.owner, phase |-> j.phase, fins |-> ToSet(j.fins), toks |-> ToSet(j.toks), cnt |-> j.cnt]
Strip(v) == [v EXCEPT !.ver = 0]
NoCnt(v) == [v EXCEPT !.ver = 0, !.cnt = 0]
(* how a successful write differs from the mutation applied once on top of the current value *)
HowOff(exp, v, aba) ==
  IF NoCnt(exp) = NoCnt(v) THEN (IF v.cnt > exp.cnt THEN "applied-twice" ELSE "mutation-lost")
  ELSE IF aba THEN "rmw-not-on-current-aba" ELSE "rmw-not-on-current"
Empty == [x \in {} |-> 0]
Put(f, k, v) == [x \in DOMAIN f \cup {k} |-> IF x = k THEN v ELSE f[x]]
Del(f, k)    == [x \in DOMAIN f \ {k} |-> f[x]]

(* tokens i1, i2 are IDEMPOTENT mutators ("set X": no application count), all others count their applications *)
IdemToks == {"i1", "i2"}
Mut(c, v) ==
  CASE c.h \in {"uwc", "modify"} -> [v EXCEPT !.toks = @ \cup {c.tok}, !.cnt = IF c.tok \in IdemToks THEN @ ELSE @ + 1]
    [] c.h = "addfin"   -> [v EXCEPT !.fins = @ \cup {c.fin}]
    [] c.h = "remfin"   -> [v EXCEPT !.fins = @ \ {c.fin}]
    [] c.h \in {"teardown", "tad"} -> [v EXCEPT !.phase = "tearingDown"]
    [] OTHER -> v

IsRmw(h) == h \in {"uwc", "modify", "addfin", "remfin", "teardown"}
HasVal(h) == h \in {"uwc", "modify"}     \* helpers that hand the resulting object back
(* the phase a successful call found the resource in (executed atomically): UpdateWithConflicts' expected phase, *)
(* Modify's default; the finalizer helpers and Teardown accept any phase                                          *)
ExpOf(c) == CASE c.h = "uwc" -> c.exp [] c.h = "modify" -> "running" [] OTHER -> "any"

StateEv(v) == IF v.ver > 0 THEN [t |-> "created", v |-> v] ELSE [t |-> "destroyed", v |-> Absent]
Matches(cond, ev) ==
  CASE cond = "finsEmpty" -> ev.t # "destroyed" /\ ev.v.fins = {}
    [] cond = "destroyed" -> ev.t = "destroyed"
    [] cond = "tearingDown" -> ev.t # "destroyed" /\ ev.v.phase = "tearingDown"
    [] OTHER -> TRUE
TdLike(ev) == ev.t = "destroyed" \/ ev.v.phase = "tearingDown"

NewCall(e) ==
  [c |-> [h |-> e.h, tok |-> e.tok, fin |-> e.fin, owner |-> e.owner, exp |-> e.exp, cond |-> e.cond],
   nw |-> 0, lastWrite |-> Absent, lastGet |-> Absent, gotAny |-> FALSE, getInc |-> 0,
   sawConf |-> FALSE, destroys0 |-> ndestroy, watching |-> FALSE, seq |-> <<>>,
   (* TeardownAndDestroy: tdEff = the tearing-down phase of this call has taken effect (it wrote it, or read it);         *)
   (* emptyAfter = since then the resource has been seen with an empty finalizer set (or gone) at some commit             *)
   tdEff |-> FALSE, emptyAfter |-> FALSE]

Init == /\ store = Absent /\ inc = 0 /\ ndestroy = 0 /\ calls = Empty /\ ctxs = Empty
        /\ l = 1 /\ tid = "" /\ bad = FALSE

Reject(what, exp, got) ==
  /\ PrintT(<<"MISMATCH", tid, l, what>>)
  /\ PrintT(<<"DETAIL", ToString(exp), ToString(got)>>)
  /\ bad' = TRUE
  /\ UNCHANGED <<store, inc, ndestroy, calls, ctxs, tid>>

Keep == UNCHANGED <<tid, bad>>

(* a committed change: every watch in progress sees it *)
Observe(cs, ev) ==
  [a \in DOMAIN cs |->
     LET c1 == IF cs[a].watching THEN [cs[a] EXCEPT !.seq = Append(@, ev)] ELSE cs[a]
     IN IF c1.tdEff /\ (ev.t = "destroyed" \/ ev.v.fins = {}) THEN [c1 EXCEPT !.emptyAfter = TRUE] ELSE c1]
ObserveCtx(cx, ev) == [a \in DOMAIN cx |-> [cx[a] EXCEPT !.obs = @ \/ TdLike(ev)]]

Call(e) ==
  IF e.a \in DOMAIN calls THEN Reject("call-inside-call", "", e.a)
  ELSE calls' = Put(calls, e.a, NewCall(e)) /\ UNCHANGED <<store, inc, ndestroy, ctxs>> /\ Keep

(* ---- underlying operations, in commit order ---- *)
Op(e) ==
  IF e.a \notin DOMAIN calls THEN Reject("op-outside-call", "", e.a)
  ELSE
  LET r == calls[e.a]
      v == AbsV(e.v)
      conf == e.cls \in {"ownerconflict", "phaseconflict"}
  IN
  CASE e.op = "get" ->
         IF e.cls = "ok" /\ v # store THEN Reject("stale-read", store, v)
         ELSE IF e.cls = "notfound" /\ store.ver # 0 THEN Reject("stale-read", store, "notfound")
         ELSE /\ calls' = [calls EXCEPT ![e.a].lastGet = IF e.cls = "ok" THEN v ELSE Absent,
                                        ![e.a].gotAny = TRUE, ![e.a].getInc = inc,
                                        ![e.a].tdEff = @ \/ (r.c.h = "tad" /\ e.cls = "ok" /\ v.phase = "tearingDown"),
                                        ![e.a].emptyAfter = @ \/ (r.c.h = "tad" /\ e.cls = "ok" /\ v.phase = "tearingDown" /\ v.fins = {})]
              /\ UNCHANGED <<store, inc, ndestroy, ctxs>> /\ Keep
    [] e.op = "update" ->
         IF e.cls # "ok"
         THEN /\ calls' = [calls EXCEPT ![e.a].sawConf = @ \/ conf]
              /\ UNCHANGED <<store, inc, ndestroy, ctxs>> /\ Keep
         ELSE IF store.ver = 0 \/ v.ver # store.ver + 1 THEN Reject("update-version", store, v)
         ELSE IF IsRmw(r.c.h) \/ r.c.h = "tad"
              THEN IF Strip(v) # Strip(Mut(r.c, store))
                   THEN Reject(IF r.c.h \in {"addfin", "remfin"} /\ v.fins # Mut(r.c, store).fins /\ r.getInc = inc
                               THEN "finalizer-write-not-as-requested" ELSE HowOff(Mut(r.c, store), v, r.getInc # inc), Mut(r.c, store), v)
                   ELSE /\ store' = v
                        /\ calls' = Observe([calls EXCEPT ![e.a].nw = @ + 1, ![e.a].lastWrite = v,
                                                           ![e.a].tdEff = @ \/ (r.c.h = "tad" /\ v.phase = "tearingDown")],
                                             [t |-> "updated", v |-> v])
                        /\ ctxs' = ObserveCtx(ctxs, [t |-> "updated", v |-> v])
                        /\ UNCHANGED <<inc, ndestroy>> /\ Keep
              ELSE Reject("unexpected-update", r.c.h, v)
    [] e.op = "create" ->
         IF e.cls # "ok"
         THEN UNCHANGED <<store, inc, ndestroy, calls, ctxs>> /\ Keep
         ELSE IF store.ver # 0 \/ v.ver # 1 THEN Reject("create-over-existing", store, v)
         ELSE IF r.c.h = "modify" /\ Strip(v) # Strip(Mut(r.c, [Absent EXCEPT !.owner = r.c.owner]))
              THEN Reject(IF NoCnt(v) = NoCnt(Mut(r.c, [Absent EXCEPT !.owner = r.c.owner])) THEN "applied-twice" ELSE "modify-create-content",
                          Mut(r.c, [Absent EXCEPT !.owner = r.c.owner]), v)
         ELSE /\ store' = v /\ inc' = inc + 1
              /\ calls' = Observe([calls EXCEPT ![e.a].nw = @ + 1, ![e.a].lastWrite = v], [t |-> "created", v |-> v])
              /\ ctxs' = ObserveCtx(ctxs, [t |-> "created", v |-> v])
              /\ UNCHANGED ndestroy /\ Keep
    [] e.op = "destroy" ->
         IF e.cls # "ok"
         THEN UNCHANGED <<store, inc, ndestroy, calls, ctxs>> /\ Keep
         ELSE IF store.ver = 0 \/ store.fins # {} THEN Reject("removed-with-finalizers", store, "destroy ok")
         ELSE /\ store' = Absent /\ ndestroy' = ndestroy + 1
              /\ calls' = Observe(calls, [t |-> "destroyed", v |-> store])
              /\ ctxs' = ObserveCtx(ctxs, [t |-> "destroyed", v |-> store])
              /\ UNCHANGED inc /\ Keep
    [] e.op = "watch" ->
         /\ calls' = [calls EXCEPT ![e.a].watching = TRUE, ![e.a].seq = <<StateEv(store)>>]
         /\ ctxs' = IF r.c.h = "ctx" THEN Put(ctxs, e.a, [obs |-> TdLike(StateEv(store))]) ELSE ctxs
         /\ UNCHANGED <<store, inc, ndestroy>> /\ Keep
    [] OTHER -> UNCHANGED <<store, inc, ndestroy, calls, ctxs>> /\ Keep

(* ---- a helper call returns ---- *)
FirstMatch(cond, sq) == LET idx == {i \in 1..Len(sq) : Matches(cond, sq[i])} IN
                        IF idx = {} THEN 0 ELSE CHOOSE i \in idx : \A j \in idx : i <= j

Ret(e) ==
  IF e.a \notin DOMAIN calls THEN Reject("ret-outside-call", "", e.a)
  ELSE
  LET r == calls[e.a]
      c == r.c
      v == AbsV(e.v)
      ok == e.cls = "ok"
      fin == /\ calls' = Del(calls, e.a) /\ UNCHANGED <<store, inc, ndestroy, ctxs>> /\ Keep
  IN
  IF IsRmw(c.h) /\ ~ok /\ r.nw # 0 THEN Reject("error-had-effect", [nw |-> 0], [nw |-> r.nw, cls |-> e.cls])
  ELSE IF IsRmw(c.h) /\ ok /\ r.nw > 1 THEN Reject("applied-twice", [nw |-> 1], [nw |-> r.nw])
  ELSE IF IsRmw(c.h) /\ ok /\ r.sawConf THEN Reject("conflict-retried-into-success", "error", e.cls)
  ELSE IF HasVal(c.h) /\ ok /\ r.nw = 1 /\ v # r.lastWrite THEN Reject("returned-not-written", r.lastWrite, v)
  ELSE IF HasVal(c.h) /\ ok /\ r.nw = 0 /\ v # r.lastGet THEN Reject("returned-not-current", r.lastGet, v)
  ELSE IF IsRmw(c.h) /\ ok /\ r.nw = 0 /\ ~(r.gotAny /\ r.lastGet.ver > 0 /\ Mut(c, r.lastGet) = r.lastGet)
       THEN Reject("noop-success-without-effect", [lastGet |-> r.lastGet], e.cls)
  ELSE IF IsRmw(c.h) /\ ok /\ r.nw = 0 /\ ExpOf(c) # "any" /\ r.lastGet.phase # ExpOf(c)
       THEN Reject("success-in-wrong-phase", [expected |-> ExpOf(c)], r.lastGet)
  (* an error needs its justification: a phase conflict may be reported only by a call that expects a phase, and only if it *)
  (* saw the resource in another phase (its last read) or the store refused its write for that reason                      *)
  ELSE IF IsRmw(c.h) /\ e.cls = "phaseconflict" /\ (ExpOf(c) = "any" \/ (~r.sawConf /\ (~r.gotAny \/ r.lastGet.phase = ExpOf(c))))
       THEN Reject("error-without-justification", [expects |-> ExpOf(c), lastGet |-> r.lastGet], e.cls)
  ELSE IF c.h = "teardown" /\ ok /\ e.ready /\ (IF r.nw = 1 THEN r.lastWrite ELSE r.lastGet).fins # {}
       THEN Reject("ready-with-finalizers", {}, (IF r.nw = 1 THEN r.lastWrite ELSE r.lastGet).fins)
  ELSE IF c.h = "tad" /\ ok /\ ndestroy = r.destroys0 THEN Reject("tad-success-not-gone", "a destroy during the call", store)
  (* TeardownAndDestroy waits for the finalizers to go: it may give up with the pending-finalizers conflict only if, after its *)
  (* teardown took effect, the resource HAS been without finalizers (and somebody put one back before its Destroy): giving up   *)
  (* on a state from before the teardown is a jump                                                                             *)
  ELSE IF c.h = "tad" /\ e.cls = "conflict" /\ r.tdEff /\ ~r.emptyAfter
       THEN Reject("tad-gave-up-on-stale-state", "finalizers seen empty after the teardown took effect", store)
  ELSE IF c.h = "watchfor" /\ ok /\
          (LET i == FirstMatch(c.cond, r.seq) IN i = 0 \/ r.seq[i].v # v)
       THEN Reject("watchfor-not-first-match", [seq |-> r.seq, cond |-> c.cond], v)
  ELSE fin

(* ---- state of a teardown-bound context (sampled while nothing is running) ---- *)
Ctx(e) ==
  IF e.a \notin DOMAIN ctxs THEN Reject("ctx-unknown", "", e.a)
  ELSE IF e.cancelled /\ ~ctxs[e.a].obs THEN Reject("ctx-cancelled-spuriously", store, "cancelled")
  ELSE UNCHANGED <<store, inc, ndestroy, calls, ctxs>> /\ Keep

(* ---- end: nothing can move any more ---- *)
End(e) ==
  LET spinning == {a \in DOMAIN calls : IsRmw(calls[a].c.h) \/ calls[a].c.h \in {"create", "destroy"}}
      stuck == {a \in DOMAIN calls :
                  \/ calls[a].c.h = "tad" /\ (store.ver = 0 \/ store.fins = {})
                  \/ calls[a].c.h = "watchfor" /\ FirstMatch(calls[a].c.cond, calls[a].seq) # 0}
      late == {a \in DOMAIN ctxs : ctxs[a].obs /\ a \notin ToSet(e.cancelledSet)}
  IN IF AbsV(e.v) # store THEN Reject("final-contents", store, AbsV(e.v))
     ELSE IF spinning # {} THEN Reject("rmw-call-never-returned", [actors |-> spinning, store |-> store], "still running")
     ELSE IF stuck # {} THEN Reject("missed-wakeup", [actors |-> stuck, store |-> store], "blocked")
     ELSE IF late # {} THEN Reject("ctx-not-cancelled", late, "not cancelled")
     ELSE UNCHANGED <<store, inc, ndestroy, calls, ctxs>> /\ Keep

Next ==
  /\ l <= Len(TraceLog)
  /\ l' = l + 1
  /\ LET e == TraceLog[l] IN
       IF e.ev = "reset"
       THEN /\ store' = Absent /\ inc' = 0 /\ ndestroy' = 0 /\ calls' = Empty /\ ctxs' = Empty
            /\ tid' = e.tid /\ bad' = FALSE
       ELSE IF bad THEN UNCHANGED <<store, inc, ndestroy, calls, ctxs, tid, bad>>
       ELSE CASE e.ev = "call" -> Call(e)
              [] e.ev = "op"   -> Op(e)
              [] e.ev = "ret"  -> Ret(e)
              [] e.ev = "ctx"  -> Ctx(e)
              [] e.ev = "end"  -> End(e)
              [] OTHER -> UNCHANGED <<store, inc, ndestroy, calls, ctxs, tid, bad>>

Spec == Init /\ [][Next]_tvars
Consumed == TLCGet("stats").diameter - 1
Post == PrintT(<<"CONSUMED", Consumed>>) /\ Consumed = Len(TraceLog)
=============================================================================
