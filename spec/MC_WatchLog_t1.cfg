SPECIFICATION Spec
CONSTANTS InitCap = 2  MaxCap = 2  Gap = 0  Ids = {1, 2}  MaxPub = 6  W = {1}  Tails = {1, 3}  BBs = {FALSE}
INVARIANTS RingCorrect NoBadDelivery ErroredOnlyIfLagged QuietComplete RecentBookmarksAccepted AcceptedBookmarkRetained
CHECK_DEADLOCK FALSE
