SPECIFICATION Spec
INVARIANT Algebra
CHECK_DEADLOCK FALSE
