-------------------------- MODULE TraceKeyStorage --------------------------
(* Judge for C20: every API call / adversarial action performed on the real KeyStorage is replayed on *)
(* the model; the success of every API call must agree, and a successful retrieval must return the      *)
(* original master key.                                                                                  *)
EXTENDS KeyStorage, Json, IOUtils
TraceLog == ndJsonDeserialize(IOEnv.TRACE)
VARIABLES l, tid, bad
tvars == <<init, slots, tag, tagOK, ntok, nops, good, last, l, tid, bad>>
TInit == Init /\ l = 1 /\ tid = "" /\ bad = FALSE
Apply(e) ==
  CASE e.op = "init" -> Initialize(e.s, e.kp)
    [] e.op = "add" -> AddSlot(e.s, e.kp, e.o, e.ko)
    [] e.op = "delete" -> DeleteSlot(e.s, e.kp)
    [] e.op = "get" -> GetMaster(e.s, e.kp)
    [] e.op = "alterBlob" -> AlterBlob(e.s)
    [] e.op = "backdoorRemove" -> BackdoorRemove(e.s)
    [] e.op = "backdoorAdd" -> BackdoorAdd(e.s, e.v)
    [] e.op = "alterTag" -> AlterTag
    [] OTHER -> UNCHANGED vars       \* roundtrip: marshal + unmarshal leaves the storage as it is
IsApi(op) == op \in {"init", "add", "delete", "get"}
TNext ==
  /\ l <= Len(TraceLog) /\ l' = l + 1
  /\ LET e == TraceLog[l] IN
       IF e.ev = "reset" THEN /\ init' = FALSE /\ slots' = Empty /\ tag' = <<>> /\ tagOK' = TRUE /\ ntok' = 0 /\ nops' = 0 /\ good' = Empty
                              /\ last' = [op |-> "none", ok |-> TRUE] /\ tid' = e.tid /\ bad' = FALSE
       ELSE IF bad \/ ~ENABLED Apply(e) THEN UNCHANGED <<init, slots, tag, tagOK, ntok, nops, good, last, tid, bad>>
       ELSE /\ Apply(e) /\ tid' = tid
            /\ bad' = IF IsApi(e.op) /\ (last'.ok # e.ok)
                      THEN PrintT(<<"MISMATCH", tid, l, IF e.ok THEN (IF e.op = "get" THEN "retrieval-succeeded-but-must-fail" ELSE "call-succeeded-but-must-fail")
                                                             ELSE "call-failed-but-must-succeed">>)
                           /\ PrintT(<<"DETAIL", ToString([op |-> e.op, s |-> e.s, kp |-> e.kp, slots |-> slots, tampered |-> tampered]), ToString(e.err)>>)
                      ELSE IF e.op = "get" /\ e.ok /\ e.master # "same"
                      THEN PrintT(<<"MISMATCH", tid, l, "wrong-master-key">>) /\ PrintT(<<"DETAIL", "same", e.master>>)
                      ELSE FALSE
TSpec == TInit /\ [][TNext]_tvars
Consumed == TLCGet("stats").diameter - 1
Post == PrintT(<<"CONSUMED", Consumed>>) /\ Consumed = Len(TraceLog)
=============================================================================
