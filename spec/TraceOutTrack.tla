--------------------------- MODULE TraceOutTrack ---------------------------
(* Judge for the output-tracking driver: every line is one command executed on the real       *)
(* runtime (controller commands through the controller's runtime handle, x-commands by an     *)
(* external actor) with its outcome class and the projected value of every key afterwards.    *)
(* Controller commands are the actions of OutTrack; class and complete store contents must    *)
(* match.  External commands are facts: the store contents are taken from the log.            *)
EXTENDS OutTrack, Json, IOUtils, SequencesExt
K4 == <<"tA/a", "tA/b", "tB/a", "tB/b">>
TraceLog == ndJsonDeserialize(IOEnv.TRACE)
VARIABLES l, bad
tvars == <<vars, l, bad>>
AbsV(j) == [ver |-> j.ver, owner |-> j.owner, phase |-> j.phase, fins |-> ToSet(j.fins)]
AbsRes(j) == [k \in KeySet |-> AbsV(j[k])]
TInit == Init /\ l = 1 /\ bad = FALSE
Twin(c) == c \in {"tstart", "tmodify", "tcleanup"}
Ctrl(e) ==
  CASE e.c = "tstart"   -> TStart
    [] e.c = "tmodify"  -> TModify
    [] e.c = "tcleanup" -> TCleanup
    [] e.c = "start"   -> Start /\ UNCHANGED tw
    [] e.c = "cleanup" -> Cleanup(e.ks) /\ UNCHANGED tw
    [] e.c = "restart" -> Restart /\ UNCHANGED tw
    [] OTHER           -> Write(e.c, e.k) /\ UNCHANGED tw
TwOf(e) == IF "tw" \in DOMAIN e THEN e.tw ELSE tw'.ex
What(e) ==
  IF TwOf(e) # tw'.ex THEN (IF Twin(e.c) THEN "twin-cleanup-wrong" ELSE "other-controllers-output-changed")
  ELSE IF Twin(e.c) THEN "twin-changed-this-controllers-output"
  ELSE IF last'.cls # e.cls
  THEN (IF e.c = "cleanup" THEN "cleanup-outcome" ELSE IF e.c = "start" THEN "start-outcome" ELSE "outcome-class")
  ELSE IF \E k \in KeySet : res[k].ver # 0 /\ res[k].owner # Self /\ AbsRes(e.res)[k] # res[k] THEN "foreign-resource-changed"
  ELSE IF e.c = "cleanup" /\ \E k \in KeySet : res'[k].ver = 0 /\ AbsRes(e.res)[k].ver # 0 THEN "cleanup-left-untouched-output"
  ELSE IF e.c = "cleanup" THEN "cleanup-removed-wrong-resource"
  ELSE "effect"
Step(e) ==
  IF e.ev = "reset" THEN /\ res' = [k \in KeySet |-> Absent] /\ tracking' = FALSE /\ touched' = {}
                              /\ last' = [cmd |-> "init", cls |-> "ok"] /\ bad' = FALSE
                              /\ tw' = [tracking |-> FALSE, touched |-> FALSE, ex |-> FALSE]
  ELSE IF bad THEN UNCHANGED <<vars, bad>>
  ELSE IF e.c = "nop" THEN UNCHANGED <<vars, bad>>
  ELSE IF e.c \in {"xcreate", "xaddfin", "xremfin", "xdestroy"}
       THEN res' = AbsRes(e.res) /\ last' = [cmd |-> e.c, cls |-> e.cls] /\ UNCHANGED <<tracking, touched, bad, tw>>
  ELSE /\ Ctrl(e)
       /\ IF (Twin(e.c) \/ last'.cls = e.cls) /\ res' = AbsRes(e.res) /\ TwOf(e) = tw'.ex THEN bad' = FALSE
          ELSE /\ PrintT(<<"MISMATCH", e.tid, l, What(e)>>)
               /\ PrintT(<<"DETAIL", ToString([cls |-> last'.cls, res |-> res', tracking |-> tracking, touched |-> touched]),
                                      ToString([cls |-> e.cls, res |-> AbsRes(e.res)])>>)
               /\ bad' = TRUE
TNext == l <= Len(TraceLog) /\ l' = l + 1 /\ Step(TraceLog[l])
TSpec == TInit /\ [][TNext]_tvars
Consumed == TLCGet("stats").diameter - 1
Post == PrintT(<<"CONSUMED", Consumed>>) /\ Consumed = Len(TraceLog)
=============================================================================
