----------------------------- MODULE KeyStorage -----------------------------
(***************************************************************************)
(* Key storage (C20): a master key encrypted separately for every key slot *)
(* (PGP), an integrity tag = HMAC(master key) over the encrypted blobs of  *)
(* the slots in slot-id order.  API: Initialize, AddKeySlot (via a live    *)
(* slot), DeleteKeySlot, GetMasterKey, Marshal/Unmarshal.  Adversary on    *)
(* the serialized form: alter a blob, add a slot (copied, garbage or       *)
(* EMPTY blob), remove a slot, alter the tag.                              *)
(* A blob is abstractly [for |-> key pair that can open it, tok |-> id];   *)
(* the tag remembers the sequence of blob tokens it was computed over; an  *)
(* empty blob contributes nothing to the HMAC input - getKey therefore     *)
(* refuses storages containing an empty blob (see known_findings: fixed).  *)
(***************************************************************************)
EXTENDS Integers, Sequences, FiniteSets, TLC
CONSTANTS SlotIds, KeyPairs, MaxOps      \* SlotIds: set of integers (ordered)
VARIABLES init, slots, tag, tagOK, ntok, nops, good, last     \* good: ghost, the slots as the API last left them
vars == <<init, slots, tag, tagOK, ntok, nops, good, last>>
tampered == slots # good \/ ~tagOK
(* slots: id -> [for, tok]; tok = 0 : empty blob; for = 0 : nobody can open it *)
SortedIds(S) == CHOOSE sq \in [1..Cardinality(S) -> S] : \A a, b \in 1..Cardinality(S) : a < b => sq[a] < sq[b]
HashInput(sl) == LET ids == SortedIds(DOMAIN sl)
                     toks == [i \in 1..Len(ids) |-> sl[ids[i]].tok]
                 IN SelectSeq(toks, LAMBDA t : t # 0)
Put(f, k, v) == [x \in DOMAIN f \cup {k} |-> IF x = k THEN v ELSE f[x]]
Del(f, k) == [x \in DOMAIN f \ {k} |-> f[x]]
Empty == [x \in {} |-> 0]
Verified == tagOK /\ tag = HashInput(slots) /\ \A s \in DOMAIN slots : slots[s].tok # 0
(* getKey(slot, key pair) succeeds iff ... *)
CanGet(s, kp) == init /\ s \in DOMAIN slots /\ slots[s].for = kp /\ slots[s].tok # 0 /\ Verified

Init == init = FALSE /\ slots = Empty /\ tag = <<>> /\ tagOK = TRUE /\ ntok = 0 /\ nops = 0 /\ good = Empty
        /\ last = [op |-> "none", ok |-> TRUE]
Step(op, ok) == nops < MaxOps /\ nops' = nops + 1 /\ last' = [op |-> op, ok |-> ok]
Retag(sl) == tag' = HashInput(sl) /\ tagOK' = TRUE /\ good' = sl

Initialize(s, kp) ==
  /\ IF init THEN Step("init", FALSE) /\ UNCHANGED <<init, slots, tag, tagOK, ntok, good>>
     ELSE /\ Step("init", TRUE) /\ init' = TRUE /\ slots' = Put(Empty, s, [for |-> kp, tok |-> ntok + 1]) /\ ntok' = ntok + 1
          /\ Retag(slots')
(* key pair 0 = a public key that cannot be used for encryption (malformed): the call is refused and, like every refused call, *)
(* has no effect                                                                                                                *)
AddSlot(new, kpnew, old, kpold) ==
  LET ok == new \notin DOMAIN slots /\ CanGet(old, kpold) /\ kpnew # 0 IN
  /\ Step("add", ok)
  /\ IF ok THEN slots' = Put(slots, new, [for |-> kpnew, tok |-> ntok + 1]) /\ ntok' = ntok + 1 /\ Retag(slots')
     ELSE UNCHANGED <<slots, ntok, tag, tagOK, good>>
  /\ UNCHANGED init
DeleteSlot(s, kp) ==
  LET ok == Cardinality(DOMAIN slots) >= 2 /\ CanGet(s, kp) IN
  /\ Step("delete", ok)
  /\ IF ok THEN slots' = Del(slots, s) /\ Retag(slots') ELSE UNCHANGED <<slots, tag, tagOK, good>>
  /\ UNCHANGED <<init, ntok>>
GetMaster(s, kp) == Step("get", CanGet(s, kp)) /\ UNCHANGED <<init, slots, tag, tagOK, ntok, good>>
(* ---- adversary on the serialized form ---- *)
AlterBlob(s) == /\ s \in DOMAIN slots /\ Step("alterBlob", TRUE)
                /\ slots' = [slots EXCEPT ![s] = [for |-> 0, tok |-> ntok + 1]] /\ ntok' = ntok + 1
                /\ UNCHANGED <<init, tag, tagOK, good>>
BackdoorAdd(s, variant) ==
  /\ init /\ s \notin DOMAIN slots /\ Step("backdoorAdd", TRUE)
  /\ slots' = Put(slots, s, CASE variant = "empty" -> [for |-> 0, tok |-> 0]
                              [] variant = "garbage" -> [for |-> 0, tok |-> ntok + 1]
                              [] OTHER -> LET src == CHOOSE x \in DOMAIN slots : TRUE IN slots[src])   \* copy of an existing blob
  /\ ntok' = ntok + 1 /\ UNCHANGED <<init, tag, tagOK, good>>
BackdoorRemove(s) == /\ s \in DOMAIN slots /\ Cardinality(DOMAIN slots) >= 2 /\ Step("backdoorRemove", TRUE)
                     /\ slots' = Del(slots, s) /\ UNCHANGED <<init, tag, tagOK, ntok, good>>
AlterTag == /\ init /\ Step("alterTag", TRUE) /\ tagOK' = FALSE /\ UNCHANGED <<init, slots, tag, ntok, good>>

(* the property quantifies over single-field corruptions: one adversarial action on an API-produced storage *)
Pristine == slots = good /\ tagOK
Adversary == /\ Pristine
             /\ \/ \E s \in SlotIds : AlterBlob(s) \/ BackdoorRemove(s)
                \/ \E s \in SlotIds, v \in {"empty", "garbage", "copy"} : BackdoorAdd(s, v)
                \/ AlterTag
Next == \/ \E s \in SlotIds, kp \in KeyPairs : Initialize(s, kp) \/ DeleteSlot(s, kp) \/ GetMaster(s, kp)
        \/ \E n, o \in SlotIds, kn \in KeyPairs \cup {0}, ko \in KeyPairs : AddSlot(n, kn, o, ko)
        \/ Adversary
Spec == Init /\ [][Next]_vars

(* every live slot recovers the master key with its own key pair as long as nobody tampered *)
LiveSlotsRecover == (~tampered /\ init) => \A s \in DOMAIN slots : CanGet(s, slots[s].for)
NeverEmptyOnceInitialized == init => slots # Empty
(* any tampering is detected by the next retrieval, on every slot and with every key *)
TamperDetected == tampered => \A s \in SlotIds, kp \in KeyPairs : ~CanGet(s, kp)
NoOverwrite == [][\A s \in DOMAIN slots : (s \in DOMAIN slots' /\ last'.op = "add") => slots'[s] = slots[s]]_vars
LastSlotStays == [][(last'.op = "delete" /\ last'.ok) => Cardinality(DOMAIN slots) >= 2]_vars
=============================================================================
