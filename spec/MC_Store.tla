------------------------------ MODULE MC_Store ------------------------------
(* Bounded instance of Store: exhaustive model checking (Spec) and behaviour *)
(* generation for model-based replay (GenSpec, history variable `hist`).     *)
EXTENDS Store, Json, IOUtils

CONSTANTS Ids, Namespaces, Types, Owners, FinSet, Specs, MaxVer, LabelSets, Crs
GenDepth == IF "GEN_DEPTH" \in DOMAIN IOEnv THEN atoi(IOEnv.GEN_DEPTH) ELSE 25

VARIABLE hist
NoLabels == {{}}
TwoLabelSets == {{}, {<<"l", "x">>}}
vars == <<store, res, hist>>

Keys == [ns : Namespaces, typ : Types, id : Ids]
ObjsV(vers) == [ver : vers, owner : Owners, phase : Phases, fins : SUBSET FinSet,
                 labels : LabelSets, spec : Specs, cr : Crs]
Dummy == [ver |-> 0, owner |-> "", phase |-> "running", fins |-> {}, cr |-> 0,
          spec |-> (CHOOSE s \in Specs : TRUE), labels |-> (CHOOSE ls \in LabelSets : TRUE)]

(* vers(k): the versions an update request may carry for key k *)
RequestsV(vers(_)) ==
       [op : {"create"}, k : Keys, owner : Owners, exp : {"any"}, obj : {o \in ObjsV({0}) : o.cr # 0}]
  \cup UNION {[op : {"update"}, k : {k}, owner : Owners, exp : Phases \cup {"any"},
               obj : {o \in ObjsV(vers(k)) : o.cr = 0}] : k \in Keys}
  \cup [op : {"destroy", "get", "list"}, k : Keys, owner : Owners, exp : {"any"}, obj : {Dummy}]

AllVers(k) == 0..MaxVer
Requests == RequestsV(AllVers)
NearVers(k) == IF Exists(k) THEN {store[k].ver, store[k].ver - 1} ELSE {0, 1}
GenRequests == RequestsV(NearVers)

(* The owner stamped on a created object is the call's owner option (SetOwner);   *)
(* an object that already names a different owner is a caller error outside C01.  *)
WellFormed(r) ==
  /\ r.op = "create" => r.obj.owner = r.owner
  /\ r.op \in {"get", "list"} => r.owner = ""
  /\ r.op = "list" => r.k.id = (CHOOSE i \in Ids : TRUE)
  /\ r.op = "update" /\ Exists(r.k) => store[r.k].ver < MaxVer \/ r.obj.ver # store[r.k].ver

Init == store = Empty /\ res = [cls |-> "ok", out |-> {}] /\ hist = <<>>

Step(r) == WellFormed(r) /\ \E cls \in Outcomes(r) : Do(r, cls)

Next == \E r \in Requests : Step(r) /\ UNCHANGED hist
Spec == Init /\ [][Next]_vars

(* ---- generator (simulation mode): one random request per step; update requests ---- *)
(* ---- carry the current or the previous version so that both outcomes are frequent ---- *)
RandObj(vers) == [ver |-> RandomElement(vers), owner |-> RandomElement(Owners), phase |-> RandomElement(Phases),
                  fins |-> RandomElement(SUBSET FinSet), labels |-> RandomElement(LabelSets),
                  spec |-> RandomElement(Specs), cr |-> 0]
GenReq ==
  LET ops == <<"create", "create", "create", "update", "update", "update", "update", "destroy", "destroy", "get", "list">>
      op == ops[RandomElement(1..Len(ops))]
      k  == IF DOMAIN store # {} /\ RandomElement(1..4) > 1 THEN RandomElement(DOMAIN store) ELSE RandomElement(Keys)
      ow == IF Exists(k) /\ RandomElement(1..4) > 1 THEN store[k].owner ELSE RandomElement(Owners)
  IN CASE op = "create" -> [op |-> op, k |-> k, owner |-> ow, exp |-> "any",
                            obj |-> [RandObj({0}) EXCEPT !.owner = ow, !.cr = 1]]
       [] op = "update" -> [op |-> op, k |-> k, owner |-> ow, exp |-> RandomElement(Phases \cup {"any"}),
                            obj |-> RandObj(IF RandomElement(1..4) > 1 /\ Exists(k) THEN {store[k].ver} ELSE NearVers(k))]
       [] op \in {"destroy"} -> [op |-> op, k |-> k, owner |-> ow, exp |-> "any", obj |-> Dummy]
       [] OTHER -> [op |-> op, k |-> k, owner |-> "", exp |-> "any", obj |-> Dummy]
GenNext == /\ Len(hist) < GenDepth
           /\ \E r \in {GenReq} : (\E cls \in Outcomes(r) : Do(r, cls)) /\ hist' = Append(hist, r)
GenSpec == Init /\ [][GenNext]_vars
Emit == Len(hist) < GenDepth \/ PrintT(<<"BEH", ToJson(hist)>>)

TypeOK == /\ DOMAIN store \subseteq Keys
          /\ \A k \in DOMAIN store : store[k].ver \in 1..MaxVer /\ store[k].phase \in Phases
View == store
=============================================================================
