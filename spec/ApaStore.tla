------------------------------ MODULE ApaStore ------------------------------
(***************************************************************************)
(* The sequential resource store of Store.tla in a form Apalache can type  *)
(* (total function over a fixed key set, version 0 = absent), used to      *)
(* discharge the store's safety properties for UNBOUNDED versions, clocks  *)
(* and histories: IndInv is shown inductive (Init => IndInv at length 0,   *)
(* IndInv /\ Next => IndInv' at length 1) and the action properties        *)
(* (version discipline, creation time constant within an incarnation,      *)
(* never removed with finalizers, failed calls leave the store untouched)  *)
(* are shown to hold for every step from every state satisfying IndInv.    *)
(* TLC checks Store.tla only for versions <= 3.                            *)
(***************************************************************************)
EXTENDS Integers, FiniteSets, Apalache

CONSTANTS
  \* @type: Set(Str);
  Keys,
  \* @type: Set(Str);
  Owners,
  \* @type: Set(Str);
  Fins

VARIABLES
  \* @type: Str -> { ver: Int, owner: Str, phase: Str, fins: Set(Str), cr: Int, spec: Int };
  store,
  \* @type: Int;
  clock,
  \* @type: { op: Str, k: Str, cls: Str };
  last

Phases == {"running", "tearingDown"}
\* @type: { ver: Int, owner: Str, phase: Str, fins: Set(Str), cr: Int, spec: Int };
Absent == [ver |-> 0, owner |-> "", phase |-> "running", fins |-> {}, cr |-> 0, spec |-> 0]

CInit == Keys = {"a", "b"} /\ Owners = {"", "A", "B"} /\ Fins = {"f", "g"}

Init == /\ store = [k \in Keys |-> Absent]
        /\ clock = 0
        /\ last = [op |-> "none", k |-> "a", cls |-> "ok"]

Exists(k) == store[k].ver > 0

(* requests: the caller's object is (owner o, phase p, fins f, spec s, supplied version v) *)
Create(k, o, p, f, s) ==
  IF Exists(k)
  THEN /\ last' = [op |-> "create", k |-> k, cls |-> "conflict"] /\ UNCHANGED <<store, clock>>
  ELSE /\ store' = [store EXCEPT ![k] = [ver |-> 1, owner |-> o, phase |-> p, fins |-> f, cr |-> clock + 1, spec |-> s]]
       /\ clock' = clock + 1
       /\ last' = [op |-> "create", k |-> k, cls |-> "ok"]

Update(k, o, oo, v, exp, p, f, s) ==   \* o: owner option of the call; oo: owner in the object; exp: expected phase or "any"
  LET c == store[k]
      cls == IF ~Exists(k) THEN "notfound"
             ELSE IF c.owner # o THEN "ownerconflict"
             ELSE IF c.ver # v THEN "conflict"
             ELSE IF exp # "any" /\ c.phase # exp THEN "phaseconflict"
             ELSE "ok"
  IN IF cls = "ok"
     THEN /\ store' = [store EXCEPT ![k] = [ver |-> c.ver + 1, owner |-> oo, phase |-> p, fins |-> f, cr |-> c.cr, spec |-> s]]
          /\ last' = [op |-> "update", k |-> k, cls |-> "ok"] /\ UNCHANGED clock
     ELSE /\ last' = [op |-> "update", k |-> k, cls |-> cls] /\ UNCHANGED <<store, clock>>

Destroy(k, o) ==
  LET c == store[k]
      cls == IF ~Exists(k) THEN "notfound"
             ELSE IF c.owner # o THEN "ownerconflict"
             ELSE IF c.fins # {} THEN "conflict"
             ELSE "ok"
  IN IF cls = "ok"
     THEN /\ store' = [store EXCEPT ![k] = Absent]
          /\ last' = [op |-> "destroy", k |-> k, cls |-> "ok"] /\ UNCHANGED clock
     ELSE /\ last' = [op |-> "destroy", k |-> k, cls |-> cls] /\ UNCHANGED <<store, clock>>

Next ==
  \E k \in Keys, o \in Owners, oo \in Owners, p \in Phases, f \in SUBSET Fins, s \in 0..2, exp \in Phases \cup {"any"} :
     \/ Create(k, o, p, f, s)
     \/ \E v \in Int : Update(k, o, oo, v, exp, p, f, s)
     \/ Destroy(k, o)

(* ------------------------------------------------------------------------ *)
TypeOK ==
  /\ DOMAIN store = Keys
  /\ \A k \in Keys : /\ store[k].ver >= 0 /\ store[k].cr >= 0
                     /\ store[k].owner \in Owners /\ store[k].phase \in Phases /\ store[k].fins \subseteq Fins
  /\ clock >= 0
  /\ last.op \in {"none", "create", "update", "destroy"} /\ last.k \in Keys
  /\ last.cls \in {"ok", "conflict", "notfound", "ownerconflict", "phaseconflict"}

IndInv ==
  /\ TypeOK
  /\ \A k \in Keys : store[k].ver = 0 => store[k] = Absent
  /\ \A k \in Keys : store[k].ver > 0 => (store[k].cr >= 1 /\ store[k].cr <= clock)

(* an arbitrary state satisfying the invariant (Apalache value generators) *)
IndInit == store = Gen(3) /\ clock = Gen(1) /\ last = Gen(1) /\ IndInv

(* action properties (evaluated on every step from every state satisfying IndInv) *)
VersionDiscipline ==
  \A k \in Keys :
     IF store[k].ver > 0 /\ store'[k].ver > 0
     THEN /\ store'[k].ver \in {store[k].ver, store[k].ver + 1}
          /\ (store'[k].ver = store[k].ver => store'[k] = store[k])
          /\ (store'[k].ver = store[k].ver + 1 => store'[k].cr = store[k].cr)
     ELSE store'[k].ver \in {0, 1}
NeverRemovedWithFinalizers == \A k \in Keys : (store[k].ver > 0 /\ store'[k].ver = 0) => store[k].fins = {}
FailedLeavesUntouched == last'.cls # "ok" => store' = store
OneKeyPerStep == \A k1, k2 \in Keys : (store'[k1] # store[k1] /\ store'[k2] # store[k2]) => k1 = k2
FreshIncarnationIsNewer == \A k \in Keys : (store[k].ver = 0 /\ store'[k].ver = 1) => store'[k].cr > clock
OwnerGuards == \A k \in Keys : (store[k].ver > 0 /\ store'[k] # store[k] /\ last'.op = "destroy") => last'.cls = "ok"
ActionInv == VersionDiscipline /\ NeverRemovedWithFinalizers /\ FailedLeavesUntouched /\ OneKeyPerStep /\ FreshIncarnationIsNewer
=============================================================================
