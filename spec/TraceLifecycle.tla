--------------------------- MODULE TraceLifecycle ---------------------------
(***************************************************************************)
(* Judge for controller-driven lifecycles (C06, C07).  The trace is the    *)
(* totally ordered log of successful writes recorded by a proxy between    *)
(* everybody (runtime + external actor) and the store, plus "quiet"        *)
(* snapshots.  C07 is evaluated after EVERY write (it is a safety property *)
(* over prefixes of the write log), C06 at the quiet points.               *)
(* Inputs and outputs are paired by id; the transform is val -> 10 * val.  *)
(***************************************************************************)
EXTENDS Integers, Sequences, FiniteSets, TLC, Json, IOUtils, SequencesExt
TraceLog == ndJsonDeserialize(IOEnv.TRACE)
(* which property is judged: C07 rejections must not hide the quiet points from C06 and vice versa *)
Judge == IF "JUDGE" \in DOMAIN IOEnv THEN IOEnv.JUDGE ELSE "C07"
VARIABLES ins, outs, flags, l, tid, bad,
          exposed    \* ids whose input has been tearing down with a foreign finalizer but WITHOUT the controller's finalizer
                     \* under the ignore-teardown-until option since the controller last put its finalizer on it: the
                     \* named deviation InputFirstSeenTearingDown (open finding) - a reconcile of such an input runs the
                     \* transform as if the input were running but cannot add the finalizer
tvars == <<ins, outs, flags, l, tid, bad, exposed>>
Empty == [x \in {} |-> 0]
Put(f, k, v) == [x \in DOMAIN f \cup {k} |-> IF x = k THEN v ELSE f[x]]
Del(f, k) == [x \in DOMAIN f \ {k} |-> f[x]]
Val(j) == [ver |-> j.ver, ph |-> j.phase, fins |-> ToSet(j.fins), val |-> j.val, owner |-> j.owner, lab |-> ("lab" \in DOMAIN j /\ j.lab)]
(* skip / keep: "skipmode" - from that line on the transform function asks to skip every reconcile (SkipReconcileTag): an output  *)
(* that exists stays as it is (keep = the ids whose output existed IN RUNNING PHASE for a running input at that moment and whose *)
(* input has stayed running since; an output that was already being torn down then - left over from an earlier incarnation of   *)
(* the input - is still destroyed and, the transform being skipped, not made again), no new output has to appear; clean-up of    *)
(* torn-down inputs goes on as always                                                                                            *)
(* destroyer: destroy.Controller for the input type runs as well: when the system is quiet no input is left that it is meant to *)
(* remove (unowned, tearing down, without finalizers)                                                                            *)
(* extra: a secondary input kind (qtransform: extra mapped input, secondary rN -> input rN; transform: extra input); the driver's *)
(* transform is output = 10 * input + secondary of the same id (0 when absent); exts: id -> value of the secondaries              *)
F0 == [fin |-> FALSE, ignoreTd |-> FALSE, ignoreUntil |-> FALSE, cleanup |-> FALSE, ctrl |-> "", skip |-> FALSE, keep |-> {}, destroyer |-> FALSE, optional |-> FALSE,
       extra |-> FALSE, exts |-> Empty, filtered |-> FALSE]
Image(id) == 10 * ins[id].val + (IF flags.extra /\ id \in DOMAIN flags.exts THEN flags.exts[id] ELSE 0)
(* cleanup configuration: the dependents of input id are the outputs id and id + 10 *)
Dependents(os, id) == {o \in DOMAIN os : o % 10 = id}
Init == ins = Empty /\ outs = Empty /\ flags = F0 /\ l = 1 /\ tid = "" /\ bad = FALSE /\ exposed = {}
Reject(what, exp, got) ==
  /\ PrintT(<<"MISMATCH", tid, l, what>>) /\ PrintT(<<"DETAIL", ToString(exp), ToString(got)>>)
  /\ bad' = TRUE /\ UNCHANGED <<ins, outs, flags, tid, exposed>>
Keep == UNCHANGED <<flags, tid, bad>>
Held(o) == "F" \in o.fins

(* is a tearing-down input still treated as running by the controller's options? *)
(* optional mapping (MapMetadataOptionalFunc of the driver): an input whose value is 3 is not mapped - it has no image *)
(* filtered (transform.WithInputListOptions, label "on" exists): an input without the label is not listed - it has no image either *)
Mapped(i) == (~flags.optional \/ i.val # 3) /\ (~flags.filtered \/ i.lab)
TreatedRunning(i) ==
  /\ Mapped(i)
  /\ \/ i.ph = "running"
     \/ flags.ignoreTd
     \/ (flags.ignoreUntil /\ \E f \in i.fins : f # flags.ctrl)

(* C07 after a write, given the new maps *)
FinViolations(ni, no) == {id \in DOMAIN no : no[id].owner = flags.ctrl /\ ~(id \in DOMAIN ni /\ flags.ctrl \in ni[id].fins)}
Write(e) ==
  LET v == Val(e.v)
      ni == IF e.kind = "in" THEN (IF e.op = "destroy" THEN Del(ins, e.id) ELSE Put(ins, e.id, v)) ELSE ins
      no == IF e.kind = "out" THEN (IF e.op = "destroy" THEN Del(outs, e.id) ELSE Put(outs, e.id, v)) ELSE outs
      fv == FinViolations(ni, no)
      ne == IF e.kind = "in" /\ e.op # "destroy"
            THEN (IF flags.ctrl \in v.fins THEN exposed \ {e.id}
                  ELSE IF flags.ignoreUntil /\ v.ph = "tearingDown" /\ v.fins # {} THEN exposed \cup {e.id} ELSE exposed)
            ELSE exposed
  IN
  IF Judge = "C07" /\ flags.cleanup /\ e.kind = "in" /\ e.op = "update" /\ e.id \in DOMAIN ins
     /\ flags.ctrl \in ins[e.id].fins /\ flags.ctrl \notin v.fins /\ Dependents(outs, e.id) # {}
  THEN Reject("cleanup-finalizer-released-early", [id |-> e.id, dependents |-> Dependents(outs, e.id)], v)
  ELSE IF Judge = "C07" /\ ~flags.cleanup /\ e.kind = "out" /\ e.op = "destroy" /\ ~(v.ph = "tearingDown" /\ v.fins = {})
  THEN Reject("output-destroyed-without-teardown", "tearingDown, no finalizers", v)
  ELSE IF Judge = "C07" /\ flags.fin /\ fv # {} /\ FinViolations(ins, outs) = {}
  THEN LET id == IF fv \ ne # {} THEN CHOOSE x \in fv \ ne : TRUE ELSE CHOOSE x \in fv : TRUE IN
       Reject(IF flags.ignoreUntil /\ id \in ne
              THEN "finalizer-not-on-input-ignore-teardown" ELSE "finalizer-not-on-input-while-output-exists",
              [id |-> id, input |-> IF id \in DOMAIN ni THEN ni[id] ELSE "absent", output |-> no[id]], e.op)
  ELSE /\ ins' = ni /\ outs' = no /\ exposed' = ne /\ UNCHANGED <<tid, bad>>
       /\ flags' = [flags EXCEPT !.keep = IF e.kind = "in" /\ (e.op = "destroy" \/ ~TreatedRunning(v)) THEN @ \ {e.id} ELSE @]

Snap(js) == [id \in {j.id : j \in ToSet(js)} |-> Val((CHOOSE j \in ToSet(js) : j.id = id).v)]
UnconvergedCleanup ==
  {id \in DOMAIN ins :
     ~( /\ (ins[id].ph = "running") => flags.ctrl \in ins[id].fins
        /\ (ins[id].ph = "tearingDown" /\ Dependents(outs, id) = {}) => flags.ctrl \notin ins[id].fins )}
UnconvergedTransform ==
  {id \in DOMAIN ins \cup DOMAIN outs :
     LET ie == id \in DOMAIN ins
         oe == id \in DOMAIN outs /\ outs[id].owner = flags.ctrl
     IN ~( /\ (ie /\ TreatedRunning(ins[id])) =>
                 IF flags.skip
                 THEN (oe /\ (outs[id].ph = "running" \/ Held(outs[id]))) \/ (~oe /\ id \notin flags.keep)
                 ELSE (oe /\ ((outs[id].ph = "running" /\ outs[id].val = Image(id)) \/ Held(outs[id])))
           /\ (~ie) => (~oe \/ Held(outs[id]))
           /\ (ie /\ ~TreatedRunning(ins[id])) => ((~oe \/ Held(outs[id])) /\ ((~oe /\ ins[id].ph = "tearingDown") => flags.ctrl \notin ins[id].fins)) )}
Destroyable == {id \in DOMAIN ins : ins[id].ph = "tearingDown" /\ ins[id].fins = {} /\ ins[id].owner = ""}
Unconverged == (IF flags.cleanup THEN UnconvergedCleanup ELSE UnconvergedTransform) \cup (IF flags.destroyer THEN Destroyable ELSE {})
Quiet(e) ==
  IF Snap(e.ins) # ins \/ Snap(e.outs) # outs
     \/ ("exts" \in DOMAIN e /\ [id \in DOMAIN Snap(e.exts) |-> Snap(e.exts)[id].val] # flags.exts) THEN Reject("write-log-incomplete", [ins |-> ins, outs |-> outs], [ins |-> Snap(e.ins), outs |-> Snap(e.outs)])
  ELSE IF Judge = "C06" /\ Unconverged # {}
  THEN LET id == IF Unconverged \ exposed # {} THEN CHOOSE x \in Unconverged \ exposed : TRUE ELSE CHOOSE x \in Unconverged : TRUE IN
       Reject(IF flags.ignoreUntil /\ id \notin DOMAIN ins /\ id \in exposed THEN "not-converged-ignore-teardown-orphan"
              ELSE IF (flags.optional \/ flags.filtered) /\ id \in DOMAIN ins /\ ~Mapped(ins[id]) /\ ins[id].ph = "tearingDown" /\ flags.ctrl \in ins[id].fins
                      /\ ~(id \in DOMAIN outs /\ outs[id].owner = flags.ctrl)
                   THEN (IF flags.filtered THEN "finalizer-left-on-filtered-out-input" ELSE "finalizer-left-on-unmapped-input")
              ELSE "not-converged",
              [id |-> id, input |-> IF id \in DOMAIN ins THEN ins[id] ELSE "absent"], IF id \in DOMAIN outs THEN outs[id] ELSE "absent")
  ELSE UNCHANGED <<ins, outs, exposed>> /\ Keep

Next == /\ l <= Len(TraceLog) /\ l' = l + 1
        /\ LET e == TraceLog[l] IN
             IF e.ev = "reset" THEN /\ ins' = Empty /\ outs' = Empty /\ tid' = e.tid /\ bad' = FALSE /\ exposed' = {}
                                    /\ flags' = [fin |-> e.fin, ignoreTd |-> e.ignoreTd, ignoreUntil |-> e.ignoreUntil, cleanup |-> e.cleanup, ctrl |-> e.ctrl,
                                                  skip |-> FALSE, keep |-> {}, destroyer |-> ("destroyer" \in DOMAIN e /\ e.destroyer), optional |-> ("optional" \in DOMAIN e /\ e.optional),
                                                  extra |-> ("extra" \in DOMAIN e /\ e.extra), exts |-> Empty,
                                                  filtered |-> ("filtered" \in DOMAIN e /\ e.filtered)]
             ELSE IF bad THEN UNCHANGED <<ins, outs, flags, tid, bad, exposed>>
             ELSE CASE e.ev = "w" /\ e.kind = "ext" ->
                         /\ flags' = [flags EXCEPT !.exts = IF e.op = "destroy" THEN Del(@, e.id) ELSE Put(@, e.id, e.v.val)]
                         /\ UNCHANGED <<ins, outs, tid, bad, exposed>>
                    [] e.ev = "w" /\ e.kind # "ext" -> Write(e)
                    [] e.ev = "quiet" -> Quiet(e)
                    [] e.ev = "skipmode" ->
                         /\ flags' = [flags EXCEPT !.skip = TRUE,
                                                   !.keep = {id \in DOMAIN outs : outs[id].owner = flags.ctrl /\ outs[id].ph = "running" /\ id \in DOMAIN ins /\ TreatedRunning(ins[id])}]
                         /\ UNCHANGED <<ins, outs, tid, bad, exposed>>
                    [] OTHER -> UNCHANGED <<ins, outs, flags, tid, bad, exposed>>
Spec == Init /\ [][Next]_tvars
Consumed == TLCGet("stats").diameter - 1
Post == PrintT(<<"CONSUMED", Consumed>>) /\ Consumed = Len(TraceLog)
=============================================================================
