------------------------------ MODULE GenDepDB ------------------------------
(* Call-sequence generator for the C17 driver: random declarations (valid and invalid) *)
EXTENDS MC_DepDB, Json, IOUtils, SequencesExt
VARIABLES hist, done
gvars == <<db, ncalls, last, hist, done>>
GenDepth == IF "GEN_DEPTH" \in DOMAIN IOEnv THEN atoi(IOEnv.GEN_DEPTH) ELSE 6
AllTypes == {"tA", "tB"}
RandOut(i) == O(RandomElement(AllTypes), RandomElement({"excl", "excl", "shared"}))
RandIn(fl, n) == I(RandomElement(AllTypes), RandomElement({NoId, NoId, "a", "b"}),
                IF RandomElement(1..8) = 1 THEN RandomElement(RKinds \cup QKinds) ELSE RandomElement(KindsOf(fl)))
RandSeq(n, f(_)) == [i \in 1..n |-> f(i)]
GenCall ==
  LET fl == RandomElement({"r", "q"})
      c == RandomElement(Ctrls)
      no == RandomElement({0, 1, 1, 2})
      ni == RandomElement({0, 1, 2, 2, 3})
      (* the inputs the controller has now, same keys, kinds drawn again: an update that changes nothing but the kind of inputs *)
      cur == IF c \in DOMAIN db.ins THEN SetToSeq(db.ins[c]) ELSE <<>>
      rekinded == [i \in 1..Len(cur) |-> I(cur[i].typ, cur[i].id, RandomElement(RKinds))]
  IN IF c \in Registered(db) /\ db.flav[c] = "r" /\ RandomElement(1..3) > 1
     THEN IF cur # <<>> /\ RandomElement(1..3) = 1
          THEN [op |-> "update", c |-> c, fl |-> "r", outs |-> <<>>, ins |-> rekinded]
          ELSE [op |-> "update", c |-> c, fl |-> "r", outs |-> <<>>, ins |-> [i \in 1..ni |-> RandIn("r", i)]]
     ELSE [op |-> "register", c |-> c, fl |-> fl, outs |-> [i \in 1..no |-> RandOut(i)], ins |-> [i \in 1..ni |-> RandIn(fl, i)]]
GenStep == \E call \in {GenCall} :
             /\ db' = PropCall(db, call)[2] /\ ncalls' = ncalls + 1 /\ last' = last
             /\ hist' = Append(hist, call) /\ UNCHANGED done
StartAt == RandomElement(0..GenDepth)
Finish == ~done /\ PrintT(<<"BEH", ToJson([calls |-> hist, startAt |-> StartAt])>>) /\ done' = TRUE /\ UNCHANGED <<db, ncalls, last, hist>>
GenInit == Init /\ hist = <<>> /\ done = FALSE
GenNext == IF Len(hist) >= GenDepth THEN Finish ELSE ~done /\ GenStep
GenSpec == GenInit /\ [][GenNext]_gvars
=============================================================================
