SPECIFICATION GenSpec
CONSTANTS Kinds = {"K1", "K2"}  Ids = {1}  Ctrls = {"u", "q"}  Cfg <- CfgF  Alt <- AltF  Cached = {}  MaxWrites = 7  MaxFaults = 0  Noops = TRUE  MapTo <- MapSame
CHECK_DEADLOCK FALSE
