------------------------------- MODULE Remote -------------------------------
(***************************************************************************)
(* gRPC transparency (C11), the code tables: how the server maps the error *)
(* class of the wrapped state to a status code (server.go) and how the     *)
(* client adapter maps the status code back (client.go), per operation,    *)
(* including the native Teardown / TeardownAndDestroy RPCs and the sticky  *)
(* fallbacks for servers that lack them.  And the resume logic of remote   *)
(* watches (C13) as a small state machine.                                 *)
(***************************************************************************)
EXTENDS Integers, Sequences, FiniteSets, TLC

Ops == {"get", "list", "create", "update", "destroy", "teardown", "tad"}
Classes == {"ok", "notfound", "conflict", "ownerconflict", "phaseconflict"}

(* classes the wrapped state can produce for an operation (sequential use) *)
Possible(op) ==
  CASE op = "get"      -> {"ok", "notfound"}
    [] op = "list"     -> {"ok"}
    [] op = "create"   -> {"ok", "conflict"}
    [] op = "update"   -> {"ok", "notfound", "conflict", "ownerconflict", "phaseconflict"}
    [] op = "destroy"  -> {"ok", "notfound", "conflict", "ownerconflict"}
    [] op = "teardown" -> {"ok", "notfound", "ownerconflict"}
    [] op = "tad"      -> {"ok", "notfound", "ownerconflict", "conflict"}

(* server.go: the order of the predicate tests matters *)
ServerCode(op, cls) ==
  IF cls = "ok" THEN "OK"
  ELSE IF cls = "notfound" THEN "NotFound"
  ELSE IF cls = "ownerconflict" /\ op # "get" THEN "PermissionDenied"
  ELSE IF cls = "phaseconflict" /\ op = "update" THEN "InvalidArgument"
  ELSE IF cls \in {"conflict", "phaseconflict", "ownerconflict"}
       THEN CASE op = "create" -> "AlreadyExists"
              [] op \in {"update", "destroy", "teardown", "tad"} -> "FailedPrecondition"
              [] OTHER -> "Unknown"
  ELSE "Unknown"

(* client.go *)
ClientClass(op, code) ==
  CASE code = "OK" -> "ok"
    [] code = "NotFound" -> "notfound"
    [] code = "PermissionDenied" /\ op \in {"create", "update", "destroy", "teardown", "tad"} -> "ownerconflict"
    [] code = "AlreadyExists" /\ op = "create" -> "conflict"
    [] code = "InvalidArgument" /\ op = "update" -> "phaseconflict"
    [] code = "FailedPrecondition" /\ op \in {"update", "destroy", "teardown", "tad"} -> "conflict"
    [] OTHER -> "other"

RoundTrip == \A op \in Ops : \A cls \in Possible(op) : ClientClass(op, ServerCode(op, cls)) = cls

(* ---- sticky fallback of the teardown RPCs ---- *)
VARIABLES tdUnsupported, rpcCalls, serverHas
fvars == <<tdUnsupported, rpcCalls, serverHas>>
FInit == tdUnsupported = FALSE /\ rpcCalls = 0 /\ serverHas \in BOOLEAN
CallTeardown == /\ rpcCalls < 3
                /\ IF tdUnsupported THEN UNCHANGED <<tdUnsupported, rpcCalls>>            \* fallback path, no RPC
                   ELSE /\ rpcCalls' = rpcCalls + 1
                        /\ tdUnsupported' = ~serverHas                                       \* Unimplemented => sticky
                /\ UNCHANGED serverHas
FNext == CallTeardown
FSpec == FInit /\ [][FNext]_fvars
StickyOnceSet == [][tdUnsupported => tdUnsupported']_fvars
AtMostOneWastedRpc == ~serverHas => rpcCalls <= 1
=============================================================================
