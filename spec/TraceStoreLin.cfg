SPECIFICATION Spec
CONSTRAINT HighWater
POSTCONDITION Post
CHECK_DEADLOCK FALSE
