SPECIFICATION TSpec
POSTCONDITION Post
CHECK_DEADLOCK FALSE
