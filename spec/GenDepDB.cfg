SPECIFICATION GenSpec
CONSTANTS Ctrls = {"c1", "c2", "c3"}  Types = {"tA", "tB"}  Ids = {"a", "b"}  MaxCalls = 100
  OutMenu <- MCOutMenu  InMenu <- MCInMenu
CHECK_DEADLOCK FALSE
