--------------------------- MODULE TraceMalformed ---------------------------
EXTENDS Malformed
(* ---- judge ---- *)
TraceLog == IF "TRACE" \in DOMAIN IOEnv THEN ndJsonDeserialize(IOEnv.TRACE) ELSE <<>>
VARIABLES l, nbad
AbsShape(e) == [rpc |-> e.rpc, res |-> e.res, phase |-> e.phase, lop |-> e.lop, nval |-> e.nval, invert |-> e.invert, re |-> e.re, w |-> e.w, noopt |-> e.noopt]
TInit == l = 1 /\ nbad = 0
Check(e) ==
  IF ~e.alive
  THEN PrintT(<<"MISMATCH", "malformed", l, "server-process-crashed">>) /\ PrintT(<<"DETAIL", ToString(AbsShape(e)), e.code>>) /\ nbad' = nbad + 1
  ELSE IF MustReject(AbsShape(e)) /\ e.code = "OK"
  THEN PrintT(<<"MISMATCH", "malformed", l, "malformed-request-accepted">>) /\ PrintT(<<"DETAIL", ToString(AbsShape(e)), e.code>>) /\ nbad' = nbad + 1
  ELSE nbad' = nbad
TNext == l <= Len(TraceLog) /\ l' = l + 1 /\ Check(TraceLog[l])
TSpec == TInit /\ [][TNext]_<<l, nbad>>
Consumed == TLCGet("stats").diameter - 1
Post == PrintT(<<"CONSUMED", Consumed>>) /\ Consumed = Len(TraceLog)
=============================================================================
