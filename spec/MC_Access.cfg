SPECIFICATION Spec
INVARIANT MatrixWellDefined
CHECK_DEADLOCK FALSE
