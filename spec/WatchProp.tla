------------------------------ MODULE WatchProp ------------------------------
(***************************************************************************)
(* Property-level vocabulary of watch streams (C02, C12, C14): committed   *)
(* events, what a subscriber of a given kind / selector must see of them,  *)
(* the first-lap growth of the history buffer, the retained window, which  *)
(* bookmarks must be accepted and what a tail request must deliver.        *)
(* Shared by the implementation-level model WatchLog and the trace judge   *)
(* TraceWatch.                                                             *)
(***************************************************************************)
EXTENDS Integers, Sequences, FiniteSets, TLC

CONSTANTS InitCap, MaxCap, Gap   \* history settings

Min(a, b) == IF a < b THEN a ELSE b
Max(a, b) == IF a > b THEN a ELSE b

(* ------------------------------------------------------------------ events *)
Nil == [t |-> "nil", id |-> 0, ver |-> 0, lab |-> FALSE, over |-> 0, olab |-> FALSE, bm |-> -2]
Ev(t, i, v, lb, ov, ol, b) == [t |-> t, id |-> i, ver |-> v, lab |-> lb, over |-> ov, olab |-> ol, bm |-> b]
ErrEv == [Nil EXCEPT !.t = "errored"]

(* label-selector rewrite of one committed event (filter on): <<keep, event>> *)
Rewrite(e) ==
  CASE e.t \in {"created", "destroyed"} -> <<e.lab, e>>
    [] e.t = "updated" ->
         IF e.olab /\ ~e.lab THEN <<TRUE, [e EXCEPT !.t = "destroyed", !.over = 0, !.olab = FALSE]>>
         ELSE IF ~e.olab /\ e.lab THEN <<TRUE, [e EXCEPT !.t = "created", !.over = 0, !.olab = FALSE]>>
         ELSE <<e.lab /\ e.olab, e>>
    [] OTHER -> <<FALSE, e>>

(* what a subscriber (kind, id, filt) sees of one committed event: <<keep, event>> *)
View(kind, i, filt, e) ==
  IF kind = "one" THEN <<e.id = i, e>>
  ELSE IF filt THEN Rewrite(e) ELSE <<TRUE, e>>

RECURSIVE ViewSeq(_, _, _, _)
ViewSeq(kind, i, filt, s) ==
  IF s = <<>> THEN <<>>
  ELSE LET v == View(kind, i, filt, Head(s)) IN
       (IF v[1] THEN <<v[2]>> ELSE <<>>) \o ViewSeq(kind, i, filt, Tail(s))

(* --------------------------------------------------------- ring arithmetic *)
(* capacity after publishing at write position wp with capacity c *)
CapAfter(wp, c) == IF wp = c /\ c < MaxCap THEN Min(2 * c, MaxCap) ELSE c

(* capacity as a function of the number of published events (first-lap growth) *)
RECURSIVE CapAt(_)
CapAt(wp) == IF wp = 0 THEN InitCap ELSE CapAfter(wp - 1, CapAt(wp - 1))

(* oldest position a new watch may start from *)
Retained(wp, c) == Max(wp - c + Gap, 0)

(* bookmark p (a log position) accepted by a watch started at write position wp *)
BookmarkAccepted(kind, p, wp, c) ==
  /\ p >= wp - c + Gap
  /\ p >= (IF kind = "one" THEN 0 ELSE -1)
  /\ p < wp

(* the events a tail request of n events must deliver before going live: the last n *)
(* retained events (of that resource, for single-resource watches)                   *)
LastN(sq, n) == IF Len(sq) <= n THEN sq ELSE SubSeq(sq, Len(sq) - n + 1, Len(sq))
ExpectedTailOf(lg, kind, i, n, wp, c) ==
  LET window == SubSeq(lg, Retained(wp, c) + 1, wp) IN
  LastN(ViewSeq(kind, i, FALSE, window), n)

=============================================================================
