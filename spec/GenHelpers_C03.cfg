SPECIFICATION GenSpec
CONSTANTS Actors <- A3  Programs <- ProgramsC03
CHECK_DEADLOCK FALSE
