SPECIFICATION Spec
CONSTANTS SlotIds = {1, 2, 3}  KeyPairs = {1, 2}  MaxOps = 7
INVARIANTS LiveSlotsRecover NeverEmptyOnceInitialized TamperDetected
PROPERTIES NoOverwrite LastSlotStays
CHECK_DEADLOCK FALSE
