----------------------------- MODULE MC_Access -----------------------------
(* The complete deny / effect matrix of C08 as a finite set, checked row by row and emitted as JSON. *)
EXTENDS Access, Json, FiniteSetsExt, SequencesExt
VARIABLE x
I(t, i, k) == [typ |-> t, id |-> i, kind |-> k]
(* declarations: flavour, output types, inputs *)
Decls ==
  {[fl |-> "r", outs |-> {"tA"}, ins |-> {I("tB", NoId, "weak")}],
   [fl |-> "r", outs |-> {"tA"}, ins |-> {I("tB", "a", "strong")}],
   [fl |-> "r", outs |-> {},     ins |-> {I("tB", NoId, "strong"), I("tA", "a", "weak")}],
   [fl |-> "r", outs |-> {"tB"}, ins |-> {I("tA", NoId, "destroyReady")}],
   [fl |-> "q", outs |-> {"tA"}, ins |-> {I("tB", NoId, "qPrimary")}],
   [fl |-> "q", outs |-> {"tA"}, ins |-> {I("tB", "a", "qMapped"), I("tB", "b", "qMappedDestroyReady")}],
   [fl |-> "q", outs |-> {},     ins |-> {I("tA", NoId, "qPrimary"), I("tB", NoId, "qMappedDestroyReady")}]}
Ops == ReadOps \cup WriteOps \cup FinOps
Opts(op) == CASE op = "create" -> {"default", "noOwner"}
              [] op = "modify" -> {"default", "noOwner", "phaseAny", "phaseTd"}
              [] op \in {"teardown", "destroy"} -> {"default", "ownerOther"}
              [] OTHER -> {"default"}
Exs == {"absent", "self", "other", "none", "selfFin", "selfTd"}
Rows == UNION {UNION {{[fl |-> d.fl, outs |-> d.outs, ins |-> d.ins, op |-> op, typ |-> t, id |-> i, ex |-> ex, opt |-> o]
                        : t \in {"tA", "tB"}, i \in {"a", "b"}, ex \in Exs, o \in Opts(op)} : op \in Ops} : d \in Decls}
RowJson(r) == [fl |-> r.fl, outs |-> SetToSeq(r.outs), ins |-> SetToSeq(r.ins), op |-> r.op, typ |-> r.typ, id |-> r.id,
               ex |-> r.ex, opt |-> r.opt]
Init == x = 0 /\ PrintT(<<"BEH", ToJson(SetToSeq({RowJson(r) : r \in Rows}))>>)
Next == x' = x
Spec == Init /\ [][Next]_x
MatrixWellDefined == \A r \in Rows : RowOK(r)
NRows == Cardinality(Rows)
=============================================================================
