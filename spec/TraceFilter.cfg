SPECIFICATION Spec
POSTCONDITION Post
CHECK_DEADLOCK FALSE
