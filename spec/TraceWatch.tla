----------------------------- MODULE TraceWatch -----------------------------
(* Trace validation for watch streams (C02, C12, watch part of C14).  A trace  *)
(* is what one driver did to a real collection: committed writes, watch starts *)
(* with their options and outcome, every event every subscriber received, and  *)
(* a closing "end" line written after everything had been drained.  The judge  *)
(* is the property-level vocabulary of WatchProp: every received event must be *)
(* the next element of  start contents ++ view of the committed log after the  *)
(* start position  (exact prefix: nothing dropped, duplicated, reordered,      *)
(* leaked); an Errored event is accepted only if the subscriber lagged by more *)
(* than InitCap committed events, and is terminal; at "end" every subscriber   *)
(* that is not errored has received everything.                                *)
(* All traces of one run share one history configuration (constants).          *)
EXTENDS WatchProp, Json, IOUtils, SequencesExt

TraceLog == ndJsonDeserialize(IOEnv.TRACE)
EnvInitCap == atoi(IOEnv.INITCAP)
EnvMaxCap  == atoi(IOEnv.MAXCAP)
EnvGap     == atoi(IOEnv.GAP)

VARIABLES log, cur, wst, l, tid, bad
tvars == <<log, cur, wst, l, tid, bad>>

Empty == [x \in {} |-> 0]
Put(f, k, v) == [x \in DOMAIN f \cup {k} |-> IF x = k THEN v ELSE f[x]]
Del(f, k)    == [x \in DOMAIN f \ {k} |-> f[x]]
wp == Len(log)

Init == log = <<>> /\ cur = Empty /\ wst = Empty /\ l = 1 /\ tid = "" /\ bad = FALSE

Reject(what, exp, got) ==
  /\ PrintT(<<"MISMATCH", tid, l, what>>)
  /\ PrintT(<<"DETAIL", ToString(exp), ToString(got)>>)
  /\ bad' = TRUE
  /\ UNCHANGED <<log, cur, wst, tid>>

(* ---- committed write: op, id, resulting version and label bit ---- *)
Write(e) ==
  LET old == IF e.id \in DOMAIN cur THEN cur[e.id] ELSE [ver |-> 0, lab |-> FALSE]
      ev == CASE e.op = "create"  -> Ev("created", e.id, e.ver, e.lab, 0, FALSE, wp)
               [] e.op = "update"  -> Ev("updated", e.id, e.ver, e.lab, old.ver, old.lab, wp)
               [] e.op = "destroy" -> Ev("destroyed", e.id, old.ver, old.lab, 0, FALSE, wp)
  IN /\ log' = Append(log, ev)
     /\ cur' = IF e.op = "destroy" THEN Del(cur, e.id) ELSE Put(cur, e.id, [ver |-> e.ver, lab |-> e.lab])
     /\ wst' = [w \in DOMAIN wst |->
                  IF wst[w].status = "active"
                  THEN [wst[w] EXCEPT !.maxlag = IF wp + 1 - wst[w].dpos > @ THEN wp + 1 - wst[w].dpos ELSE @]
                  ELSE wst[w]]
     /\ UNCHANGED <<tid, bad>>

(* ---- watch start ---- *)
SortedIds(S) == SetToSortSeq(S, LAMBDA a, b : a < b)
Bootstrap(filt) ==
  LET ids == {i \in DOMAIN cur : ~filt \/ cur[i].lab}
      sq  == SortedIds(ids)
  IN [k \in 1..Len(sq) |-> Ev("created", sq[k], cur[sq[k]].ver, cur[sq[k]].lab, 0, FALSE, -2)]

Watcher(kind, i, filt, start, pre) ==
  [kind |-> IF kind = "one" THEN "one" ELSE "all", id |-> i, filt |-> filt, start |-> start, pre |-> pre,
   dcount |-> 0, dpos |-> start, maxlag |-> wp - start, status |-> "active",
   remote |-> FALSE, retry |-> TRUE, faults |-> 0, lastbm |-> -2, fwp |-> -1,
   idq |-> {}]      \* non-empty: a kind watch with an ID selector that matches exactly these ids

(* C13: watches through the gRPC client adapter; e.remote / e.retry are optional fields of the start line *)
Remote(e, r) ==
  LET r1 == IF "remote" \in DOMAIN e THEN [r EXCEPT !.remote = e.remote, !.retry = e.retry] ELSE r
  IN IF "idq" \in DOMAIN e /\ e.idq # <<>> THEN [r1 EXCEPT !.idq = ToSet(e.idq), !.pre = SelectSeq(@, LAMBDA x : x.id = 0 \/ x.id \in ToSet(e.idq))] ELSE r1
(* a terminal Errored event of a remote watch is justified by a transport fault only if the stream could not be *)
(* resumed: retries disabled, no bookmark seen yet, or the last bookmark is no longer valid                       *)
ErroredJustified(r) ==
  \/ r.maxlag > InitCap
  \/ r.remote /\ r.faults > 0 /\ (~r.retry \/ r.lastbm < -1 \/ ~BookmarkAccepted(r.kind, r.lastbm, wp, CapAt(wp)))
  (* the resume attempt happened at some write position between the first transport fault and now; with first-lap growth *)
  (* a bookmark that is valid now (larger buffer) may have been too old then (fwp = write position at the first fault)   *)
  \/ r.remote /\ r.faults > 0 /\ r.fwp >= 0 /\ \E x \in r.fwp..wp : ~BookmarkAccepted(r.kind, r.lastbm, x, CapAt(x))

Bb(e) == IF "bb" \in DOMAIN e THEN e.bb ELSE FALSE
Start(e) ==
  LET c == CapAt(wp)
      kd == IF e.kind = "one" THEN "one" ELSE "all"
  IN
  CASE e.mode = "bookmark" ->
         LET mustAccept == e.bm \in {"pos", "synth"} /\ BookmarkAccepted(kd, e.p, wp, c) IN
         IF (e.res = "ok") # mustAccept
         THEN Reject("bookmark-outcome", [accept |-> mustAccept, p |-> e.p, wp |-> wp, cap |-> c], e.res)
         ELSE IF e.res # "ok" /\ e.res # "invalidBookmark"
         THEN Reject("bookmark-error-class", "invalidBookmark", e.res)
         ELSE /\ wst' = IF e.res = "ok"
                        THEN Put(wst, e.w, Remote(e, Watcher(kd, e.id, FALSE, e.p + 1,
                                                             IF Bb(e) THEN <<Ev("noop", 0, 0, FALSE, 0, FALSE, e.p)>> ELSE <<>>)))
                        ELSE wst
              /\ UNCHANGED <<log, cur, tid, bad>>
    [] OTHER ->
         IF e.res # "ok" THEN Reject("start-failed", "ok", e.res)
         ELSE LET pre ==
                CASE e.mode = "default" /\ kd = "one" ->
                       << IF e.id \in DOMAIN cur
                          THEN Ev("created", e.id, cur[e.id].ver, cur[e.id].lab, 0, FALSE, -2)
                          ELSE Ev("destroyed", e.id, 0, FALSE, 0, FALSE, -2) >>
                  [] e.mode = "bootstrap" -> Bootstrap(e.filt) \o <<Ev("bootstrapped", 0, 0, FALSE, 0, FALSE, wp - 1)>>
                  [] e.mode = "bmbootstrap" -> <<Ev("noop", 0, 0, FALSE, 0, FALSE, wp - 1)>>
                  [] e.mode = "tail" -> ExpectedTailOf(log, kd, e.id, e.n, wp, c)
                  [] OTHER -> <<>>
                  (* a tail watch starts READING at the oldest position of its tail (kind watch: wp - min(n, cap - gap);  *)
                  (* single resource: the n-th matching event from the end, or the oldest retained position), so it is   *)
                  (* born with that much lag: a consumer that does not drain the tail before further writes wrap the      *)
                  (* buffer legitimately ends in Errored                                                                   *)
                  ts == IF e.mode # "tail" THEN wp
                        ELSE IF kd = "all" THEN Max(wp - Min(e.n, c - Gap), 0)
                        ELSE IF Len(pre) >= e.n /\ Len(pre) > 0 THEN pre[1].bm ELSE Retained(wp, c)
                  (* BootstrapBookmark with a tail: the initial Noop carries the bookmark right before the first tail position *)
                  w0 == Watcher(kd, e.id, e.filt, wp, IF e.mode = "tail" /\ Bb(e) THEN <<Ev("noop", 0, 0, FALSE, 0, FALSE, ts - 1)>> \o pre ELSE pre)
              IN /\ wst' = Put(wst, e.w, Remote(e, [w0 EXCEPT !.dpos = ts, !.maxlag = wp - ts]))
                 /\ UNCHANGED <<log, cur, tid, bad>>

(* ---- one received event ---- *)
AbsEv(j) == [t |-> j.t, id |-> j.id, ver |-> j.ver, lab |-> j.lab, over |-> j.over, olab |-> j.olab, bm |-> j.bm]
(* an ID selector commutes with the label rewrite (the id of a resource never changes): it simply drops the events of other ids *)
ExpectedOf(r) ==
  LET v == ViewSeq(r.kind, r.id, r.filt, SubSeq(log, r.start + 1, wp))
  IN r.pre \o (IF r.idq = {} THEN v ELSE SelectSeq(v, LAMBDA x : x.id \in r.idq))

Recv(e) ==
  IF e.w \notin DOMAIN wst THEN Reject("recv-unknown-watch", "", e.w)
  ELSE
  LET r == wst[e.w]
      got == AbsEv(e.e)
      exp == ExpectedOf(r)
  IN IF r.status = "errored" THEN Reject("event-after-errored", "", got)
     ELSE IF got.t = "errored"
     THEN IF ErroredJustified(r)
          THEN /\ wst' = [wst EXCEPT ![e.w].status = "errored"] /\ UNCHANGED <<log, cur, tid, bad>>
          ELSE Reject(IF r.remote /\ r.faults > 0 THEN "errored-although-resumable" ELSE "errored-without-lag",
                      [maxlag |-> r.maxlag, initcap |-> InitCap, faults |-> r.faults, lastbm |-> r.lastbm, wp |-> wp], got)
     ELSE IF r.dcount >= Len(exp) THEN Reject("unexpected-event", "nothing", got)
     ELSE IF exp[r.dcount + 1] # got THEN Reject("wrong-event", exp[r.dcount + 1], got)
     ELSE /\ wst' = [wst EXCEPT ![e.w].dcount = @ + 1, ![e.w].lastbm = got.bm,
                                ![e.w].dpos = IF got.bm >= 0 THEN got.bm + 1 ELSE @]
          /\ UNCHANGED <<log, cur, tid, bad>>

(* ---- end of trace: everything was drained, so nothing may be missing ---- *)
End ==
  LET missing == {w \in DOMAIN wst : wst[w].status = "active" /\ wst[w].dcount # Len(ExpectedOf(wst[w]))} IN
  IF missing # {}
  THEN LET w == CHOOSE x \in missing : TRUE IN
       Reject("missing-events", [w |-> w, expected |-> ExpectedOf(wst[w])], wst[w].dcount)
  ELSE UNCHANGED <<log, cur, wst, tid, bad>>

Next ==
  /\ l <= Len(TraceLog)
  /\ l' = l + 1
  /\ LET e == TraceLog[l] IN
       IF e.ev = "reset"
       THEN log' = <<>> /\ cur' = Empty /\ wst' = Empty /\ tid' = e.tid /\ bad' = FALSE
       ELSE IF bad THEN UNCHANGED <<log, cur, wst, tid, bad>>
       ELSE CASE e.ev = "write" -> Write(e)
              [] e.ev = "start" -> Start(e)
              [] e.ev = "recv"  -> Recv(e)
              [] e.ev = "fault" -> /\ wst' = IF e.w \in DOMAIN wst THEN [wst EXCEPT ![e.w].faults = @ + 1, ![e.w].fwp = IF @ < 0 THEN wp ELSE @] ELSE wst
                                   /\ UNCHANGED <<log, cur, tid, bad>>
              [] e.ev = "end"   -> End
              [] OTHER -> UNCHANGED <<log, cur, wst, tid, bad>>

Spec == Init /\ [][Next]_tvars
Consumed == TLCGet("stats").diameter - 1
Post == PrintT(<<"CONSUMED", Consumed>>) /\ Consumed = Len(TraceLog)
=============================================================================
