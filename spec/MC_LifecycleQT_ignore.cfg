SPECIFICATION Spec
CONSTANTS MaxExt = 6  IgnoreUntil = TRUE  AllowedFins = {}
INVARIANTS FinBeforeOut
CHECK_DEADLOCK FALSE
