SPECIFICATION Spec
CONSTANTS MaxExt = 6  IgnoreUntil = TRUE  AllowedFins = {}  Extra = FALSE
INVARIANTS FinBeforeOut
CHECK_DEADLOCK FALSE
