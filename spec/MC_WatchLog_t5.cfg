SPECIFICATION Spec
CONSTANTS InitCap = 2  MaxCap = 4  Gap = 1  Ids = {1}  MaxPub = 5  W = {1, 2}  Tails = {2}  BBs = {FALSE}
INVARIANTS RingCorrect NoBadDelivery ErroredOnlyIfLagged QuietComplete RecentBookmarksAccepted AcceptedBookmarkRetained
CHECK_DEADLOCK FALSE
