SPECIFICATION Spec
CONSTANTS Ids = {"a", "b"}  Specs = {1, 2}  MaxOps = 6
INVARIANTS OneLivePerId LiveAreRegistered
PROPERTIES ReconcileExact EqualSpecKeepsInstance StopAllStopsEverything
CHECK_DEADLOCK FALSE
