----------------------------- MODULE TraceFilter -----------------------------
EXTENDS Filter, Integers, Sequences, Json, IOUtils
TraceLog == ndJsonDeserialize(IOEnv.TRACE)
VARIABLES l, nbad
Init == l = 1 /\ nbad = 0
What(e) ==
  IF e.ncalls # 1 THEN "rule-not-consulted-exactly-once"
  ELSE IF [ns |-> e.acc.ns, typ |-> e.acc.typ, id |-> e.acc.id, verb |-> e.acc.verb] # AccessOf(e.op, e.k) THEN "rule-saw-wrong-access"
  ELSE IF Deny(AccessOf(e.op, e.k)) /\ e.ninner # 0 THEN "denied-call-reached-the-state"
  ELSE IF Deny(AccessOf(e.op, e.k)) THEN "denied-call-not-rejected-with-the-rule-error"
  ELSE "allowed-call-not-transparent"
Check(e) ==
  IF e.ev # "call" THEN nbad' = nbad
  ELSE IF CallOK(e.op, e.k, [ns |-> e.acc.ns, typ |-> e.acc.typ, id |-> e.acc.id, verb |-> e.acc.verb], e.ncalls, e.ninner, e.cls, e.innercls)
  THEN nbad' = nbad
  ELSE PrintT(<<"MISMATCH", e.tid, l, What(e)>>) /\ PrintT(<<"DETAIL", ToString(AccessOf(e.op, e.k)), ToString(e)>>) /\ nbad' = nbad + 1
Next == l <= Len(TraceLog) /\ l' = l + 1 /\ Check(TraceLog[l])
Spec == Init /\ [][Next]_<<l, nbad>>
Consumed == TLCGet("stats").diameter - 1
Post == PrintT(<<"CONSUMED", Consumed>>) /\ Consumed = Len(TraceLog)
=============================================================================
