SPECIFICATION Spec
CONSTANTS Kinds = {"K1", "K2"}  Ids = {1}  Ctrls = {"q", "s"}  Cfg <- CfgC  Alt <- AltNoneQS  Cached = {"K1"}  MaxWrites = 4  MaxFaults = 0  Noops = FALSE  MapTo <- MapSame
INVARIANTS NoLostWakeup MappedReachesPrimaries CacheCoherentWhenQuiet
CHECK_DEADLOCK FALSE
