-------------------------- MODULE TraceTaskRunner --------------------------
(* Judge for the task-runner driver: every line is one command executed on a real task.Runner with, after enough    *)
(* virtual time for every restart back-off to pass, the set of task instances whose body is being executed.         *)
EXTENDS TaskRunner, Json, IOUtils, Sequences, SequencesExt
TraceLog == ndJsonDeserialize(IOEnv.TRACE)
VARIABLES l, bad, tid
tvars == <<vars, l, bad, tid>>
TInit == Init /\ l = 1 /\ bad = FALSE /\ tid = ""
AbsLive(js) == {[id |-> j.id, spec |-> j.spec, inst |-> j.inst] : j \in ToSet(js)}
AbsShould(js) == [id \in {j.id : j \in ToSet(js)} |-> (CHOOSE j \in ToSet(js) : j.id = id).spec]
Act(e) ==
  CASE e.c = "start" -> StartTask(e.id, e.spec)
    [] e.c = "stop" -> StopTask(e.id)
    [] e.c = "reconcile" -> Reconcile(AbsShould(e.should))
    [] e.c = "stopall" -> StopAll
    [] e.c \in {"finish", "fail", "panic"} ->
         IF \E x \in live : x.id = e.id
         THEN LET x == CHOOSE y \in live : y.id = e.id IN IF e.c = "finish" THEN Finish(x) ELSE Fail(x)
         ELSE Step([op |-> "noop"]) /\ UNCHANGED <<reg, live>>
What(e) ==
  LET got == AbsLive(e.live) IN
  IF \E x \in got \ live' : \E y \in got : y # x /\ y.id = x.id THEN "two-instances-of-one-task"
  ELSE IF \E x \in got \ live' : x.id \notin DOMAIN reg' \/ reg'[x.id].inst # x.inst THEN "task-survived-its-stop"
  ELSE IF \E x \in live' \ got : \E y \in got : y.id = x.id THEN "task-restarted-although-spec-equal-or-wrong-instance"
  ELSE IF live' \ got # {} THEN "task-not-running"
  ELSE "unexpected-task-running"
Line(e) ==
  IF e.ev = "reset" THEN /\ reg' = Empty /\ live' = {} /\ nops' = 0 /\ last' = [op |-> "init"] /\ bad' = FALSE /\ tid' = e.tid
  ELSE IF bad THEN UNCHANGED <<vars, bad, tid>>
  ELSE IF e.ev = "end"
       THEN IF e.leaked # 0 THEN PrintT(<<"MISMATCH", tid, l, "goroutines-leaked-after-stop">>) /\ PrintT(<<"DETAIL", "0", ToString(e.leaked)>>)
                                 /\ bad' = TRUE /\ UNCHANGED <<vars, tid>>
            ELSE UNCHANGED <<vars, bad, tid>>
  ELSE /\ Act(e) /\ UNCHANGED tid
       /\ IF live' = AbsLive(e.live) THEN bad' = FALSE
          ELSE /\ PrintT(<<"MISMATCH", tid, l, What(e)>>)
               /\ PrintT(<<"DETAIL", ToString([cmd |-> e.c, expected |-> live']), ToString(AbsLive(e.live))>>)
               /\ bad' = TRUE
TNext == l <= Len(TraceLog) /\ l' = l + 1 /\ Line(TraceLog[l])
TSpec == TInit /\ [][TNext]_tvars
Consumed == TLCGet("stats").diameter - 1
Post == PrintT(<<"CONSUMED", Consumed>>) /\ Consumed = Len(TraceLog)
=============================================================================
