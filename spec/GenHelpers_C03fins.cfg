SPECIFICATION GenSpec
CONSTANTS Actors <- A3  Programs <- ProgramsFins
CHECK_DEADLOCK FALSE
