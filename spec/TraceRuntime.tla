---------------------------- MODULE TraceRuntime ----------------------------
(***************************************************************************)
(* Property-level judge for the controller runtime (C05, C15, C16):        *)
(* the trace lists committed writes, which controllers exist with which    *)
(* inputs, what every reconcile read for its inputs, mapper invocations,   *)
(* cached/uncached read pairs of free-running readers, and "quiet" points  *)
(* (nothing moved during a long virtual-time window).  At every quiet      *)
(* point each controller must have observed the current state of its       *)
(* inputs (destroy-ready inputs: of every resource currently tearing down  *)
(* without finalizers), every mapped change must have reached the          *)
(* primaries its mapper names, and cached reads must equal uncached reads. *)
(***************************************************************************)
EXTENDS Integers, Sequences, FiniteSets, TLC, Json, IOUtils, SequencesExt

TraceLog == ndJsonDeserialize(IOEnv.TRACE)
NoId == 0
Absent == [ver |-> 0, td |-> FALSE, fe |-> TRUE]
Val(j) == [ver |-> j.ver, td |-> j.td, fe |-> j.fe]
Key(j) == [k |-> j.k, id |-> j.id]
DestroyReady(v) == v.td /\ v.fe
(* the mapper of the probe queue controllers: same id, primary kind K1 *)
MapTo(key) == {[k |-> "K1", id |-> key.id]}

VARIABLES store, cfg, robs, qobs, need, lastRead, life, l, tid, bad
tvars == <<store, cfg, robs, qobs, need, lastRead, life, l, tid, bad>>
Life0 == [cancelled |-> FALSE, werr |-> FALSE, ret |-> "none"]
Empty == [x \in {} |-> 0]
Put(f, k, v) == [x \in DOMAIN f \cup {k} |-> IF x = k THEN v ELSE f[x]]
Get(f, k, d) == IF k \in DOMAIN f THEN f[k] ELSE d

Init == store = Empty /\ cfg = Empty /\ robs = Empty /\ qobs = Empty /\ need = Empty /\ lastRead = Empty /\ life = Life0
        /\ l = 1 /\ tid = "" /\ bad = FALSE
Reject(what, exp, got) ==
  /\ PrintT(<<"MISMATCH", tid, l, what>>) /\ PrintT(<<"DETAIL", ToString(exp), ToString(got)>>)
  /\ bad' = TRUE /\ UNCHANGED <<store, cfg, robs, qobs, need, lastRead, life, tid>>
Keep == UNCHANGED <<tid, bad, life>>

Matches(i, key) == i.k = key.k /\ (i.id = NoId \/ i.id = key.id)
QCs == {c \in DOMAIN cfg : cfg[c].fl = "q"}

Cfg(e) == /\ cfg' = Put(cfg, e.c, [fl |-> e.fl, ins |-> {[k |-> i.k, id |-> i.id, ik |-> i.ik] : i \in ToSet(e.ins)}])
          /\ robs' = IF e.c \in DOMAIN robs THEN robs ELSE Put(robs, e.c, Empty)     \* a repeated cfg line = UpdateInputs
          /\ qobs' = IF e.c \in DOMAIN qobs THEN qobs ELSE Put(qobs, e.c, Empty)
          /\ need' = IF e.c \in DOMAIN need THEN need ELSE Put(need, e.c, {})
          /\ UNCHANGED <<store, lastRead>> /\ Keep

Write(e) ==
  LET key == Key(e)
      nv == IF e.del THEN Absent ELSE Val(e)
  IN /\ store' = Put(store, key, nv)
     /\ need' = [c \in DOMAIN need |->
                   IF c \in QCs
                   THEN need[c]
                        \cup (IF \E i \in cfg[c].ins : i.k = key.k /\ i.ik = "qMapped"
                              THEN {[p |-> p, src |-> key, dr |-> FALSE] : p \in MapTo(key)} ELSE {})
                        \cup (IF ~e.del /\ DestroyReady(nv) /\ \E i \in cfg[c].ins : i.k = key.k /\ i.ik = "qMappedDestroyReady"
                              THEN {[p |-> p, src |-> key, dr |-> TRUE] : p \in MapTo(key)} ELSE {})
                   ELSE need[c]]
     (* teardown-bound contexts of this resource (kept in lastRead under negative reader numbers, see CCtx): the resource is *)
     (* torn down or removed => they have to be cancelled                                                                       *)
     /\ lastRead' = [x \in DOMAIN lastRead |->
                       IF x[1] < 0 /\ x[2] = key /\ (e.del \/ e.td) THEN [lastRead[x] EXCEPT !.ver = 1] ELSE lastRead[x]]
     /\ UNCHANGED <<cfg, robs, qobs>> /\ Keep

(* C15: a teardown-bound context handed out by the cached state for a resource: handle n is remembered as reader -n of that    *)
(* key; ver = 1 once the resource has been torn down / removed (or was already, or was absent, when the context was handed out) *)
CCtx(e) ==
  LET cur == Get(store, Key(e), Absent) IN
  /\ lastRead' = Put(lastRead, <<0 - e.n, Key(e)>>, [ver |-> IF cur.ver = 0 \/ cur.td THEN 1 ELSE 0, inc |-> 0])
  /\ UNCHANGED <<store, cfg, robs, qobs, need>> /\ Keep
(* its state when the system has gone quiet: cancelled exactly if the resource was torn down, removed or absent *)
CCtxState(e) ==
  LET h == <<0 - e.n, Key(e)>> IN
  IF h \notin DOMAIN lastRead THEN UNCHANGED <<store, cfg, robs, qobs, need, lastRead>> /\ Keep
  ELSE IF lastRead[h].ver = 1 /\ ~e.err THEN Reject("cached-ctx-not-cancelled", [key |-> Key(e), store |-> Get(store, Key(e), Absent)], "still alive")
  ELSE IF lastRead[h].ver = 0 /\ e.err THEN Reject("cached-ctx-cancelled-spuriously", [key |-> Key(e), store |-> Get(store, Key(e), Absent)], "cancelled")
  ELSE UNCHANGED <<store, cfg, robs, qobs, need, lastRead>> /\ Keep

(* a reduced-runtime reconcile read all its inputs *)
RRec(e) ==
  IF e.c \notin DOMAIN cfg THEN Reject("reconcile-of-unknown-controller", "", e.c)
  ELSE /\ robs' = [robs EXCEPT ![e.c] = [key \in DOMAIN robs[e.c] \cup {Key(o) : o \in ToSet(e.obs)} |->
                     IF \E o \in ToSet(e.obs) : Key(o) = key THEN Val(CHOOSE o \in ToSet(e.obs) : Key(o) = key) ELSE robs[e.c][key]]]
       /\ UNCHANGED <<store, cfg, qobs, need, lastRead>> /\ Keep

QRec(e) ==
  IF e.c \notin DOMAIN cfg THEN Reject("reconcile-of-unknown-controller", "", e.c)
  ELSE /\ qobs' = [qobs EXCEPT ![e.c] = Put(@, Key(e), Val(e))]
       /\ need' = [need EXCEPT ![e.c] = {x \in @ : x.p # Key(e)}]
       /\ UNCHANGED <<store, cfg, robs, lastRead>> /\ Keep

(* C15: a cached read never goes backwards for a resource (within one incarnation it is version-monotone) *)
CRead(e) ==
  LET key == <<e.reader, Key(e)>>
      prev == Get(lastRead, key, [ver |-> 0, inc |-> 0])
  IN IF e.inc = prev.inc /\ e.ver < prev.ver /\ e.ver # 0
     THEN Reject("cached-read-went-backwards", prev, [ver |-> e.ver, inc |-> e.inc])
     ELSE lastRead' = Put(lastRead, key, [ver |-> e.ver, inc |-> e.inc]) /\ UNCHANGED <<store, cfg, robs, qobs, need>> /\ Keep

AllKeys == DOMAIN store
StoreVal(key) == Get(store, key, Absent)
RObservedBad(c) ==
  {key \in AllKeys : \E i \in cfg[c].ins : Matches(i, key) /\
      LET seen == Get(robs[c], key, Absent)
          mustSee == \E j \in cfg[c].ins : Matches(j, key) /\ (j.ik = "destroyReady" => (StoreVal(key).ver > 0 /\ DestroyReady(StoreVal(key))))
      IN mustSee /\ seen # StoreVal(key)}
QObservedBad(c) ==
  {key \in AllKeys : (\E i \in cfg[c].ins : i.ik = "qPrimary" /\ i.k = key.k) /\
      (StoreVal(key).ver > 0 \/ Get(qobs[c], key, Absent).ver > 0) /\ Get(qobs[c], key, Absent) # StoreVal(key)}
NeedBad(c) == {x \in need[c] : ~(x.dr /\ ~(StoreVal(x.src).ver > 0 /\ DestroyReady(StoreVal(x.src))))}

Quiet(e) ==
  LET rbad == {c \in DOMAIN cfg : cfg[c].fl = "r" /\ RObservedBad(c) # {}}
      qbad == {c \in QCs : QObservedBad(c) # {}}
      nbad == {c \in QCs : NeedBad(c) # {}}
  IN IF rbad # {} THEN LET c == CHOOSE x \in rbad : TRUE IN
                       Reject("lost-wakeup", [c |-> c, keys |-> RObservedBad(c), store |-> store], robs[c])
     ELSE IF qbad # {} THEN LET c == CHOOSE x \in qbad : TRUE IN
                       Reject("lost-wakeup-queue", [c |-> c, keys |-> QObservedBad(c), store |-> store], qobs[c])
     ELSE IF nbad # {} THEN LET c == CHOOSE x \in nbad : TRUE IN
                       Reject("mapped-change-not-propagated", [c |-> c, need |-> NeedBad(c)], qobs[c])
     ELSE IF \E r \in ToSet(e.cached) : Val(r) # StoreVal(Key(r))
     THEN Reject("cache-incoherent-when-quiet", store, e.cached)
     ELSE UNCHANGED <<store, cfg, robs, qobs, need, lastRead>> /\ Keep

(* C16: loud failure and clean shutdown *)
Life(e) ==
  CASE e.ev = "cancel"   -> life' = [life EXCEPT !.cancelled = TRUE] /\ UNCHANGED <<store, cfg, robs, qobs, need, lastRead, tid, bad>>
    [] e.ev = "watcherr" -> life' = [life EXCEPT !.werr = TRUE] /\ UNCHANGED <<store, cfg, robs, qobs, need, lastRead, tid, bad>>
    [] e.ev = "runret"   -> life' = [life EXCEPT !.ret = IF e.err THEN "err" ELSE "ok"] /\ UNCHANGED <<store, cfg, robs, qobs, need, lastRead, tid, bad>>
    [] e.ev = "leak"     -> IF e.n > 0 THEN Reject("goroutine-leak-after-run-returned", 0, e.note)
                            ELSE UNCHANGED <<store, cfg, robs, qobs, need, lastRead, life, tid, bad>>
    [] e.ev = "end" ->
         IF (life.cancelled \/ life.werr) /\ life.ret = "none" THEN Reject("run-did-not-return", life, "still running")
         ELSE IF life.werr /\ ~life.cancelled /\ life.ret # "err" THEN Reject("watch-error-not-returned", "error", life.ret)
         ELSE IF life.cancelled /\ ~life.werr /\ life.ret = "err" THEN Reject("error-returned-on-cancel", "nil", life.ret)
         ELSE UNCHANGED <<store, cfg, robs, qobs, need, lastRead, life, tid, bad>>

Next ==
  /\ l <= Len(TraceLog) /\ l' = l + 1
  /\ LET e == TraceLog[l] IN
       IF e.ev = "reset" THEN /\ store' = Empty /\ cfg' = Empty /\ robs' = Empty /\ qobs' = Empty /\ need' = Empty /\ lastRead' = Empty
                              /\ tid' = e.tid /\ bad' = FALSE /\ life' = Life0
       ELSE IF bad THEN UNCHANGED <<store, cfg, robs, qobs, need, lastRead, life, tid, bad>>
       ELSE IF life.ret # "none" /\ e.ev \in {"rrec", "qrec", "qmap"} THEN Reject("activity-after-run-returned", life, e.ev)
       ELSE IF e.ev \in {"cancel", "watcherr", "runret", "leak", "end"} THEN Life(e)
       ELSE CASE e.ev = "cfg" -> Cfg(e)
              [] e.ev = "write" -> Write(e)
              [] e.ev = "rrec" -> RRec(e)
              [] e.ev = "qrec" -> QRec(e)
              [] e.ev = "cread" -> CRead(e)
              [] e.ev = "cctx" -> CCtx(e)
              [] e.ev = "cctxstate" -> CCtxState(e)
              [] e.ev = "quiet" -> Quiet(e)
              [] e.ev = "violation" -> Reject(e.what, "", e.note)
              [] OTHER -> UNCHANGED <<store, cfg, robs, qobs, need, lastRead, life, tid, bad>>
Spec == Init /\ [][Next]_tvars
Consumed == TLCGet("stats").diameter - 1
Post == PrintT(<<"CONSUMED", Consumed>>) /\ Consumed = Len(TraceLog)
=============================================================================
