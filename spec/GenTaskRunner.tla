--------------------------- MODULE GenTaskRunner ---------------------------
(* Command sequences for the task-runner driver: weighted random walks of TaskRunner. *)
EXTENDS TaskRunner, Json, IOUtils, Sequences, SequencesExt
VARIABLES hist, done
gvars == <<vars, hist, done>>
GenDepth == IF "GEN_DEPTH" \in DOMAIN IOEnv THEN atoi(IOEnv.GEN_DEPTH) ELSE 20
Classes == <<"start", "start", "stop", "reconcile", "reconcile", "reconcile", "finish", "fail", "fail", "panic", "stopall">>
GenInit == Init /\ hist = <<>> /\ done = FALSE
Pick(S) == RandomElement(S)
GenStep ==
  \E cl \in {Classes[RandomElement(1..Len(Classes))]}, id \in {Pick(Ids)}, sp \in {Pick(Specs)}, sh \in {Pick(Shoulds)} :
    /\ UNCHANGED done
    /\ IF cl = "start" THEN StartTask(id, sp) /\ hist' = Append(hist, [c |-> "start", id |-> id, spec |-> sp, should |-> <<>>])
       ELSE IF cl = "stop" THEN StopTask(id) /\ hist' = Append(hist, [c |-> "stop", id |-> id, spec |-> 0, should |-> <<>>])
       ELSE IF cl = "reconcile" THEN Reconcile(sh) /\ hist' = Append(hist, [c |-> "reconcile", id |-> "", spec |-> 0, should |-> SetToSeq({[id |-> i, spec |-> sh[i]] : i \in DOMAIN sh})])
       ELSE IF cl = "stopall" /\ RandomElement(1..3) = 1 THEN StopAll /\ hist' = Append(hist, [c |-> "stopall", id |-> "", spec |-> 0, should |-> <<>>])
       ELSE IF cl \in {"finish", "fail", "panic"} /\ \E x \in live : x.id = id
            THEN LET x == CHOOSE y \in live : y.id = id IN
                 (IF cl = "finish" THEN Finish(x) ELSE Fail(x)) /\ hist' = Append(hist, [c |-> cl, id |-> id, spec |-> 0, should |-> <<>>])
       ELSE StartTask(id, sp) /\ hist' = Append(hist, [c |-> "start", id |-> id, spec |-> sp, should |-> <<>>])
Finish2 == ~done /\ PrintT(<<"BEH", ToJson(hist)>>) /\ done' = TRUE /\ UNCHANGED <<vars, hist>>
GenNext == IF Len(hist) >= GenDepth THEN Finish2 ELSE ~done /\ GenStep
GenSpec == GenInit /\ [][GenNext]_gvars
=============================================================================
