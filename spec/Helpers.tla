------------------------------- MODULE Helpers -------------------------------
(***************************************************************************)
(* Implementation-level model of the lifecycle helpers of pkg/state/wrap.go *)
(* (C03, C04): every helper is a small process whose steps are its          *)
(* underlying CoreState calls (Get, Update with the version it read, Create,*)
(* Destroy, Watch establishment) and the deliveries of its watch.  Several  *)
(* actors run programs (sequences of helper calls / core calls) on ONE      *)
(* resource; TLC explores every interleaving.                               *)
(*                                                                         *)
(* Ghost variables (nw, effFins, sawGone, skipped) exist only to state the  *)
(* properties; they never influence behaviour.                              *)
(***************************************************************************)
EXTENDS Integers, Sequences, FiniteSets, TLC

CONSTANTS Actors,      \* set of actor ids
          Programs     \* set of functions Actors -> Seq(call); chosen at Init

(* a call: [h, tok, fin, owner, exp, cond]                                          *)
(*  h \in {"uwc","modify","addfin","remfin","teardown","tad","watchfor","ctx",       *)
(*         "create","destroy"}                                                       *)
(*  owner: owner option; exp: expected phase for uwc ("running","tearingDown","any") *)
(*  cond \in {"finsEmpty","tearingDown","destroyed","any"} for watchfor              *)

VARIABLES store,   \* the resource: [ver, owner, phase, fins, toks]; ver = 0 <=> absent
          prog, pi, pc, loc,   \* programs, index of the current call, label, locals
          wact, wq,            \* per actor: watch active?, queue of undelivered events
          ret,                 \* result of the last finished call of each actor
          cancelled,           \* teardown-bound context of the actor cancelled
          ninc,                \* ghost: number of incarnations created so far (value field inc)
          nw, bad              \* ghosts: successful writes of the current call; a return broke its obligation

vars == <<store, prog, pi, pc, loc, wact, wq, ret, cancelled, ninc, nw, bad>>

Absent == [ver |-> 0, owner |-> "", phase |-> "running", fins |-> {}, toks |-> {}, inc |-> 0]
Exists == store.ver > 0

NoCall == [h |-> "none", tok |-> "", fin |-> "", owner |-> "", exp |-> "any", cond |-> "any"]
Cur(a) == IF pi[a] <= Len(prog[a]) THEN prog[a][pi[a]] ELSE NoCall

Ev(t, v) == [t |-> t, v |-> v]

(* a committed change is appended to every active watch queue (FIFO, in commit order) *)
Publish(ev) == wq' = [a \in Actors |-> IF wact[a] THEN Append(wq[a], ev) ELSE wq[a]]

(* the mutation a read-modify-write call applies to the value it read *)
Mut(c, v) ==
  CASE c.h \in {"uwc", "modify"} -> [v EXCEPT !.toks = @ \cup {c.tok}]
    [] c.h = "addfin"   -> [v EXCEPT !.fins = @ \cup {c.fin}]
    [] c.h = "remfin"   -> [v EXCEPT !.fins = @ \ {c.fin}]
    [] c.h \in {"teardown", "tad"} -> [v EXCEPT !.phase = "tearingDown"]
    [] OTHER -> v

(* options the helper passes to the conflict-retrying update *)
UwcOwner(a, c) == IF c.h \in {"addfin", "remfin"} THEN loc[a].owner0 ELSE c.owner
(* Teardown marks the resource whatever phase it is in by then: a Teardown that loses the race against another one is a no-op, *)
(* not a phase conflict (defect 18, repaired in the code)                                                                      *)
UwcExp(c)   == CASE c.h \in {"addfin", "remfin", "teardown", "tad"} -> "any"
                 [] c.h = "modify" -> "running"
                 [] OTHER -> c.exp

Locals == [cur |-> Absent, owner0 |-> "", new |-> Absent]
Res(cls, val, ready) == [cls |-> cls, val |-> val, ready |-> ready]

(* obligations of a returning call (C04: applied exactly once / no effect; C03: honest readiness, *)
(* success of TeardownAndDestroy only once the resource is gone)                                   *)
RetOK(c, r, nwv, eff, gone) ==
  (* an error needs its justification: only a call that expects a phase may report a phase conflict *)
  /\ (r.cls = "phaseconflict" => UwcExp(c) # "any")
  /\ CASE c.h \in {"uwc", "modify", "addfin", "remfin"} ->
         IF r.cls = "ok" THEN nwv <= 1 /\ Mut(c, r.val) = r.val ELSE nwv = 0
    [] c.h = "teardown" ->
         IF r.cls = "ok" THEN nwv <= 1 /\ (r.ready => eff = {}) ELSE nwv = 0
    [] c.h = "tad" -> r.cls = "ok" => gone
    [] OTHER -> TRUE

(* finish the current call with result r *)
Return(a, r, nwv, eff, gone) ==
  /\ ret' = [ret EXCEPT ![a] = r]
  /\ pi' = [pi EXCEPT ![a] = @ + 1]
  /\ pc' = [pc EXCEPT ![a] = "start"]
  /\ loc' = [loc EXCEPT ![a] = Locals]
  /\ wact' = [wact EXCEPT ![a] = FALSE]
  /\ bad' = (bad \/ ~RetOK(Cur(a), r, nwv, eff, gone))
  /\ nw' = [nw EXCEPT ![a] = 0]

Fail(a, cls) == Return(a, Res(cls, Absent, FALSE), nw[a], {"?"}, FALSE)
Goto(a, l) == pc' = [pc EXCEPT ![a] = l] /\ UNCHANGED <<pi, ret, wact, bad>>

----------------------------------------------------------------------------
(* core calls used by interfering actors *)
CoreCreate(a) ==
  LET c == Cur(a)
      v == [ver |-> 1, owner |-> c.owner, phase |-> "running", fins |-> {}, toks |-> {}, inc |-> ninc + 1]
  IN
  /\ c.h = "create" /\ pc[a] = "start"
  /\ IF Exists
     THEN Fail(a, "conflict") /\ UNCHANGED <<store, wq>>
     ELSE store' = v /\ Publish(Ev("created", v)) /\ Return(a, Res("ok", v, FALSE), 0, {"?"}, FALSE)
  /\ ninc' = IF Exists THEN ninc ELSE ninc + 1
  /\ UNCHANGED <<prog, cancelled>>

DestroyOutcome(owner) ==
  IF ~Exists THEN "notfound"
  ELSE IF store.owner # owner THEN "ownerconflict"
  ELSE IF store.fins # {} THEN "conflict" ELSE "ok"

(* Destroy as the last step of a call (core destroy, or the destroy inside TeardownAndDestroy) *)
DestroyStep(a) ==
  LET o == DestroyOutcome(Cur(a).owner) IN
  /\ \/ Cur(a).h = "destroy" /\ pc[a] = "start"
     \/ pc[a] = "tad_destroy"
  /\ IF o = "ok" THEN store' = Absent /\ Publish(Ev("destroyed", store)) ELSE UNCHANGED <<store, wq>>
  /\ Return(a, Res(o, Absent, FALSE), nw[a], {"?"}, o = "ok")
  /\ UNCHANGED <<prog, cancelled, ninc>>

----------------------------------------------------------------------------
(* continuation once the conflict-retrying update produced value val (nwv writes so far) *)
AfterUwc(a, c, val, nwv) ==
  CASE c.h = "teardown" -> Return(a, Res("ok", val, val.fins = {}), nwv, val.fins, FALSE)
    [] c.h = "tad" -> /\ Goto(a, IF val.fins = {} THEN "tad_destroy" ELSE "tad_watch")
                      /\ nw' = [nw EXCEPT ![a] = nwv] /\ UNCHANGED loc
    [] OTHER -> Return(a, Res("ok", val, FALSE), nwv, {"?"}, FALSE)

(* first Get of every read-modify-write helper *)
FirstGet(a) ==
  LET c == Cur(a) IN
  /\ c.h \in {"uwc", "modify", "addfin", "remfin", "teardown", "tad"} /\ pc[a] = "start"
  /\ UNCHANGED <<store, wq, prog, cancelled, ninc>>
  /\ IF ~Exists
     THEN IF c.h = "modify"
          THEN Goto(a, "mod_create") /\ UNCHANGED <<loc, nw>>
          ELSE Fail(a, "notfound")
     ELSE CASE c.h = "uwc" ->   \* UpdateWithConflicts: this Get is already the first iteration
                 Goto(a, "uwc_got") /\ loc' = [loc EXCEPT ![a].cur = store] /\ UNCHANGED nw
            [] c.h \in {"addfin", "remfin"} ->
                 Goto(a, "uwc_get") /\ loc' = [loc EXCEPT ![a].owner0 = store.owner] /\ UNCHANGED nw
            [] c.h = "modify" ->
                 Goto(a, "uwc_get") /\ UNCHANGED <<loc, nw>>
            [] OTHER ->   \* teardown, tad
                 IF store.phase = "tearingDown"
                 THEN AfterUwc(a, c, store, 0)     \* already tearing down: readiness from this read
                 ELSE Goto(a, "uwc_get") /\ UNCHANGED <<loc, nw>>

(* UpdateWithConflicts loop: Get *)
UwcGet(a) ==
  /\ pc[a] = "uwc_get"
  /\ UNCHANGED <<store, wq, prog, cancelled, ninc>>
  /\ IF ~Exists THEN Fail(a, "notfound")
     ELSE Goto(a, "uwc_got") /\ loc' = [loc EXCEPT ![a].cur = store] /\ UNCHANGED nw

(* local computation after the Get: phase pre-check, mutate, no-op shortcut *)
UwcGot(a) ==
  LET c == Cur(a)
      cur == loc[a].cur
      new == Mut(c, cur)
  IN
  /\ pc[a] = "uwc_got"
  /\ UNCHANGED <<store, wq, prog, cancelled, ninc>>
  /\ IF UwcExp(c) # "any" /\ cur.phase # UwcExp(c)
     THEN Fail(a, "phaseconflict")            \* named deviation: conflict from the pre-check
     ELSE IF new = cur
     THEN AfterUwc(a, c, cur, nw[a])          \* no-op: return without writing
     ELSE Goto(a, "uwc_upd") /\ loc' = [loc EXCEPT ![a].new = new] /\ UNCHANGED nw

(* UpdateWithConflicts loop: Update with the version that was read *)
UwcUpd(a) ==
  LET c == Cur(a)
      cur == loc[a].cur
      new == [loc[a].new EXCEPT !.ver = cur.ver + 1, !.inc = store.inc]   \* inc is a ghost: it follows the store
      o == IF ~Exists THEN "notfound"
           ELSE IF store.owner # UwcOwner(a, c) THEN "ownerconflict"
           ELSE IF store.ver # cur.ver THEN "conflict"
           ELSE IF UwcExp(c) # "any" /\ store.phase # UwcExp(c) THEN "phaseconflict"
           ELSE "ok"
  IN
  /\ pc[a] = "uwc_upd"
  /\ UNCHANGED <<prog, cancelled, ninc>>
  /\ CASE o = "ok" ->
            /\ store' = new /\ Publish(Ev("updated", new))
            /\ AfterUwc(a, c, new, nw[a] + 1)
       [] o = "conflict" ->       \* plain version conflict: retry from the Get
            /\ Goto(a, "uwc_get") /\ UNCHANGED <<store, wq, loc, nw>>
       [] OTHER ->                \* not-found, owner conflict, phase conflict: never retried
            /\ Fail(a, o) /\ UNCHANGED <<store, wq>>

(* Modify on a missing resource: Create *)
ModCreate(a) ==
  LET c == Cur(a)
      v == [ver |-> 1, owner |-> c.owner, phase |-> "running", fins |-> {}, toks |-> {c.tok}, inc |-> ninc + 1]
  IN
  /\ pc[a] = "mod_create"
  /\ ninc' = IF Exists THEN ninc ELSE ninc + 1
  /\ UNCHANGED <<prog, cancelled>>
  /\ IF Exists
     THEN Fail(a, "conflict") /\ UNCHANGED <<store, wq>>
     ELSE store' = v /\ Publish(Ev("created", v)) /\ Return(a, Res("ok", v, FALSE), nw[a] + 1, {"?"}, FALSE)

(* watch establishment: the current state is captured atomically with the subscription *)
WatchStart(a) ==
  /\ \/ Cur(a).h \in {"watchfor", "ctx"} /\ pc[a] = "start"
     \/ pc[a] = "tad_watch"
  /\ wact' = [wact EXCEPT ![a] = TRUE]
  /\ wq' = [wq EXCEPT ![a] = << IF Exists THEN Ev("created", store) ELSE Ev("destroyed", Absent) >>]
  /\ pc' = [pc EXCEPT ![a] = IF pc[a] = "tad_watch" THEN "tad_wait" ELSE "wait"]
  /\ UNCHANGED <<store, prog, pi, loc, ret, cancelled, ninc, nw, bad>>

Matches(cond, ev) ==
  CASE cond = "finsEmpty"   -> ev.t # "destroyed" /\ ev.v.fins = {}
    [] cond = "tearingDown" -> ev.t # "destroyed" /\ ev.v.phase = "tearingDown"
    [] cond = "destroyed"   -> ev.t = "destroyed"
    [] OTHER -> TRUE

Stay(a) == UNCHANGED <<pi, pc, loc, wact, ret, cancelled, nw, bad>>

(* one watch delivery to the helper that owns the watch *)
WatchDeliver(a) ==
  LET c == Cur(a)
      ev == Head(wq[a])
  IN
  /\ wact[a] /\ wq[a] # <<>> /\ pc[a] \in {"wait", "tad_wait"}
  /\ wq' = [wq EXCEPT ![a] = Tail(@)]
  /\ UNCHANGED <<store, prog, ninc>>
  /\ CASE pc[a] = "tad_wait" ->
            IF ev.t = "destroyed"
            THEN Return(a, Res("ok", Absent, FALSE), nw[a], {"?"}, TRUE) /\ UNCHANGED cancelled
            ELSE IF ev.v.fins = {}
            THEN Goto(a, "tad_destroy") /\ UNCHANGED <<loc, cancelled, nw>>
            ELSE Stay(a)
       [] c.h = "watchfor" ->
            IF Matches(c.cond, ev)
            THEN Return(a, Res("ok", ev.v, FALSE), 0, {"?"}, FALSE) /\ UNCHANGED cancelled
            ELSE Stay(a)
       [] OTHER ->  \* teardown-bound context
            IF ev.t = "destroyed" \/ ev.v.phase = "tearingDown"
            THEN /\ cancelled' = [cancelled EXCEPT ![a] = TRUE]
                 /\ Return(a, Res("ok", Absent, FALSE), 0, {"?"}, FALSE)
            ELSE Stay(a)

Step(a) == \/ CoreCreate(a) \/ DestroyStep(a) \/ FirstGet(a) \/ UwcGet(a) \/ UwcGot(a) \/ UwcUpd(a)
           \/ ModCreate(a) \/ WatchStart(a)
Next == \E a \in Actors : Step(a) \/ WatchDeliver(a)

Init == /\ store = Absent
        /\ prog \in Programs
        /\ pi = [a \in Actors |-> 1] /\ pc = [a \in Actors |-> "start"]
        /\ loc = [a \in Actors |-> Locals]
        /\ wact = [a \in Actors |-> FALSE] /\ wq = [a \in Actors |-> <<>>]
        /\ ret = [a \in Actors |-> Res("none", Absent, FALSE)]
        /\ cancelled = [a \in Actors |-> FALSE]
        /\ nw = [a \in Actors |-> 0] /\ ninc = 0
        /\ bad = FALSE

Spec == Init /\ [][Next]_vars
FairSpec == Spec /\ \A a \in Actors : WF_vars(Step(a)) /\ WF_vars(WatchDeliver(a))

----------------------------------------------------------------------------
(* C03 / C04 on the implementation-level model *)
ObligationsMet == ~bad
NeverRemovedWithFinalizers == [][store.ver > 0 /\ store'.ver = 0 => store.fins = {}]_vars
(* a successful conflict-retrying write is applied on top of the then-current value *)
(* NAMED DEVIATION RecreateSameVersionABA: versions restart at 1 on re-creation and Update compares only *)
(* the version, so a stale read of a previous incarnation with the same version number is written over  *)
(* the new incarnation.  OnTopOfCurrent is the claim within one incarnation; NoABA is the full claim    *)
(* (violated by the model exactly as by the code: see DESIGN.md, finding C04/aba).                      *)
OnTopOfCurrent ==
  [][\A a \in Actors : pc[a] = "uwc_upd" /\ pc'[a] # "uwc_upd" /\ store' # store
        => (store.inc = loc[a].cur.inc => store = loc[a].cur)]_vars
NoABA ==
  [][\A a \in Actors : pc[a] = "uwc_upd" /\ pc'[a] # "uwc_upd" /\ store' # store => store = loc[a].cur]_vars
VersionStep == [][store'.ver # 0 /\ store.ver # 0 => store'.ver \in {store.ver, store.ver + 1}]_vars
(* cancelled only after a tearing-down / destroyed / absent state was delivered *)
CtxCancelHonest == [][\A a \in Actors : cancelled'[a] /\ ~cancelled[a] =>
                        LET ev == Head(wq[a]) IN ev.t = "destroyed" \/ ev.v.phase = "tearingDown"]_vars

Blocked(a) == pc[a] \in {"wait", "tad_wait"} /\ wq[a] = <<>>
Done(a) == pi[a] > Len(prog[a])
(* no missed wake-up: a blocked TeardownAndDestroy never sits on a resource that is gone or finalizer-free, *)
(* a blocked context never sits on a resource that is tearing down or gone                                  *)
NoMissedWakeup ==
  \A a \in Actors :
     /\ (pc[a] = "tad_wait" /\ wq[a] = <<>>) => (Exists /\ store.fins # {})
     /\ (pc[a] = "wait" /\ wq[a] = <<>> /\ Cur(a).h = "ctx") => (Exists /\ store.phase # "tearingDown")
     /\ (pc[a] = "wait" /\ wq[a] = <<>> /\ Cur(a).h = "watchfor" /\ Cur(a).cond = "finsEmpty") => (~Exists \/ store.fins # {})
(* liveness: when finalizers end up empty (or the resource is gone) for good, TeardownAndDestroy completes *)
TadCompletes ==
  \A a \in Actors : (<>[](~Exists \/ store.fins = {})) => []<>(Cur(a).h # "tad")
=============================================================================
