----------------------------- MODULE TaskRunner -----------------------------
(***************************************************************************)
(* pkg/task: a Runner keeps one Task per id; a Task is a goroutine that    *)
(* runs the spec's RunTask with restarts (error / panic -> back-off ->     *)
(* run again) until it returns nil or is stopped.                          *)
(*   StartTask(id, spec)  - no-op if a task with an equal spec is          *)
(*                          registered, otherwise the registered one is    *)
(*                          stopped (Stop waits for the goroutine) and a   *)
(*                          new one started;                               *)
(*   StopTask(id)         - stops and forgets the task;                    *)
(*   Reconcile(should)    - stops every registered task that should not    *)
(*                          run or whose spec changed, then starts what is *)
(*                          missing;                                       *)
(*   Stop                 - stops every goroutine; the registry is left as *)
(*                          it is (named deviation StopLeavesRegistry: a   *)
(*                          later Reconcile with equal specs starts        *)
(*                          nothing);                                      *)
(*   Finish / Fail        - the task body returns nil (the goroutine ends, *)
(*                          the task stays registered) or fails (restart). *)
(* inst numbers the Task objects: an instance is identified by the index   *)
(* of the command that created it.                                         *)
(***************************************************************************)
EXTENDS Integers, FiniteSets, TLC

CONSTANTS Ids, Specs, MaxOps
VARIABLES reg,     \* id -> [spec, inst]   (dynamic domain: the runner's map)
          live,    \* set of [id, spec, inst] whose goroutine exists (running or waiting to be restarted)
          nops, last
vars == <<reg, live, nops, last>>

Empty == [x \in {} |-> 0]
Put(f, k, v) == [x \in DOMAIN f \cup {k} |-> IF x = k THEN v ELSE f[x]]
Del(f, S) == [x \in DOMAIN f \ S |-> f[x]]
Inst(id, f) == [id |-> id, spec |-> f[id].spec, inst |-> f[id].inst]

Init == reg = Empty /\ live = {} /\ nops = 0 /\ last = [op |-> "init"]

Step(op) == nops < MaxOps /\ nops' = nops + 1 /\ last' = op

(* registry and live set after starting `should` on top of registry r / live set lv, new instances numbered n *)
Started(r, lv, should, n) ==
  LET new == {id \in DOMAIN should : id \notin DOMAIN r} IN
  <<[id \in DOMAIN r \cup new |-> IF id \in new THEN [spec |-> should[id], inst |-> n] ELSE r[id]],
    lv \cup {[id |-> id, spec |-> should[id], inst |-> n] : id \in new},
    new>>

StartTask(id, sp) ==
  /\ Step([op |-> "start", id |-> id, spec |-> sp])
  /\ IF id \in DOMAIN reg /\ reg[id].spec = sp
     THEN UNCHANGED <<reg, live>>
     ELSE LET r0 == Del(reg, {id})
              l0 == {x \in live : x.id # id}
              s == Started(r0, l0, (id :> sp), nops + 1)
          IN reg' = s[1] /\ live' = s[2]

StopTask(id) ==
  /\ Step([op |-> "stop", id |-> id])
  /\ reg' = Del(reg, {id}) /\ live' = {x \in live : x.id # id}

Reconcile(should) ==
  /\ Step([op |-> "reconcile", should |-> should])
  /\ LET gone == {id \in DOMAIN reg : id \notin DOMAIN should \/ should[id] # reg[id].spec}
         r0 == Del(reg, gone)
         l0 == {x \in live : x.id \notin gone}
         s == Started(r0, l0, should, nops + 1)
     IN reg' = s[1] /\ live' = s[2]

StopAll == /\ Step([op |-> "stopall"]) /\ live' = {} /\ UNCHANGED reg

Finish(x) == /\ x \in live /\ Step([op |-> "finish", id |-> x.id]) /\ live' = live \ {x} /\ UNCHANGED reg
Fail(x) == /\ x \in live /\ Step([op |-> "fail", id |-> x.id]) /\ UNCHANGED <<reg, live>>

Shoulds == UNION {[S -> Specs] : S \in SUBSET Ids}
Next == \/ \E id \in Ids, sp \in Specs : StartTask(id, sp)
        \/ \E id \in Ids : StopTask(id)
        \/ \E sh \in Shoulds : Reconcile(sh)
        \/ StopAll
        \/ \E x \in live : Finish(x) \/ Fail(x)
Spec == Init /\ [][Next]_vars

(* ----------------------------------------------------------------- properties *)
OneLivePerId == \A x, y \in live : x.id = y.id => x = y
(* no goroutine of a replaced or forgotten task survives *)
LiveAreRegistered == \A x \in live : x.id \in DOMAIN reg /\ reg[x.id].spec = x.spec /\ reg[x.id].inst = x.inst
(* Reconcile makes the registry equal to what should run, keeping the instances whose spec did not change *)
ReconcileExact ==
  [][last'.op = "reconcile" =>
       /\ DOMAIN reg' = DOMAIN last'.should
       /\ \A id \in DOMAIN reg' : reg'[id].spec = last'.should[id]
       /\ \A id \in DOMAIN reg' : (id \in DOMAIN reg /\ reg[id].spec = last'.should[id]) => reg'[id] = reg[id]
       /\ \A id \in DOMAIN reg' : ~(id \in DOMAIN reg /\ reg[id].spec = last'.should[id]) => Inst(id, reg') \in live']_vars
(* an equal spec never restarts a task *)
EqualSpecKeepsInstance ==
  [][(last'.op = "start" /\ last'.id \in DOMAIN reg /\ reg[last'.id].spec = last'.spec) => (reg' = reg /\ live' = live)]_vars
StopAllStopsEverything == [][last'.op = "stopall" => live' = {}]_vars
=============================================================================
