----------------------------- MODULE GenRuntime -----------------------------
(* Schedule generator for the runtime drivers: simulation of Runtime; the history holds the *)
(* driver-visible decisions (writes, watcher batch flushes, reconcile steps with or without  *)
(* failure, late starts).  Dedup / delivery steps are not commands (they run eagerly).       *)
EXTENDS MC_Runtime, Json, IOUtils, SequencesExt
VARIABLES hist, done
gvars == <<store, nw, wpend, watchCh, ddpc, ddev, mloc, m, dlpc, dlkey, cache, boot, bsent, started, alt,
           ech, cpc, robs, queue, qpc, qitem, qobs, need, faults, hist, done>>
GenDepth == IF "GEN_DEPTH" \in DOMAIN IOEnv THEN atoi(IOEnv.GEN_DEPTH) ELSE 80
Cmd(c, k, id, how, ctrl, fail) == [c |-> c, k |-> k, id |-> id, how |-> how, ctrl |-> ctrl, fail |-> fail]
Rec(cmd) == hist' = Append(hist, cmd) /\ UNCHANGED done
How(key) == LET o == store[key]  n == store'[key] IN
            IF o.ver = 0 THEN "create" ELSE IF n.ver = 0 THEN "destroy" ELSE IF n.td /\ ~o.td THEN "td" ELSE "flip"
GNext ==
  \/ \E key \in Keys : Write(key) /\ Rec(Cmd("write", key.k, key.id, How(key), "", FALSE))
  \/ \E k \in Kinds : WatcherBatch(k) /\ Rec(Cmd("flush", k, 0, "", "", FALSE))
  \/ \E k \in Kinds : WatcherNoop(k) /\ Rec(Cmd("noop", k, 0, "", "", FALSE))
  \/ (DDTake \/ DDAcquire \/ DDDrain \/ DLTake \/ DLReturn) /\ UNCHANGED <<hist, done>>
  \/ DLTrigger /\ Rec(Cmd("dltrigger", "", 0, "", "", FALSE))   \* the delivery goroutine is released from its gate (verif hook)
  \/ \E c \in Ctrls : (CWake(c) \/ QGet(c)) /\ UNCHANGED <<hist, done>>
  \/ \E c \in Ctrls : (CRead(c) \/ QRun(c)) /\ Rec(Cmd("step", "", 0, "", c, FALSE))
  \/ \E c \in Ctrls : CUpdate(c) /\ Rec(Cmd("update", "", 0, "", c, FALSE))
  \/ \E c \in Ctrls : (CFail(c) \/ QFail(c)) /\ Rec(Cmd("step", "", 0, "", c, TRUE))
  \/ \E c \in Ctrls : StartLate(c) /\ Rec(Cmd("start", "", 0, "", c, FALSE))
CfgJson == [c \in Ctrls |-> [fl |-> Cfg[c].fl, late |-> Cfg[c].late, ins |-> SetToSeq(Cfg[c].ins), alt |-> SetToSeq(Alt[c])]]
Finish == /\ ~done /\ PrintT(<<"BEH", ToJson([cfg |-> CfgJson, cached |-> SetToSeq(Cached), cmds |-> hist])>>)
          /\ done' = TRUE /\ UNCHANGED vars /\ UNCHANGED hist
GenInit == Init /\ hist = <<>> /\ done = FALSE
GenNext == IF Len(hist) >= GenDepth \/ (nw >= MaxWrites /\ ~ENABLED Internal) THEN Finish ELSE ~done /\ GNext
GenSpec == GenInit /\ [][GenNext]_gvars
=============================================================================
