SPECIFICATION Spec
CONSTANTS Kinds = {"K1", "K2"}  Ids = {1, 2}  Ctrls = {"q"}  Cfg <- CfgD  Alt <- AltNoneQ  Cached = {"K2"}  MaxWrites = 4  MaxFaults = 1  Noops = FALSE  MapTo <- MapAll
INVARIANTS NoLostWakeup MappedReachesPrimaries CacheCoherentWhenQuiet
CHECK_DEADLOCK FALSE
