SPECIFICATION Spec
CONSTANTS InitCap = 2  MaxCap = 4  Gap = 1  Ids = {1, 2}  MaxPub = 5  W = {1}  Tails = {1, 2, 3, 5}  BBs = {FALSE, TRUE}
INVARIANTS RingCorrect NoBadDelivery QuietComplete RecentBookmarksAccepted AcceptedBookmarkRetained
CHECK_DEADLOCK FALSE
