SPECIFICATION GenSpec
CONSTANTS Actors <- A3  Programs <- ProgramsC04
CHECK_DEADLOCK FALSE
