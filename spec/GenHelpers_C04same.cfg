SPECIFICATION GenSpec
CONSTANTS Actors <- A3  Programs <- ProgramsSame
CHECK_DEADLOCK FALSE
