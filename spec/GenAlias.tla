------------------------------ MODULE GenAlias ------------------------------
(* Programs for the aliasing driver: API calls interleaved with mutations of every object the caller still holds. *)
EXTENDS Integers, Sequences, TLC, Json, IOUtils
VARIABLES hist, done
GenDepth == IF "GEN_DEPTH" \in DOMAIN IOEnv THEN atoi(IOEnv.GEN_DEPTH) ELSE 24
Ops == <<"create", "get", "get", "list", "listlabel", "listid", "strip", "update", "modify", "mdcopy", "mutate", "mutate", "mutate", "mutate", "watchget", "twinadd", "twinremadd">>
(* finAdd is listed three times: two holders of one lineage both adding a finalizer is the case that tells copy-on-write from *)
(* append-in-place                                                                                                          *)
Fields == <<"labelSet", "labelDelete", "labelDo", "labelDoDel", "annotationDo", "annotationSet", "annotationDelete", "finAdd", "finAdd", "finAdd", "finRemove", "finSet",
            "phase", "version", "owner", "spec">>
Init == hist = <<>> /\ done = FALSE
Step == \E op \in {Ops[RandomElement(1..Len(Ops))]}, h \in {RandomElement(1..4)}, g \in {RandomElement(1..4)},
           f \in {Fields[RandomElement(1..Len(Fields))]}, k \in {RandomElement({"a", "b"})} :
           hist' = Append(hist, [op |-> op, h |-> h, g |-> g, field |-> f, k |-> k]) /\ UNCHANGED done
Finish == ~done /\ PrintT(<<"BEH", ToJson(hist)>>) /\ done' = TRUE /\ UNCHANGED hist
Next == IF Len(hist) >= GenDepth THEN Finish ELSE ~done /\ Step
Spec == Init /\ [][Next]_<<hist, done>>
=============================================================================
