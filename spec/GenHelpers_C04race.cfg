SPECIFICATION GenSpec
CONSTANTS Actors <- A3  Programs <- ProgramsRace
CHECK_DEADLOCK FALSE
