SPECIFICATION Spec
VIEW View
POSTCONDITION Post
CHECK_DEADLOCK FALSE
