SPECIFICATION GenSpec
CONSTANTS Ids = {1, 2, 3}  Readers = {1, 2, 3}  MaxOps = 14  MaxVer = 3
CHECK_DEADLOCK FALSE
