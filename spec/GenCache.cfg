SPECIFICATION GenSpec
CONSTANTS Ids = {1, 2}  Readers = {1, 2, 3}  MaxOps = 20  MaxVer = 3
CHECK_DEADLOCK FALSE
