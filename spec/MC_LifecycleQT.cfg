SPECIFICATION Spec
CONSTANTS MaxExt = 7  IgnoreUntil = FALSE  AllowedFins = {}  Extra = FALSE
INVARIANTS FinBeforeOut C06
CHECK_DEADLOCK FALSE
