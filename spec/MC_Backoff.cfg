SPECIFICATION Spec
CONSTANTS MaxLen = 6  Delays = {0, 100, 700}
INVARIANTS EnvelopeMonotone CountBounded
PROPERTIES ResetOnSuccess GrowsOnFailure
CHECK_DEADLOCK FALSE
