----------------------------- MODULE GenBackoff -----------------------------
(* Outcome-sequence generator for the retry/back-off drivers (C09 b, C16). *)
EXTENDS Backoff, Json, IOUtils
VARIABLES script, done, histB, busy
GenDepth == IF "GEN_DEPTH" \in DOMAIN IOEnv THEN atoi(IOEnv.GEN_DEPTH) ELSE 8
gvars == <<n, hist, script, done, histB, busy>>
(* GEN_BUSY=1: reconciles take (virtual) time - 0, 0.3 s or 5 s - before they return their outcome: a requeue interval / back-off *)
(* counts from the moment the reconcile returned                                                                              *)
BusyOn == "GEN_BUSY" \in DOMAIN IOEnv /\ IOEnv.GEN_BUSY = "1"
(* GEN_TWO=1: the second item fails too, with an outcome sequence of its own (a failing item must not hold up another one's retry) *)
Two == "GEN_TWO" \in DOMAIN IOEnv /\ IOEnv.GEN_TWO = "1"
(* GEN_ERRONLY=1: long streaks of consecutive failures (the back-off has to stay at its cap however long the item keeps failing) *)
ErrOnly == "GEN_ERRONLY" \in DOMAIN IOEnv /\ IOEnv.GEN_ERRONLY = "1"
Os == IF ErrOnly THEN <<"err", "err", "err", "err", "err", "err", "err", "panic">>
      ELSE <<"ok", "err", "err", "err", "panic", "requeue", "requeueErr", "skip">>
GenInit == Init /\ script = <<>> /\ done = FALSE /\ histB = <<>> /\ busy = <<>>
GenStep ==
  \E o \in {Os[RandomElement(1..Len(Os))]}, d \in {RandomElement(Delays)},
     gap \in {RandomElement({0, 100, 400, 2000, 30000})}, ta \in {RandomElement({0, 0, 0, 1})}, tb \in {RandomElement({0, 0, 1})} :
       /\ Step(o, IF o \in {"requeue", "requeueErr"} THEN d ELSE 0)
       /\ script' = Append(script, [gap |-> gap, ta |-> ta, tb |-> tb])
       /\ \E ob \in {Os[RandomElement(1..Len(Os))]}, db \in {RandomElement(Delays)} :
            histB' = IF Two THEN Append(histB, [o |-> ob, d |-> IF ob \in {"requeue", "requeueErr"} THEN db ELSE 0]) ELSE histB
       /\ \E b \in {RandomElement({0, 0, 300, 5000})} : busy' = Append(busy, IF BusyOn THEN b ELSE 0)
       /\ UNCHANGED done
Finish == ~done /\ PrintT(<<"BEH", ToJson([outcomes |-> [i \in 1..Len(hist) |-> [o |-> hist[i].o, d |-> hist[i].d, b |-> busy[i]]], outcomesB |-> histB, script |-> script])>>) /\ done' = TRUE /\ UNCHANGED <<n, hist, script, histB, busy>>
GenNext == IF Len(hist) >= GenDepth THEN Finish ELSE ~done /\ GenStep
GenSpec == GenInit /\ [][GenNext]_gvars
=============================================================================
