----------------------------- MODULE GenBackoff -----------------------------
(* Outcome-sequence generator for the retry/back-off drivers (C09 b, C16). *)
EXTENDS Backoff, Json, IOUtils
VARIABLES script, done
GenDepth == IF "GEN_DEPTH" \in DOMAIN IOEnv THEN atoi(IOEnv.GEN_DEPTH) ELSE 8
gvars == <<n, hist, script, done>>
(* GEN_ERRONLY=1: long streaks of consecutive failures (the back-off has to stay at its cap however long the item keeps failing) *)
ErrOnly == "GEN_ERRONLY" \in DOMAIN IOEnv /\ IOEnv.GEN_ERRONLY = "1"
Os == IF ErrOnly THEN <<"err", "err", "err", "err", "err", "err", "err", "panic">>
      ELSE <<"ok", "err", "err", "err", "panic", "requeue", "requeueErr", "skip">>
GenInit == Init /\ script = <<>> /\ done = FALSE
GenStep ==
  \E o \in {Os[RandomElement(1..Len(Os))]}, d \in {RandomElement(Delays)},
     gap \in {RandomElement({0, 100, 400, 2000, 30000})}, ta \in {RandomElement({0, 0, 0, 1})}, tb \in {RandomElement({0, 0, 1})} :
       /\ Step(o, IF o \in {"requeue", "requeueErr"} THEN d ELSE 0)
       /\ script' = Append(script, [gap |-> gap, ta |-> ta, tb |-> tb])
       /\ UNCHANGED done
Finish == ~done /\ PrintT(<<"BEH", ToJson([outcomes |-> hist, script |-> script])>>) /\ done' = TRUE /\ UNCHANGED <<n, hist, script>>
GenNext == IF Len(hist) >= GenDepth THEN Finish ELSE ~done /\ GenStep
GenSpec == GenInit /\ [][GenNext]_gvars
=============================================================================
