SPECIFICATION Spec
INVARIANT LatticeWellFormed
CHECK_DEADLOCK FALSE
