----------------------------- MODULE TraceCodec -----------------------------
(* Judge for C18: round trips of TLC-shaped resources through every codec, and outcomes of decoding tampered, *)
(* truncated or wrongly keyed encodings.                                                                       *)
EXTENDS Codec, Json, IOUtils
TraceLog == ndJsonDeserialize(IOEnv.TRACE)
VARIABLES l, nbad
Init == l = 1 /\ nbad = 0
Bad(e, what) == PrintT(<<"MISMATCH", e.codec, l, what>>) /\ PrintT(<<"DETAIL", ToString(e.shape), e.note>>) /\ nbad' = nbad + 1
Check(e) ==
  IF e.ev = "roundtrip" THEN (IF e.outcome # "same" THEN Bad(e, IF e.outcome = "panic" THEN "codec-panicked" ELSE "round-trip-changed-the-resource") ELSE nbad' = nbad)
  ELSE IF e.ev = "text" THEN (IF e.outcome # "same" THEN Bad(e, "text-form-does-not-parse-back") ELSE nbad' = nbad)
  ELSE IF e.ev = "tamper" THEN
       (IF e.outcome = "panic" THEN Bad(e, "decoder-panicked")
        ELSE IF e.codec \in Stackings /\ e.outcome \notin Acceptable(e.codec, e.tamper)
             THEN Bad(e, IF e.tamper = "wrongkey" THEN "wrong-key-accepted" ELSE "tampering-not-detected")
        ELSE nbad' = nbad)
  ELSE nbad' = nbad
Next == l <= Len(TraceLog) /\ l' = l + 1 /\ Check(TraceLog[l])
Spec == Init /\ [][Next]_<<l, nbad>>
Consumed == TLCGet("stats").diameter - 1
Post == PrintT(<<"CONSUMED", Consumed>>) /\ Consumed = Len(TraceLog)
=============================================================================
