----------------------------- MODULE TraceQueue -----------------------------
(***************************************************************************)
(* Property-level judge for the reconcile queue (C09).  The trace holds    *)
(* what a driver did to the real queue in virtual time: put, non-blocking  *)
(* get attempts with what they returned, release, requeue-after, sleeps,   *)
(* and the reported length.  The judge does not fix an order among due     *)
(* items: any due item may be delivered; nothing due => nothing delivered; *)
(* something due and a free worker => something is delivered.              *)
(***************************************************************************)
EXTENDS Integers, Sequences, FiniteSets, TLC, Json, IOUtils

TraceLog == ndJsonDeserialize(IOEnv.TRACE)

VARIABLES pending,  \* key -> [v, at]   (one pending delivery per key, most recent value)
          parked,   \* key -> v         (notification that arrived while the key was held)
          held,     \* worker -> [k, v]
          l, tid, bad
tvars == <<pending, parked, held, l, tid, bad>>
Empty == [x \in {} |-> 0]
Put(f, k, v) == [x \in DOMAIN f \cup {k} |-> IF x = k THEN v ELSE f[x]]
Del(f, k)    == [x \in DOMAIN f \ {k} |-> f[x]]
Min(a, b) == IF a < b THEN a ELSE b
HeldKeys == {held[w].k : w \in DOMAIN held}

Init == pending = Empty /\ parked = Empty /\ held = Empty /\ l = 1 /\ tid = "" /\ bad = FALSE
Reject(what, exp, got) ==
  /\ PrintT(<<"MISMATCH", tid, l, what>>) /\ PrintT(<<"DETAIL", ToString(exp), ToString(got)>>)
  /\ bad' = TRUE /\ UNCHANGED <<pending, parked, held, tid>>
Keep == UNCHANGED <<tid, bad>>

DoPut(e) ==
  IF e.k \in HeldKeys
  THEN parked' = Put(parked, e.k, e.v) /\ UNCHANGED <<pending, held>> /\ Keep
  ELSE /\ pending' = Put(pending, e.k, [v |-> e.v, at |-> IF e.k \in DOMAIN pending THEN Min(pending[e.k].at, e.now) ELSE e.now])
       /\ UNCHANGED <<parked, held>> /\ Keep

Due(t) == {k \in DOMAIN pending : pending[k].at <= t}

DoGet(e) ==
  IF e.w \in DOMAIN held THEN Reject("get-by-busy-worker", "", e.w)
  ELSE IF e.got = "none"
  THEN IF Due(e.now) # {} THEN Reject("lost-or-late-delivery", [due |-> Due(e.now), pending |-> pending], "nothing delivered")
       ELSE UNCHANGED <<pending, parked, held>> /\ Keep
  ELSE IF e.k \in HeldKeys THEN Reject("double-hold", HeldKeys, e.k)
  ELSE IF e.k \notin DOMAIN pending THEN Reject("delivery-without-notification", pending, e.k)
  ELSE IF pending[e.k].at > e.now THEN Reject("delivered-before-requested", pending[e.k], e.now)
  ELSE IF pending[e.k].v # e.v THEN Reject("stale-or-wrong-value", pending[e.k].v, e.v)
  ELSE /\ held' = Put(held, e.w, [k |-> e.k, v |-> e.v])
       /\ pending' = Del(pending, e.k) /\ UNCHANGED parked /\ Keep

(* release (at = 0) or requeue-after (at > now) *)
DoRelease(e) ==
  IF e.w \notin DOMAIN held THEN Reject("release-without-hold", "", e.w)
  ELSE LET k == held[e.w].k
           p1 == IF e.at # 0 /\ k \notin DOMAIN pending
                 THEN Put(pending, k, [v |-> held[e.w].v, at |-> e.at]) ELSE pending
       IN /\ pending' = IF k \in DOMAIN parked
                        THEN Put(p1, k, [v |-> parked[k], at |-> IF k \in DOMAIN p1 THEN Min(p1[k].at, e.now) ELSE e.now])
                        ELSE p1
          /\ parked' = Del(parked, k)
          /\ held' = Del(held, e.w) /\ Keep

DoLen(e) ==
  IF e.n # Cardinality(DOMAIN pending) + Cardinality(DOMAIN parked)
  THEN Reject("length", Cardinality(DOMAIN pending) + Cardinality(DOMAIN parked), e.n)
  ELSE UNCHANGED <<pending, parked, held>> /\ Keep

Next ==
  /\ l <= Len(TraceLog) /\ l' = l + 1
  /\ LET e == TraceLog[l] IN
       IF e.ev = "reset" THEN pending' = Empty /\ parked' = Empty /\ held' = Empty /\ tid' = e.tid /\ bad' = FALSE
       ELSE IF bad THEN UNCHANGED <<pending, parked, held, tid, bad>>
       ELSE CASE e.ev = "put" -> DoPut(e)
              [] e.ev = "get" -> DoGet(e)
              [] e.ev = "release" -> DoRelease(e)
              [] e.ev = "len" -> DoLen(e)
              [] OTHER -> UNCHANGED <<pending, parked, held, tid, bad>>
Spec == Init /\ [][Next]_tvars
Consumed == TLCGet("stats").diameter - 1
Post == PrintT(<<"CONSUMED", Consumed>>) /\ Consumed = Len(TraceLog)
=============================================================================
