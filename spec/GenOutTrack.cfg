SPECIFICATION GenSpec
CONSTANTS Keys <- K4
          MaxVer = 100
CHECK_DEADLOCK FALSE
