---------------------------- MODULE MC_OutTrack ----------------------------
EXTENDS OutTrack
K3 == <<"tA/a", "tA/b", "tB/a">>
K4 == <<"tA/a", "tA/b", "tB/a", "tB/b">>
Bound == \A k \in KeySet : res[k].ver <= MaxVer
View == <<res, tracking, touched, tw>>
=============================================================================
