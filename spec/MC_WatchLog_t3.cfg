SPECIFICATION Spec
CONSTANTS InitCap = 2  MaxCap = 4  Gap = 1  Ids = {1, 2}  MaxPub = 4  W = {1, 2}  Tails = {1, 3}
INVARIANTS RingCorrect NoBadDelivery ErroredOnlyIfLagged QuietComplete RecentBookmarksAccepted AcceptedBookmarkRetained
CHECK_DEADLOCK FALSE
