SPECIFICATION Spec
CONSTANTS InitCap = 2  MaxCap = 4  Gap = 1  Ids = {1, 2}  MaxPub = 3  W = {1, 2}  Tails = {1, 3}  BBs = {FALSE, TRUE}
INVARIANTS RingCorrect NoBadDelivery ErroredOnlyIfLagged QuietComplete RecentBookmarksAccepted AcceptedBookmarkRetained
CHECK_DEADLOCK FALSE
