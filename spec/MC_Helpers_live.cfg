SPECIFICATION FairSpec
CONSTANTS Actors <- A2  Programs <- ProgramsLive
INVARIANTS ObligationsMet NoMissedWakeup
PROPERTIES NeverRemovedWithFinalizers OnTopOfCurrent VersionStep CtxCancelHonest TadCompletes
CHECK_DEADLOCK FALSE
