SPECIFICATION TSpec
CONSTANTS Ids = {"a", "b", "c"}  Specs = {1, 2}  MaxOps = 100000
POSTCONDITION Post
CHECK_DEADLOCK FALSE
