------------------------------ MODULE WatchLog ------------------------------
(***************************************************************************)
(* Watch streams of one resource collection (C02, C12, watch part of C14). *)
(*                                                                         *)
(* Two levels live here:                                                   *)
(*  - property level: `log` is the sequence of committed changes; the      *)
(*    operators Expected*, RewriteSeq, BookmarkAccepted, TailStart say what *)
(*    a subscriber must see.  They are the judge used by TraceWatch.       *)
(*  - implementation level: the cyclic buffer of collection.go (stream,    *)
(*    cap, gap, growth on the first lap), watcher goroutines with a read   *)
(*    position, a batch copied under the lock and the overrun test.  TLC   *)
(*    checks that the implementation level only ever delivers what the     *)
(*    property level expects.                                              *)
(***************************************************************************)
EXTENDS WatchProp

CONSTANTS Ids, MaxPub, W,         \* bounds of the model
          Tails,                  \* tail sizes tried by StartTail
          BBs                     \* {FALSE} or {FALSE, TRUE}: kind watches with tail / bookmark also ask for the bootstrap bookmark

VARIABLES log,     \* committed events, position p (0-based) is log[p+1]
          cap, stream,  \* the ring: capacity and slots 0..cap-1
          cur,     \* current contents: id -> [ver, lab] (ver = 0: absent)
          ws       \* watchers

vars == <<log, cap, stream, cur, ws>>

(* ------------------------------------------------------------ the model *)
Idle == [kind |-> "none", id |-> 0, filt |-> FALSE, pos |-> 0, outbox |-> <<>>, status |-> "idle",
         start |-> 0, pre |-> <<>>, dcount |-> 0, dpos |-> 0,
         lagged |-> FALSE, bad |-> FALSE, rejected |-> FALSE]

writePos == Len(log)
ExpectedTail(kind, i, n, wp, c) == ExpectedTailOf(log, kind, i, n, wp, c)

Init == /\ log = <<>>
        /\ cap = InitCap
        /\ stream = [k \in 0..(InitCap - 1) |-> Nil]
        /\ cur = [i \in Ids |-> [ver |-> 0, lab |-> FALSE]]
        /\ ws = [w \in W |-> Idle]

(* subscriber lag bookkeeping: committed events not yet received *)
Bump(wsx, wp) == [w \in W |-> IF wsx[w].status = "active"
                               THEN [wsx[w] EXCEPT !.lagged = @ \/ (wp - wsx[w].dpos > InitCap)]
                               ELSE wsx[w]]

Changes(i) ==
  IF cur[i].ver = 0
  THEN {Ev("created", i, 1, lb, 0, FALSE, writePos) : lb \in BOOLEAN}
  ELSE {Ev("updated", i, cur[i].ver + 1, lb, cur[i].ver, cur[i].lab, writePos) : lb \in BOOLEAN}
       \cup {Ev("destroyed", i, cur[i].ver, cur[i].lab, 0, FALSE, writePos)}

Publish(i) ==
  /\ Len(log) < MaxPub
  /\ \E ev \in Changes(i) :
       LET ncap == CapAfter(writePos, cap)
           base == IF ncap # cap THEN [k \in 0..(ncap - 1) |-> IF k < cap THEN stream[k] ELSE Nil] ELSE stream
       IN /\ cap' = ncap
          /\ stream' = [base EXCEPT ![writePos % ncap] = ev]
          /\ log' = Append(log, ev)
          /\ cur' = [cur EXCEPT ![i] = IF ev.t = "destroyed" THEN [ver |-> 0, lab |-> FALSE]
                                       ELSE [ver |-> ev.ver, lab |-> ev.lab]]
          /\ ws' = Bump(ws, writePos + 1)

Started(w, kind, i, filt, pos, init, start, pre) ==
  ws' = [ws EXCEPT ![w] = [Idle EXCEPT !.kind = kind, !.id = i, !.filt = filt, !.pos = pos, !.start = start, !.pre = pre,
                                       !.dpos = pos, !.status = "active", !.outbox = init,
                                       !.lagged = (writePos - pos > InitCap)]]

(* Watch(id): initial event = current state captured with the position *)
StartOne(w, i) ==
  /\ ws[w].status = "idle"
  /\ Started(w, "one", i, FALSE, writePos,
             << IF cur[i].ver = 0 THEN Ev("destroyed", i, 0, FALSE, 0, FALSE, -2)
                ELSE Ev("created", i, cur[i].ver, cur[i].lab, 0, FALSE, -2) >>, writePos,
             << IF cur[i].ver = 0 THEN Ev("destroyed", i, 0, FALSE, 0, FALSE, -2)
                ELSE Ev("created", i, cur[i].ver, cur[i].lab, 0, FALSE, -2) >>)
  /\ UNCHANGED <<log, cap, stream, cur>>

StartAll(w, filt) ==
  /\ ws[w].status = "idle"
  /\ Started(w, "all", 0, filt, writePos, <<>>, writePos, <<>>)
  /\ UNCHANGED <<log, cap, stream, cur>>

(* WatchKind with bootstrap contents / bootstrap bookmark: snapshot captured with the position *)
IdSeq(S) == CHOOSE sq \in [1..Cardinality(S) -> S] : \A a, b \in 1..Cardinality(S) : a < b => sq[a] < sq[b]
StartBoot(w, filt, contents) ==
  /\ ws[w].status = "idle"
  /\ LET ids == {i \in Ids : cur[i].ver > 0 /\ (~filt \/ cur[i].lab)}
         sq == IdSeq(ids)
         boot == [k \in 1..Len(sq) |-> Ev("created", sq[k], cur[sq[k]].ver, cur[sq[k]].lab, 0, FALSE, -2)]
         init == IF contents THEN boot \o <<Ev("bootstrapped", 0, 0, FALSE, 0, FALSE, writePos - 1)>>
                 ELSE <<Ev("noop", 0, 0, FALSE, 0, FALSE, writePos - 1)>>
     IN Started(w, "all", 0, filt, writePos, init, writePos, init)
  /\ UNCHANGED <<log, cap, stream, cur>>

(* tail: the implementation scans / subtracts on the ring *)
(* BootstrapBookmark together with TailEvents / StartFromBookmark (kind watches): the initial Noop event carries the *)
(* bookmark of the position right before the first replayed event, so that a consumer that resumes from it sees the *)
(* replay again rather than skipping it                                                                              *)
NoopAt(pos) == Ev("noop", 0, 0, FALSE, 0, FALSE, pos - 1)
StartTail(w, kind, i, n, bb) ==
  /\ ws[w].status = "idle" /\ n > 0
  /\ LET minPos == Max(writePos - cap + Gap, 0)
         RingId(p) == stream[p % cap].id
         Scan[pos \in 0..writePos, k \in 0..n] ==
            IF pos > minPos /\ k < n THEN Scan[pos - 1, IF RingId(pos - 1) = i THEN k + 1 ELSE k] ELSE pos
         pos == IF kind = "one" THEN Scan[writePos, 0]
                ELSE Max(writePos - Min(n, cap - Gap), 0)
         noop == IF bb /\ kind = "all" THEN <<NoopAt(pos)>> ELSE <<>>
     IN Started(w, kind, i, FALSE, pos, noop, writePos, noop \o ExpectedTail(kind, i, n, writePos, cap))
  /\ UNCHANGED <<log, cap, stream, cur>>

(* resume from bookmark p: accepted iff the code's range test passes *)
StartBookmark(w, kind, i, p, bb) ==
  /\ ws[w].status = "idle"
  /\ IF p < writePos - cap + Gap \/ p < (IF kind = "one" THEN 0 ELSE -1) \/ p >= writePos
     THEN ws' = [ws EXCEPT ![w] = [Idle EXCEPT !.status = "rejected", !.rejected = TRUE]]
     ELSE LET noop == IF bb /\ kind = "all" THEN <<NoopAt(p + 1)>> ELSE <<>> IN
          Started(w, kind, i, FALSE, p + 1, noop, p + 1, noop)
  /\ UNCHANGED <<log, cap, stream, cur>>

(* the watcher goroutine re-acquires the lock: overrun test, then copy *)
Read(w) ==
  LET r == ws[w] IN
  /\ r.status = "active" /\ r.outbox = <<>> /\ r.pos < writePos
  /\ IF writePos - r.pos > cap
     THEN ws' = [ws EXCEPT ![w].outbox = <<ErrEv>>]
     ELSE IF r.kind = "all"
          THEN LET raw == [k \in 1..(writePos - r.pos) |-> stream[(r.pos + k - 1) % cap]]
                   out == ViewSeq("all", 0, r.filt, raw)
               IN IF out = <<>>
                  THEN ws' = Bump([ws EXCEPT ![w].pos = writePos, ![w].dpos = writePos], writePos)
                  ELSE ws' = [ws EXCEPT ![w].outbox = out, ![w].pos = writePos]
          ELSE LET cand == {p \in r.pos..(writePos - 1) : stream[p % cap].id = r.id} IN
               IF cand = {} THEN ws' = Bump([ws EXCEPT ![w].pos = writePos, ![w].dpos = writePos], writePos)
               ELSE LET p == CHOOSE x \in cand : \A y \in cand : x <= y IN
                    ws' = [ws EXCEPT ![w].outbox = <<stream[p % cap]>>, ![w].pos = p + 1]
  /\ UNCHANGED <<log, cap, stream, cur>>

(* what the property level expects this watcher to have seen after its start contents *)
Expected(r) == r.pre \o ViewSeq(r.kind, r.id, r.filt, SubSeq(log, r.start + 1, Len(log)))

Deliver(w) ==
  LET r == ws[w] IN
  /\ r.status = "active" /\ r.outbox # <<>>
  /\ LET e == Head(r.outbox)
         isStart == r.dcount < Len(r.pre)      \* still inside the start contents
         isErr == e.t = "errored"
         exp == Expected(r)
         ok == isErr \/ (r.dcount < Len(exp) /\ exp[r.dcount + 1] = e)
         ndpos == IF isErr \/ isStart THEN r.dpos
                  ELSE IF Tail(r.outbox) = <<>> THEN r.pos ELSE r.dpos
     IN ws' = [ws EXCEPT ![w].outbox = Tail(r.outbox),
                         ![w].dcount = IF isErr THEN @ ELSE @ + 1,
                         ![w].bad = @ \/ ~ok,
                         ![w].dpos = ndpos,
                         ![w].status = IF isErr THEN "errored" ELSE "active"]
  /\ UNCHANGED <<log, cap, stream, cur>>

Next == \/ \E i \in Ids : Publish(i)
        \/ \E w \in W, i \in Ids : StartOne(w, i)
        \/ \E w \in W, f \in BOOLEAN : StartAll(w, f)
        \/ \E w \in W, f \in BOOLEAN, c \in BOOLEAN : StartBoot(w, f, c)
        \/ \E w \in W, i \in Ids, n \in Tails, bb \in BBs : StartTail(w, "one", i, n, FALSE) \/ StartTail(w, "all", 0, n, bb)
        \/ \E w \in W, i \in Ids, p \in -1..MaxPub, bb \in BBs : StartBookmark(w, "one", i, p, FALSE) \/ StartBookmark(w, "all", 0, p, bb)
        \/ \E w \in W : Read(w) \/ Deliver(w)
Spec == Init /\ [][Next]_vars
FairSpec == Spec /\ \A w \in W : WF_vars(Read(w)) /\ WF_vars(Deliver(w))

-----------------------------------------------------------------------------
(* C02 *)
RingCorrect == /\ cap = CapAt(writePos)
               /\ \A p \in Max(0, writePos - cap)..(writePos - 1) : stream[p % cap] = log[p + 1]
NoBadDelivery == \A w \in W : ~ws[w].bad
ErroredOnlyIfLagged == \A w \in W : ws[w].status = "errored" => ws[w].lagged
(* a quiet, non-errored watcher has received everything (no missing delivery) *)
QuietComplete ==
  \A w \in W : (ws[w].status = "active" /\ ws[w].outbox = <<>> /\ ws[w].pos = writePos)
                 => ws[w].dcount = Len(Expected(ws[w]))

(* C12 *)
(* an accepted resume/tail start never lies before the retained part of the ring *)
RecentBookmarksAccepted ==
  \A p \in 0..(writePos - 1) : p >= writePos - (InitCap - Gap) =>
      BookmarkAccepted("one", p, writePos, cap) /\ BookmarkAccepted("all", p, writePos, cap)
AcceptedBookmarkRetained ==
  \A p \in -1..writePos : BookmarkAccepted("all", p, writePos, cap) => p + 1 >= writePos - cap
=============================================================================
