SPECIFICATION Spec
CONSTANTS MaxExt = 7  Finalizers = TRUE  Extra = FALSE
INVARIANTS FinBeforeOut C06
CHECK_DEADLOCK FALSE
