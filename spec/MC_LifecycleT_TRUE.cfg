SPECIFICATION Spec
CONSTANTS MaxExt = 7  Finalizers = TRUE
INVARIANTS FinBeforeOut C06
CHECK_DEADLOCK FALSE
