------------------------------ MODULE TraceAlias ------------------------------
(* Judge for caller isolation (C19): after every step the driver logs the store's contents (read independently) *)
(* and the projection of every object the caller holds.  An API step may change the store and the handle it      *)
(* returns / was given; a "mutate" step may change ONLY the mutated handle: the store, a replica fed from a kind  *)
(* watch, and every other handle must be exactly what they were.                                                 *)
EXTENDS Integers, Sequences, FiniteSets, TLC, Json, IOUtils, SequencesExt
TraceLog == ndJsonDeserialize(IOEnv.TRACE)
VARIABLES contents, held, l, tid, bad
tvars == <<contents, held, l, tid, bad>>
Empty == [x \in {} |-> 0]
HeldOf(js) == [h \in {j.h : j \in ToSet(js)} |-> (CHOOSE j \in ToSet(js) : j.h = h).v]
Init == contents = <<>> /\ held = Empty /\ l = 1 /\ tid = "" /\ bad = FALSE
Reject(what, exp, got) ==
  /\ PrintT(<<"MISMATCH", tid, l, what>>) /\ PrintT(<<"DETAIL", ToString(exp), ToString(got)>>)
  /\ bad' = TRUE /\ UNCHANGED <<contents, held, tid>>
Step(e) ==
  LET nh == HeldOf(e.held) IN
  IF e.ev = "mutate"
  THEN IF e.contents # contents THEN Reject("mutation-changed-the-store", contents, e.contents)
       ELSE IF e.replica # contents THEN Reject("mutation-visible-to-watchers", contents, e.replica)
       ELSE IF \E h \in DOMAIN held \ {e.h} : h \in DOMAIN nh /\ nh[h] # held[h]
            THEN LET h == CHOOSE x \in DOMAIN held \ {e.h} : x \in DOMAIN nh /\ nh[x] # held[x] IN
                 Reject("mutation-changed-another-held-object", [h |-> h, was |-> held[h], mutated |-> e.h, field |-> e.field], nh[h])
       ELSE held' = nh /\ UNCHANGED <<contents, tid, bad>>
  ELSE (* API step: only the handle involved may change among the held objects *)
       IF \E h \in DOMAIN held \ {e.h, e.g} : h \in DOMAIN nh /\ nh[h] # held[h]
       THEN LET h == CHOOSE x \in DOMAIN held \ {e.h, e.g} : x \in DOMAIN nh /\ nh[x] # held[x] IN
            Reject("api-call-changed-an-unrelated-held-object", [h |-> h, was |-> held[h], op |-> e.op], nh[h])
       ELSE contents' = e.contents /\ held' = nh /\ UNCHANGED <<tid, bad>>
Next == /\ l <= Len(TraceLog) /\ l' = l + 1
        /\ LET e == TraceLog[l] IN
             IF e.ev = "reset" THEN contents' = <<>> /\ held' = Empty /\ tid' = e.tid /\ bad' = FALSE
             ELSE IF bad THEN UNCHANGED <<contents, held, tid, bad>>
             ELSE Step(e)
Spec == Init /\ [][Next]_tvars
Consumed == TLCGet("stats").diameter - 1
Post == PrintT(<<"CONSUMED", Consumed>>) /\ Consumed = Len(TraceLog)
=============================================================================
