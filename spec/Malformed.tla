------------------------------ MODULE Malformed ------------------------------
(***************************************************************************)
(* The wire-level request lattice of C11 ("no request, well-formed or not, *)
(* can crash the server; malformed requests yield an error status"): the   *)
(* shapes a client can form for each RPC, which of them are malformed      *)
(* (MustReject), and the judge for what a real server process answered.    *)
(***************************************************************************)
EXTENDS Integers, Sequences, FiniteSets, TLC, Json, IOUtils, SequencesExt

LabelOps == {"EXISTS", "EQUAL", "NOT_EXISTS", "IN", "LT", "LTE", "LT_NUMERIC", "LTE_NUMERIC", "UNKNOWN99"}
ResShapes == {"ok", "absent", "nometa", "nospec", "badversion", "badphase", "garbagespec"}

QueryShapes == [lop : LabelOps, nval : {0, 1, 2}, invert : BOOLEAN, re : {"none"}]
               \cup [lop : {"none"}, nval : {0}, invert : {FALSE}, re : {"ok", "bad"}]
(* noopt = TRUE: the request carries no options message at all (every options field of the wire format is optional) *)
Shapes0 ==
       [rpc : {"Create", "Update"}, res : ResShapes, phase : {"none", "running", "bogus"},
        lop : {"none"}, nval : {0}, invert : {FALSE}, re : {"none"}, w : {"none"}]
  \cup {[rpc |-> "List", res |-> "ok", phase |-> "none", lop |-> q.lop, nval |-> q.nval, invert |-> q.invert, re |-> q.re, w |-> "none"] : q \in QueryShapes}
  \cup {[rpc |-> "Watch", res |-> "ok", phase |-> "none", lop |-> q.lop, nval |-> q.nval, invert |-> q.invert, re |-> q.re, w |-> w]
           : q \in QueryShapes, w \in {"kind", "kind-agg"}}
  \cup [rpc : {"Watch"}, res : {"ok"}, phase : {"none"}, lop : {"none", "EXISTS"}, nval : {0}, invert : {FALSE}, re : {"none"},
        w : {"id", "id-bootstrap", "id-tail-neg", "kind-tail-neg", "kind-garbage-bookmark", "id-garbage-bookmark", "kind-empty-bookmark",
             "kind-bootstrap-and-tail", "kind-api0", "id-api0"}]
  \cup [rpc : {"Get", "Destroy", "Teardown", "TeardownAndDestroy"}, res : {"ok", "absent"}, phase : {"none"},
        lop : {"none"}, nval : {0}, invert : {FALSE}, re : {"none"}, w : {"none"}]
With(s, b) == [rpc |-> s.rpc, res |-> s.res, phase |-> s.phase, lop |-> s.lop, nval |-> s.nval, invert |-> s.invert,
               re |-> s.re, w |-> s.w, noopt |-> b]
Shapes == {With(s, FALSE) : s \in Shapes0}
     \cup {With(s, TRUE) : s \in {x \in Shapes0 : x.phase = "none" /\ x.lop = "none" /\ x.re = "none"
                                                  /\ x.w \in {"none", "kind", "kind-agg", "id", "kind-api0", "id-api0"}}}

(* shapes that are malformed in a way the server must answer with an error status *)
MustReject(s) ==
  \/ s.rpc \in {"Create", "Update"} /\ s.res \in {"absent", "nometa", "badversion", "badphase"}
  \/ s.rpc = "Update" /\ s.phase = "bogus"
  \/ s.lop = "UNKNOWN99"
  \/ s.re = "bad"
  \/ s.w \in {"kind-garbage-bookmark", "id-garbage-bookmark", "id-bootstrap", "kind-bootstrap-and-tail"}
  \/ s.rpc = "Watch" /\ s.w = "id" /\ s.lop # "none"

=============================================================================
