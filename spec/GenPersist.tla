----------------------------- MODULE GenPersist -----------------------------
(* Request sequences for the persistence driver: the store requests of MC_Store annotated with a *)
(* fault annotation for the backing-store call the request will make (none / fail / crash before  *)
(* or after the backing-store write) plus stand-alone crashes, load failures and    *)
(* restarts whose first access is made by two clients at once (crashRace).                 *)
EXTENDS MC_Store
VARIABLES ann
gvars == <<store, res, hist, ann>>
Faults == <<"none", "none", "none", "none", "none", "none", "fail", "crashBefore", "crashAfter", "crashBetween", "loadFail", "crashRace", "crashRace">>
PInit == Init /\ ann = <<>>
PNext == /\ Len(hist) < GenDepth
         /\ \E r \in {GenReq} : (\E cls \in Outcomes(r) : Do(r, cls))
                                /\ hist' = Append(hist, [req |-> r, fault |-> Faults[RandomElement(1..Len(Faults))]])
         /\ UNCHANGED ann
PSpec == PInit /\ [][PNext]_gvars
PEmit == Len(hist) < GenDepth \/ PrintT(<<"BEH", ToJson(hist)>>)
=============================================================================
