---------------------------- MODULE TraceStoreLin ----------------------------
(* Linearizability acceptor for C01: a trace is a real-time ordered sequence of   *)
(* call / ret events of concurrent clients recorded from the real code, closed by *)
(* an "end" line carrying the final contents.  The trace is accepted iff the      *)
(* linearization points (the unlogged internal action Lin) can be placed between  *)
(* each call and its return such that the sequential specification Store explains *)
(* every result and the final contents.  Creation-time classes are not compared   *)
(* here (the sequential replay does that).                                        *)
EXTENDS Store, Json, IOUtils, SequencesExt

TraceLog == ndJsonDeserialize(IOEnv.TRACE)

VARIABLES l, pend
lvars == <<store, res, l, pend>>

AbsV(j) == [ver |-> j.ver, owner |-> j.owner, phase |-> j.phase, fins |-> ToSet(j.fins),
            labels |-> {<<p[1], p[2]>> : p \in ToSet(j.labels)}, spec |-> j.spec, cr |-> 0]
AbsK(j) == [ns |-> j.ns, typ |-> j.typ, id |-> j.id]
AbsKVs(js) == {<<AbsK(p.k), AbsV(p.v)>> : p \in ToSet(js)}
AbsReq(e) ==
  LET o == AbsV(e.req.obj) IN
  [op |-> e.req.op, k |-> AbsK(e.req.k), owner |-> e.req.owner, exp |-> e.req.exp,
   obj |-> [o EXCEPT !.owner = IF e.req.op = "create" THEN e.req.owner ELSE o.owner]]

Init == /\ store = Empty /\ res = [cls |-> "ok", out |-> {}] /\ l = 1 /\ pend = Empty
        /\ TLCSet(1, 1)

Cur == TraceLog[l]

Reset == /\ Cur.ev = "reset" /\ l' = l + 1
         /\ store' = Empty /\ pend' = Empty /\ UNCHANGED res

Call == /\ Cur.ev = "call" /\ l' = l + 1
        /\ Cur.c \notin DOMAIN pend
        /\ pend' = Put(pend, Cur.c, [req |-> AbsReq(Cur), lin |-> FALSE, cls |-> "", out |-> {}])
        /\ UNCHANGED <<store, res>>

(* the linearization point of client c's pending call; w.l.o.g. placed right before some return *)
Lin(c) == /\ Cur.ev \in {"ret", "end"}
          /\ ~pend[c].lin
          /\ \E cls \in Outcomes(pend[c].req) :
               /\ Do(pend[c].req, cls)
               /\ pend' = [pend EXCEPT ![c] = [@ EXCEPT !.lin = TRUE, !.cls = cls, !.out = Output(pend[c].req, cls)]]
          /\ UNCHANGED l

Ret == /\ Cur.ev = "ret" /\ l' = l + 1
       /\ Cur.c \in DOMAIN pend /\ pend[Cur.c].lin
       /\ Cur.cls = pend[Cur.c].cls
       /\ AbsKVs(Cur.out) = pend[Cur.c].out
       /\ pend' = Del(pend, Cur.c)
       /\ UNCHANGED <<store, res>>

End == /\ Cur.ev = "end" /\ l' = l + 1
       /\ pend = Empty
       /\ AbsKVs(Cur.contents) = Contents
       /\ UNCHANGED <<store, res, pend>>

Next == /\ l <= Len(TraceLog)
        /\ \/ Reset \/ Call \/ Ret \/ End
           \/ \E c \in DOMAIN pend : Lin(c)

Spec == Init /\ [][Next]_lvars

(* high-water mark of the trace position (needs -workers 1) *)
HighWater == IF l > TLCGet(1) THEN TLCSet(1, l) ELSE TRUE
Post == PrintT(<<"CONSUMED", TLCGet(1) - 1>>) /\ TLCGet(1) = Len(TraceLog) + 1
=============================================================================
