----------------------------- MODULE TraceInmem -----------------------------
(***************************************************************************)
(* Trace validation at the LINEARIZATION POINTS of the in-memory store.     *)
(*                                                                         *)
(* The trace is written by build-tag guarded hooks inside                   *)
(* pkg/state/impl/inmem/collection.go (verif_on.go), each called while the  *)
(* collection mutex is held, after the state change and before anybody     *)
(* else can observe it; one trace = the life of one ResourceCollection in   *)
(* any execution of the real code (the repository's own test suites, the    *)
(* harness drivers, threaded stress runs) - no scheduling control needed,   *)
(* because the order of the lines IS the order of the critical sections.    *)
(*                                                                         *)
(* Every line is checked against the sequential store specification        *)
(* (C01: the branch an operation took must be one of the applicable         *)
(* outcomes, the stored value afterwards must be the one the specification  *)
(* computes - so a failed call that mutates, a lost creation time, a        *)
(* version that is not bumped by exactly one, a destroy with pending        *)
(* finalizers, or ANY out-of-band change of a stored object (aliasing, C19) *)
(* is a mismatch), against the committed log (every commit publishes        *)
(* exactly its event at the next position), and against the watch           *)
(* vocabulary of WatchProp (C02/C12/C14: start position per option, tail    *)
(* and bookmark rules, the events copied out of the ring are the log        *)
(* entries of those positions, overrun only beyond the initial capacity,    *)
(* selector rewrite, every event handed to a subscriber is the next one of  *)
(* its exact stream, Errored is terminal).                                  *)
(***************************************************************************)
EXTENDS Integers, Sequences, FiniteSets, TLC, Json, IOUtils, SequencesExt

TraceLog == ndJsonDeserialize(IOEnv.TRACE)

VARIABLES store,    \* id -> stored value (the projection the hooks log)
          log,      \* committed events of this collection, in commit order
          cap,      \* current ring capacity
          cfg,      \* [init, max, gap, backed]
          ws,       \* watchers: w -> [kind, id, pos, q, status]
          claim,    \* TRUE while the last published event has not been claimed by its operation
          l, tid, bad, nprec

tvars == <<store, log, cap, cfg, ws, claim, l, tid, bad, nprec>>

Empty == [x \in {} |-> 0]
Put(f, k, v) == [x \in DOMAIN f \cup {k} |-> IF x = k THEN v ELSE f[x]]
Del(f, k)    == [x \in DOMAIN f \ {k} |-> f[x]]
Min2(a, b) == IF a < b THEN a ELSE b
Max2(a, b) == IF a > b THEN a ELSE b
wp == Len(log)

Absent == [x |-> FALSE, ver |-> 0, owner |-> "", phase |-> "", fins |-> <<>>, lab |-> "", ann |-> "", cr |-> 0, spec |-> ""]
Cur(i) == IF i \in DOMAIN store THEN store[i] ELSE Absent

(* spec digests are compared only when the hook could compute both *)
SameVal(a, b) ==
  /\ a.x = b.x
  /\ a.x => /\ a.ver = b.ver /\ a.owner = b.owner /\ a.phase = b.phase /\ a.fins = b.fins
            /\ a.lab = b.lab /\ a.ann = b.ann /\ a.cr = b.cr
            /\ (a.spec = "" \/ b.spec = "" \/ a.spec = b.spec)

Ev(t, i, v, ov, b) == [t |-> t, id |-> i, ver |-> v, over |-> ov, bm |-> b]
AbsEv(j) == Ev(j.t, j.id, j.ver, j.over, j.bm)

Retained(w, c) == Max2(w - c + cfg.gap, 0)
BookmarkAccepted(kind, p, w, c) == p >= w - c + cfg.gap /\ p >= (IF kind = "one" THEN 0 ELSE -1) /\ p < w

RECURSIVE OnlyId(_, _)
OnlyId(s, i) == IF s = <<>> THEN <<>> ELSE (IF Head(s).id = i THEN <<Head(s)>> ELSE <<>>) \o OnlyId(Tail(s), i)
LastN(sq, n) == IF Len(sq) <= n THEN sq ELSE SubSeq(sq, Len(sq) - n + 1, Len(sq))

Init == /\ store = Empty /\ log = <<>> /\ cap = 0 /\ cfg = [init |-> 0, max |-> 0, gap |-> 0, backed |-> FALSE]
        /\ ws = Empty /\ claim = FALSE /\ l = 1 /\ tid = "" /\ bad = FALSE /\ nprec = 0

Reject(what, exp, got) ==
  /\ PrintT(<<"MISMATCH", tid, l, what>>)
  /\ PrintT(<<"DETAIL", ToString(exp), ToString(got)>>)
  /\ bad' = TRUE
  /\ UNCHANGED <<store, log, cap, cfg, ws, claim, tid, nprec>>

Keep == UNCHANGED <<tid, bad>>

(* ------------------------------------------------------------- operations *)
Supplied(e) == IF e.br \in {"ok", "backing"} THEN e.nw.ver - 1 ELSE e.rver   \* the version the caller supplied to Update
Applicable(e) ==
  LET c == Cur(e.id)
      okb == {"ok"} \cup (IF cfg.backed THEN {"backing"} ELSE {})
  IN
  CASE e.op = "create" -> IF c.x THEN {"exists"} ELSE okb
    [] e.op = "update" ->
         IF ~c.x THEN {"notfound"}
         ELSE LET f == (IF c.owner # e.owner THEN {"owner"} ELSE {})
                       \cup (IF c.ver # Supplied(e) THEN {"version"} ELSE {})
                       \cup (IF e.exp # "any" /\ c.phase # e.exp THEN {"phase"} ELSE {})
              IN IF f = {} THEN okb ELSE f
    [] e.op = "destroy" ->
         IF ~c.x THEN {"notfound"}
         ELSE LET f == (IF c.owner # e.owner THEN {"owner"} ELSE {}) \cup (IF c.fins # <<>> THEN {"fins"} ELSE {})
              IN IF f = {} THEN okb ELSE f

ImplBranch(e) ==
  LET a == Applicable(e) IN
  IF "owner" \in a THEN "owner" ELSE IF "version" \in a THEN "version" ELSE e.br

(* the value the specification stores for a successful operation *)
After(e) ==
  LET c == Cur(e.id) IN
  CASE e.op = "create"  -> [e.nw EXCEPT !.ver = 1, !.owner = e.owner]
    [] e.op = "update"  -> [e.nw EXCEPT !.ver = c.ver + 1, !.cr = c.cr]
    [] e.op = "destroy" -> Absent

PubOf(e) ==
  LET c == Cur(e.id) IN
  CASE e.op = "create"  -> Ev("created", e.id, 1, 0, wp - 1)
    [] e.op = "update"  -> Ev("updated", e.id, c.ver + 1, c.ver, wp - 1)
    [] e.op = "destroy" -> Ev("destroyed", e.id, c.ver, 0, wp - 1)

Op(e) ==
  IF e.br \notin Applicable(e) THEN Reject("branch-not-applicable", [applicable |-> Applicable(e), stored |-> Cur(e.id)], e)
  ELSE IF e.br # "ok"
  THEN IF claim THEN Reject("event-published-by-failed-operation", "", e)
       ELSE IF ~SameVal(e.st, Cur(e.id)) THEN Reject("failed-operation-changed-the-store", Cur(e.id), e.st)
       ELSE /\ nprec' = nprec + (IF e.br = ImplBranch(e) THEN 0 ELSE 1)
            /\ UNCHANGED <<store, log, cap, cfg, ws, claim>> /\ Keep
  ELSE IF e.op = "update" /\ e.nw.ver # Cur(e.id).ver + 1 THEN Reject("version-not-bumped-by-one", Cur(e.id).ver + 1, e.nw.ver)
  ELSE IF ~SameVal(e.st, After(e)) THEN Reject("stored-value", After(e), e.st)
  ELSE IF ~claim \/ log[wp] # PubOf(e) THEN Reject("commit-without-its-event", PubOf(e), IF wp > 0 THEN log[wp] ELSE "nothing")
  ELSE /\ store' = IF e.op = "destroy" THEN Del(store, e.id) ELSE Put(store, e.id, [e.st EXCEPT !.spec = IF e.st.spec = "" THEN e.nw.spec ELSE @])
       /\ claim' = FALSE
       /\ UNCHANGED <<log, cap, cfg, ws, nprec>> /\ Keep

(* the next line written under the collection lock (send lines are written by the watch goroutines without it) *)
RECURSIVE NextLocked(_)
NextLocked(k) == IF k > Len(TraceLog) THEN [ev |-> "none"]
                 ELSE IF TraceLog[k].ev = "wsend" THEN NextLocked(k + 1) ELSE TraceLog[k]

(* inject: the commit of Create, or one item of the lazy load from the backing store *)
Inject(e) ==
  LET nx == NextLocked(l + 1)
      mine == nx.ev = "op" /\ nx.op = "create" /\ nx.br = "ok" /\ nx.id = e.id
  IN IF mine THEN UNCHANGED <<store, log, cap, cfg, ws, claim, nprec>> /\ Keep
     ELSE IF ~claim \/ log[wp] # Ev("created", e.id, e.st.ver, 0, wp - 1) THEN Reject("load-without-its-event", e, IF wp > 0 THEN log[wp] ELSE "nothing")
     ELSE /\ store' = Put(store, e.id, e.st) /\ claim' = FALSE
          /\ UNCHANGED <<log, cap, cfg, ws, nprec>> /\ Keep

Publish(e) ==
  IF claim THEN Reject("event-without-commit", "", log[wp])
  ELSE IF e.pos # wp THEN Reject("publish-position", wp, e.pos)
  ELSE IF e.cap < cfg.init THEN Reject("ring-capacity-below-initial", cfg, e.cap)
  (* the bookmark of an event IS its position in the log, wherever the implementation keeps or computes it *)
  ELSE /\ log' = Append(log, [AbsEv(e.e) EXCEPT !.bm = wp]) /\ cap' = e.cap /\ claim' = TRUE
       /\ UNCHANGED <<store, cfg, ws, nprec>> /\ Keep

(* ---------------------------------------------------------------- watches *)
Watcher(kind, i, pos, q) == [kind |-> kind, id |-> i, pos |-> pos, q |-> q, status |-> "active"]


WStart(e) ==
  LET kd == e.kind
      noop(p) == IF e.bb THEN <<Ev("noop", "", 0, 0, p)>> ELSE <<>>
      initq == [k \in 1..Len(e.init) |-> AbsEv(e.init[k])]
  IN
  IF claim THEN Reject("event-without-commit", "", log[wp])
  ELSE IF e.wp # wp THEN Reject("write-position", wp, e.wp)
  ELSE IF e.res # "ok"
  THEN IF e.bm >= -1 /\ BookmarkAccepted(kd, e.bm, wp, cap)
       THEN Reject("bookmark-outcome", [accept |-> TRUE, p |-> e.bm, wp |-> wp, cap |-> cap], e.res)
       ELSE UNCHANGED <<store, log, cap, cfg, ws, claim, nprec>> /\ Keep
  ELSE
  CASE e.mode = "bookmark" ->
         IF ~(e.bm >= -1 /\ BookmarkAccepted(kd, e.bm, wp, cap))
         THEN Reject("bookmark-outcome", [accept |-> FALSE, p |-> e.bm, wp |-> wp, cap |-> cap], e.res)
         ELSE IF e.pos # e.bm + 1 THEN Reject("resume-position", e.bm + 1, e.pos)
         ELSE /\ ws' = Put(ws, e.w, Watcher(kd, e.id, e.pos, noop(e.pos - 1)))
              /\ UNCHANGED <<store, log, cap, cfg, claim, nprec>> /\ Keep
    [] e.mode = "tail" ->
         LET c == cap
             window == SubSeq(log, Retained(wp, c) + 1, wp)
             must == IF kd = "one" THEN LastN(OnlyId(window, e.id), e.n) ELSE LastN(window, e.n)
             got  == IF e.pos < 0 \/ e.pos > wp THEN <<Ev("bad-start-position", "", 0, 0, e.pos)>>
                     ELSE IF kd = "one" THEN OnlyId(SubSeq(log, e.pos + 1, wp), e.id) ELSE SubSeq(log, e.pos + 1, wp)
         IN IF got # must THEN Reject("tail-contents", must, [pos |-> e.pos, got |-> got])
            ELSE /\ ws' = Put(ws, e.w, Watcher(kd, e.id, e.pos, noop(e.pos - 1)))
                 /\ UNCHANGED <<store, log, cap, cfg, claim, nprec>> /\ Keep
    [] e.mode = "bootstrap" ->
         LET ids == e.sel    \* in the order the code lists them (TLC cannot order strings)
             exp == [k \in 1..Len(ids) |-> Ev("created", ids[k], Cur(ids[k]).ver, 0, -2)]
         IN IF e.pos # wp THEN Reject("start-position", wp, e.pos)
            ELSE IF \E k \in 1..Len(ids) : ~Cur(ids[k]).x THEN Reject("bootstrap-of-absent-resource", DOMAIN store, ids)
            ELSE IF initq # exp THEN Reject("bootstrap-contents", exp, initq)
            ELSE /\ ws' = Put(ws, e.w, Watcher(kd, e.id, e.pos, exp \o <<Ev("bootstrapped", "", 0, 0, wp - 1)>> \o noop(wp - 1)))
                 /\ UNCHANGED <<store, log, cap, cfg, claim, nprec>> /\ Keep
    [] OTHER ->
         LET exp == IF kd = "one"
                    THEN << IF Cur(e.id).x THEN Ev("created", e.id, Cur(e.id).ver, 0, -2) ELSE Ev("destroyed", e.id, -1, 0, -2) >>
                    ELSE <<>>
         IN IF e.pos # wp THEN Reject("start-position", wp, e.pos)
            ELSE IF kd = "one" /\ initq # exp THEN Reject("initial-event", exp, initq)
            ELSE /\ ws' = Put(ws, e.w, Watcher(kd, e.id, e.pos, exp \o noop(wp - 1)))
                 /\ UNCHANGED <<store, log, cap, cfg, claim, nprec>> /\ Keep

(* selector rewrite of the raw events of a kind watch, from the match bits the code computed *)
RECURSIVE Rewritten(_, _)
Rewritten(evs, raw) ==
  IF evs = <<>> THEN <<>>
  ELSE LET r == Head(evs)
           b == Head(raw)
           one == CASE r.t \in {"created", "destroyed"} -> IF b.mn THEN <<r>> ELSE <<>>
                    [] r.t = "updated" ->
                         IF b.mo /\ ~b.mn THEN <<Ev("destroyed", r.id, r.ver, 0, r.bm)>>
                         ELSE IF ~b.mo /\ b.mn THEN <<Ev("created", r.id, r.ver, 0, r.bm)>>
                         ELSE IF b.mo /\ b.mn THEN <<r>> ELSE <<>>
                    [] OTHER -> <<r>>
       IN one \o Rewritten(Tail(evs), Tail(raw))
NoBm(sq) == [k \in 1..Len(sq) |-> [sq[k] EXCEPT !.bm = 0]]

WRead(e) ==
  IF e.w \notin DOMAIN ws THEN Reject("read-by-unknown-watch", "", e.w)
  ELSE
  LET r == ws[e.w] IN
  IF claim THEN Reject("event-without-commit", "", log[wp])
  ELSE IF r.status # "active" THEN Reject("read-after-errored", r.status, e)
  ELSE IF e.wp # wp THEN Reject("write-position", wp, e.wp)
  ELSE IF e.over
  THEN IF wp - r.pos <= cfg.init THEN Reject("errored-without-lag", [lag |-> wp - r.pos, initcap |-> cfg.init], e)
       ELSE /\ ws' = [ws EXCEPT ![e.w].status = "overrun", ![e.w].q = @ \o <<Ev("errored", "", 0, 0, -2)>>]
            /\ UNCHANGED <<store, log, cap, cfg, claim, nprec>> /\ Keep
  ELSE IF r.kind = "one"
  THEN LET scanned == IF e.npos >= r.pos /\ e.npos <= wp THEN SubSeq(log, r.pos + 1, e.npos) ELSE <<>>
           hits == {k \in 1..Len(scanned) : scanned[k].id = r.id}
       IN IF e.npos < r.pos \/ e.npos > wp THEN Reject("read-position", [from |-> r.pos, wp |-> wp], e.npos)
          ELSE IF e.found /\ hits # {Len(scanned)} THEN Reject("event-skipped-or-foreign", scanned, e)
          ELSE IF ~e.found /\ (hits # {} \/ e.npos # wp) THEN Reject("event-dropped", scanned, e)
          ELSE /\ ws' = [ws EXCEPT ![e.w].pos = e.npos, ![e.w].q = IF e.found THEN @ \o <<log[e.npos]>> ELSE @]
               /\ UNCHANGED <<store, log, cap, cfg, claim, nprec>> /\ Keep
  ELSE LET must == SubSeq(log, r.pos + 1, wp)
           got  == [k \in 1..Len(e.raw) |-> AbsEv(e.raw[k])]
       IN IF e.pos # r.pos THEN Reject("read-position", r.pos, e.pos)
          ELSE IF NoBm(got) # NoBm(must) THEN Reject("ring-contents", must, got)
          ELSE /\ ws' = [ws EXCEPT ![e.w].pos = wp, ![e.w].q = @ \o Rewritten(must, e.raw)]
               /\ UNCHANGED <<store, log, cap, cfg, claim, nprec>> /\ Keep

WSend(e) ==
  IF e.w \notin DOMAIN ws THEN Reject("send-by-unknown-watch", "", e.w)
  ELSE
  LET r == ws[e.w]
      got == AbsEv(e.e)
  IN IF r.status = "errored" THEN Reject("event-after-errored", "", got)
     ELSE IF r.q = <<>> THEN Reject("unexpected-event", "nothing", got)
     ELSE IF Head(r.q) # got THEN Reject("wrong-event", Head(r.q), got)
     ELSE /\ ws' = [ws EXCEPT ![e.w].q = Tail(@), ![e.w].status = IF got.t = "errored" THEN "errored" ELSE @]
          /\ UNCHANGED <<store, log, cap, cfg, claim, nprec>> /\ Keep

Next ==
  /\ l <= Len(TraceLog)
  /\ l' = l + 1
  /\ LET e == TraceLog[l] IN
       IF e.ev = "coll"
       THEN /\ store' = Empty /\ log' = <<>> /\ cap' = e.init /\ ws' = Empty /\ claim' = FALSE
            /\ cfg' = [init |-> e.init, max |-> e.max, gap |-> e.gap, backed |-> e.backed]
            /\ tid' = e.tid /\ bad' = FALSE /\ UNCHANGED nprec
       ELSE IF bad THEN UNCHANGED <<store, log, cap, cfg, ws, claim, tid, bad, nprec>>
       ELSE CASE e.ev = "op"     -> Op(e)
              [] e.ev = "inj"    -> Inject(e)
              [] e.ev = "pub"    -> Publish(e)
              [] e.ev = "wstart" -> WStart(e)
              [] e.ev = "wread"  -> WRead(e)
              [] e.ev = "wsend"  -> WSend(e)
              [] OTHER -> UNCHANGED <<store, log, cap, cfg, ws, claim, tid, bad, nprec>>
  /\ (l = Len(TraceLog)) => PrintT(<<"PRECEDENCE", nprec'>>)

Spec == Init /\ [][Next]_tvars
View == l   \* one successor per state: the line number identifies the state
Consumed == TLCGet("stats").diameter - 1
Post == PrintT(<<"CONSUMED", Consumed>>) /\ Consumed = Len(TraceLog)
=============================================================================
