SPECIFICATION GenSpec
CONSTANTS Actors <- A3  Programs <- ProgramsIdem
CHECK_DEADLOCK FALSE
