----------------------------- MODULE LifecycleT -----------------------------
(***************************************************************************)
(* One input / one output of a Transform controller with input finalizers  *)
(* (C06, C07), following transform/controller.go: a reconcile cycle lists  *)
(* the inputs (c0), processes them (p1 AddFinalizer, p2 Modify, or the     *)
(* tearing-down branch), lists the outputs (c1), cleans them up            *)
(* (c2 Teardown, c2d Destroy), removes input finalizers (c3) and restarts  *)
(* itself if an error was collected.  The external actor is the one of     *)
(* LifecycleQT (without the input-side foreign finalizer).                 *)
(* Extra = TRUE: an extra input kind (WithExtraInputs); the transform      *)
(* reads the secondary resource (p2 reads, p2w writes); any change of the  *)
(* secondary wakes the controller.  Image of an input: 10 * in.val + sec.  *)
(***************************************************************************)
EXTENDS Integers, Sequences, FiniteSets, TLC
CONSTANTS MaxExt, Finalizers,     \* Finalizers: BOOLEAN (WithInputFinalizers)
          Extra                  \* BOOLEAN (WithExtraInputs)
VARIABLES in, out, ext, pc, lin, lout, touched, removeFin, err, dirty, sec, lsec
vars == <<in, out, ext, pc, lin, lout, touched, removeFin, err, dirty, sec, lsec>>
Absent == [ex |-> FALSE, ph |-> "run", fins |-> {}, val |-> 0]
C == "C"
F == "F"
Vals == {1, 2}
DReady(o) == o.ex /\ o.ph = "td" /\ o.fins = {}

Init == in = Absent /\ out = Absent /\ ext = 0 /\ pc = "idle" /\ lin = Absent /\ lout = Absent
        /\ touched = FALSE /\ removeFin = FALSE /\ err = FALSE /\ dirty = TRUE /\ sec = 0 /\ lsec = 0

(* notifications: any input change; output changes that make / made it destroy-ready *)
Wake(nin, nout) == dirty \/ nin # in \/ (nout # out /\ (DReady(nout) \/ (~nout.ex /\ DReady(out))))
ExtStep(nin, nout) == /\ ext < MaxExt /\ ext' = ext + 1 /\ in' = nin /\ out' = nout /\ dirty' = Wake(nin, nout)
                      /\ UNCHANGED <<pc, lin, lout, touched, removeFin, err, sec, lsec>>
SecChange == /\ Extra /\ ext < MaxExt /\ ext' = ext + 1 /\ \E v \in {0, 1, 2} \ {sec} : sec' = v
             /\ dirty' = TRUE /\ UNCHANGED <<in, out, pc, lin, lout, touched, removeFin, err, lsec>>
Ext == \/ ~in.ex /\ \E v \in Vals : ExtStep([ex |-> TRUE, ph |-> "run", fins |-> {}, val |-> v], out)
       \/ in.ex /\ in.ph = "run" /\ \E v \in Vals \ {in.val} : ExtStep([in EXCEPT !.val = v], out)
       \/ in.ex /\ in.ph = "run" /\ ExtStep([in EXCEPT !.ph = "td"], out)
       \/ in.ex /\ in.fins = {} /\ ExtStep(Absent, out)
       \/ out.ex /\ F \notin out.fins /\ ExtStep(in, [out EXCEPT !.fins = @ \cup {F}])
       \/ out.ex /\ F \in out.fins /\ ExtStep(in, [out EXCEPT !.fins = @ \ {F}])

W(nin, nout) == in' = nin /\ out' = nout /\ dirty' = Wake(nin, nout)
Stay == UNCHANGED <<in, out, dirty>>
K == UNCHANGED <<ext, sec>>
Ks == UNCHANGED lsec

C0 == /\ Ks /\ pc = "idle" /\ dirty /\ pc' = "p1" /\ dirty' = FALSE /\ lin' = in
      /\ touched' = FALSE /\ removeFin' = FALSE /\ err' = FALSE /\ UNCHANGED <<in, out, lout>> /\ K
P1 == /\ Ks /\ pc = "p1" /\ K /\ UNCHANGED <<lin, lout>>
      /\ IF ~lin.ex THEN Stay /\ pc' = "c1" /\ UNCHANGED <<touched, removeFin, err>>
         ELSE IF lin.ph = "td"
         THEN /\ Stay /\ pc' = "c1" /\ UNCHANGED <<touched, err>>
              /\ removeFin' = (Finalizers /\ C \in lin.fins)          \* finalizer removal handler succeeded
         ELSE /\ touched' = TRUE /\ UNCHANGED removeFin
              /\ IF Finalizers /\ C \notin lin.fins
                 THEN IF in.ex THEN W([in EXCEPT !.fins = @ \cup {C}], out) /\ pc' = "p2" /\ UNCHANGED err
                      ELSE Stay /\ err' = TRUE /\ pc' = "c1"           \* AddFinalizer failed: skip the Modify
                 ELSE Stay /\ pc' = "p2" /\ UNCHANGED err
P2 == /\ pc = "p2" /\ K /\ UNCHANGED <<lin, lout, touched, removeFin, err>> /\ Stay /\ lsec' = sec /\ pc' = "p2w"
Img == 10 * lin.val + lsec
P2w == /\ pc = "p2w" /\ K /\ Ks /\ UNCHANGED <<lin, lout, touched, removeFin>> /\ pc' = "c1"
       /\ IF ~out.ex THEN W(in, [ex |-> TRUE, ph |-> "run", fins |-> {}, val |-> Img]) /\ UNCHANGED err
          ELSE IF out.ph = "td" THEN Stay /\ err' = TRUE               \* phase conflict collected as an error
          ELSE IF out.val = Img THEN Stay /\ UNCHANGED err
          ELSE W(in, [out EXCEPT !.val = Img]) /\ UNCHANGED err
C1 == /\ Ks /\ pc = "c1" /\ K /\ Stay /\ lout' = out /\ UNCHANGED <<lin, touched, err>>
      /\ IF ~out.ex THEN pc' = "c3" /\ UNCHANGED removeFin
         ELSE IF out.ph # "td" /\ touched THEN pc' = "c3" /\ removeFin' = FALSE
         ELSE pc' = "c2" /\ UNCHANGED removeFin
C2 == /\ Ks /\ pc = "c2" /\ K /\ UNCHANGED <<lin, lout, touched>>
      /\ IF ~out.ex THEN Stay /\ err' = TRUE /\ removeFin' = FALSE /\ pc' = "c3"
         ELSE /\ W(in, [out EXCEPT !.ph = "td"]) /\ UNCHANGED err
              /\ IF out.fins = {} THEN pc' = "c2d" /\ UNCHANGED removeFin ELSE pc' = "c3" /\ removeFin' = FALSE
C2d == /\ Ks /\ pc = "c2d" /\ K /\ UNCHANGED <<lin, lout, touched>> /\ pc' = "c3"
       /\ IF out.ex /\ out.fins = {} THEN W(in, Absent) /\ UNCHANGED <<err, removeFin>>
          ELSE Stay /\ err' = TRUE /\ removeFin' = FALSE
C3 == /\ Ks /\ pc = "c3" /\ K /\ UNCHANGED <<lin, lout, touched, removeFin>>
      /\ IF removeFin /\ in.ex /\ C \in in.fins THEN W([in EXCEPT !.fins = @ \ {C}], out) ELSE Stay
      /\ pc' = "end" /\ UNCHANGED err
End == /\ Ks /\ pc = "end" /\ K /\ pc' = "idle" /\ UNCHANGED <<in, out, lin, lout, touched, removeFin, err>>
       /\ dirty' = (dirty \/ err)           \* a collected error restarts the controller (fresh reconcile after back-off)
Ctrl == C0 \/ P1 \/ P2 \/ P2w \/ C1 \/ C2 \/ C2d \/ C3 \/ End
Next == Ext \/ SecChange \/ Ctrl
Spec == Init /\ [][Next]_vars

FinBeforeOut == Finalizers => (out.ex => (in.ex /\ C \in in.fins))
Quiescent == pc = "idle" /\ ~dirty
Held == out.ex /\ F \in out.fins
Converged ==
  /\ (in.ex /\ in.ph = "run") => (out.ex /\ ((out.ph = "run" /\ out.val = 10 * in.val + sec) \/ Held))
  /\ (~in.ex) => (~out.ex \/ Held)
  /\ (in.ex /\ in.ph = "td") => ((~out.ex \/ Held) /\ (~out.ex => C \notin in.fins))
C06 == Quiescent => Converged
=============================================================================
