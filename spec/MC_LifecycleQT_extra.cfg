SPECIFICATION Spec
CONSTANTS MaxExt = 7  IgnoreUntil = FALSE  AllowedFins = {}  Extra = TRUE
INVARIANTS FinBeforeOut C06
CHECK_DEADLOCK FALSE
