SPECIFICATION Spec
CONSTANTS Keys <- K3
          MaxVer = 2
CONSTRAINT Bound
VIEW View
INVARIANTS TypeOK TouchedOnlyWhileTracking
PROPERTIES ForeignUntouched CleanupExact CleanupComplete FailedCleanupKeepsTracker
CHECK_DEADLOCK FALSE
