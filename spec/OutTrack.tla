------------------------------ MODULE OutTrack ------------------------------
(***************************************************************************)
(* Output tracking of the reduced runtime (StartTrackingOutputs /          *)
(* CleanupOutputs, rruntime/output_tracker.go, state.go, run.go): a        *)
(* controller brackets a reconcile cycle with Start ... Cleanup(kinds);    *)
(* every Create / Update / Modify issued in between marks its target as    *)
(* touched (whatever its outcome); Cleanup destroys exactly the resources  *)
(* of the given kinds that the controller owns and did not touch, in list  *)
(* order, stops at the first failing Destroy (pending finalizer) leaving   *)
(* tracking enabled, and otherwise disables tracking.  Start while         *)
(* tracking and Cleanup while not tracking panic; any exit from the        *)
(* controller's Run (error, panic) discards the tracker.                   *)
(* External actors create foreign-owned resources and add / remove         *)
(* finalizers; nothing the controller does may change a resource it does   *)
(* not own (part of C08: confinement to owned resources).                  *)
(***************************************************************************)
EXTENDS Integers, Sequences, FiniteSets, TLC

Self == "ctrl"
Other == "other"
CONSTANTS Keys, MaxVer                                  \* Keys: sequence of keys in the list order of the store
KeySet == {Keys[i] : i \in 1..Len(Keys)}
TypOf(k) == IF k \in {"tA/a", "tA/b"} THEN "tA" ELSE "tB"
Kinds == {"tA", "tB"}
KindLists == {<<"tA">>, <<"tB">>, <<"tA", "tB">>, <<"tB", "tA">>, <<>>}

Absent == [ver |-> 0, owner |-> "", phase |-> "running", fins |-> {}]

VARIABLES res, tracking, touched, last,
          tw     \* a SECOND controller of the same runtime that tracks its own (shared-kind) output "tB/t": [tracking, touched, ex]
mvars == <<res, tracking, touched>>
vars == <<res, tracking, touched, last, tw>>

Init == /\ res = [k \in KeySet |-> Absent]
        /\ tracking = FALSE /\ touched = {} /\ last = [cmd |-> "init", cls |-> "ok"]
        /\ tw = [tracking |-> FALSE, touched |-> FALSE, ex |-> FALSE]

(* ---------------------------------------------------------- controller writes *)
(* <<class, value after>> of a controller write on current value v (owner = Self, default options) *)
Effect(op, v) ==
  CASE op = "create" -> IF v.ver # 0 THEN <<"conflict", v>>
                        ELSE <<"ok", [ver |-> 1, owner |-> Self, phase |-> "running", fins |-> {}]>>
    [] op = "modify" -> IF v.ver = 0 THEN <<"ok", [ver |-> 1, owner |-> Self, phase |-> "running", fins |-> {}]>>
                        ELSE IF v.phase # "running" THEN <<"phaseconflict", v>>
                        ELSE IF v.owner # Self THEN <<"ownerconflict", v>>
                        ELSE <<"ok", [v EXCEPT !.ver = @ + 1]>>
    [] op = "teardown" -> IF v.ver = 0 THEN <<"notfound", v>>
                          ELSE IF v.phase = "tearingDown" THEN <<"ok", v>>
                          ELSE IF v.owner # Self THEN <<"ownerconflict", v>>
                          ELSE <<"ok", [v EXCEPT !.ver = @ + 1, !.phase = "tearingDown"]>>
    [] op = "destroy" -> IF v.ver = 0 THEN <<"notfound", v>>
                         ELSE IF v.owner # Self THEN <<"ownerconflict", v>>
                         ELSE IF v.fins # {} THEN <<"conflict", v>>
                         ELSE <<"ok", Absent>>
Touching == {"create", "modify"}
WriteOps == {"create", "modify", "teardown", "destroy"}

Write(op, k) ==
  LET e == Effect(op, res[k]) IN
  /\ res' = [res EXCEPT ![k] = e[2]]
  /\ touched' = IF tracking /\ op \in Touching THEN touched \cup {k} ELSE touched
  /\ last' = [cmd |-> op, cls |-> e[1]]
  /\ UNCHANGED tracking

(* ------------------------------------------------------------ tracking cycle *)
Restarted == tracking' = FALSE /\ touched' = {}
Start ==
  IF tracking THEN /\ Restarted /\ last' = [cmd |-> "start", cls |-> "panic"] /\ UNCHANGED res
  ELSE /\ tracking' = TRUE /\ touched' = {} /\ last' = [cmd |-> "start", cls |-> "ok"] /\ UNCHANGED res

(* victims of a cleanup over the kind list ks, in the order they are destroyed *)
RECURSIVE VictimsOfKind(_, _, _)
VictimsOfKind(r, t, i) ==
  IF i > Len(Keys) THEN <<>>
  ELSE LET k == Keys[i] IN
       IF TypOf(k) = t /\ r[k].ver # 0 /\ r[k].owner = Self /\ k \notin touched
       THEN <<k>> \o VictimsOfKind(r, t, i + 1) ELSE VictimsOfKind(r, t, i + 1)
RECURSIVE DestroyAll(_, _)
(* <<ok, store after>>: destroys in order, stops at the first resource with a pending finalizer *)
DestroyAll(r, vs) ==
  IF vs = <<>> THEN <<TRUE, r>>
  ELSE IF r[Head(vs)].ver = 0 THEN DestroyAll(r, Tail(vs))     \* (listed and destroyed atomically here)
  ELSE IF r[Head(vs)].fins # {} THEN <<FALSE, r>>
  ELSE DestroyAll([r EXCEPT ![Head(vs)] = Absent], Tail(vs))
RECURSIVE CleanupKinds(_, _)
CleanupKinds(r, ks) ==
  IF ks = <<>> THEN <<TRUE, r>>
  ELSE LET d == DestroyAll(r, VictimsOfKind(r, Head(ks), 1)) IN
       IF d[1] THEN CleanupKinds(d[2], Tail(ks)) ELSE d

Cleanup(ks) ==
  IF ~tracking THEN /\ Restarted /\ last' = [cmd |-> "cleanup", cls |-> "panic"] /\ UNCHANGED res
  ELSE LET c == CleanupKinds(res, ks) IN
       /\ res' = c[2]
       /\ IF c[1] THEN tracking' = FALSE /\ touched' = {} /\ last' = [cmd |-> "cleanup", cls |-> "ok"]
          ELSE UNCHANGED <<tracking, touched>> /\ last' = [cmd |-> "cleanup", cls |-> "conflict"]

(* the controller's Run returns an error: the runtime restarts it with a fresh tracker *)
Restart == Restarted /\ last' = [cmd |-> "restart", cls |-> "ok"] /\ UNCHANGED res

(* ------------------------------------------------------------ external actors *)
XCreate(k) == /\ res[k].ver = 0
              /\ res' = [res EXCEPT ![k] = [ver |-> 1, owner |-> Other, phase |-> "running", fins |-> {}]]
              /\ last' = [cmd |-> "xcreate", cls |-> "ok"] /\ UNCHANGED <<tracking, touched>>
XAddFin(k) == /\ res[k].ver # 0 /\ "x" \notin res[k].fins
              /\ res' = [res EXCEPT ![k].ver = @ + 1, ![k].fins = @ \cup {"x"}]
              /\ last' = [cmd |-> "xaddfin", cls |-> "ok"] /\ UNCHANGED <<tracking, touched>>
XRemFin(k) == /\ res[k].ver # 0 /\ "x" \in res[k].fins
              /\ res' = [res EXCEPT ![k].ver = @ + 1, ![k].fins = @ \ {"x"}]
              /\ last' = [cmd |-> "xremfin", cls |-> "ok"] /\ UNCHANGED <<tracking, touched>>
XDestroy(k) == /\ res[k].ver # 0 /\ res[k].fins = {}
               /\ res' = [res EXCEPT ![k] = Absent]
               /\ last' = [cmd |-> "xdestroy", cls |-> "ok"] /\ UNCHANGED <<tracking, touched>>

(* ------------------------------------------------------------ the twin controller *)
(* its tracking cycle is its own: nothing the first controller does (starting, failing, restarting, cleaning up) changes what *)
(* the twin has touched, and the other way round (the trackers are pooled objects in the code)                                *)
TStart   == /\ ~tw.tracking /\ tw' = [tw EXCEPT !.tracking = TRUE, !.touched = FALSE]
            /\ last' = [cmd |-> "tstart", cls |-> "ok"] /\ UNCHANGED mvars
TModify  == /\ tw' = [tw EXCEPT !.ex = TRUE, !.touched = tw.tracking]
            /\ last' = [cmd |-> "tmodify", cls |-> "ok"] /\ UNCHANGED mvars
TCleanup == /\ tw.tracking /\ tw' = [tracking |-> FALSE, touched |-> FALSE, ex |-> tw.ex /\ tw.touched]
            /\ last' = [cmd |-> "tcleanup", cls |-> "ok"] /\ UNCHANGED mvars
TwinStep == TStart \/ TModify \/ TCleanup

CtrlStep == \/ Start \/ Restart
            \/ \E ks \in KindLists : Cleanup(ks)
            \/ \E op \in WriteOps, k \in KeySet : Write(op, k)
ExtStep == \E k \in KeySet : XCreate(k) \/ XAddFin(k) \/ XRemFin(k) \/ XDestroy(k)
Next == ((CtrlStep \/ ExtStep) /\ UNCHANGED tw) \/ TwinStep
Spec == Init /\ [][Next]_vars

(* ----------------------------------------------------------------- properties *)
TypeOK == /\ tracking \in BOOLEAN /\ touched \subseteq KeySet
          /\ \A k \in KeySet : res[k].owner \in {"", Self, Other} /\ res[k].ver \in Nat
TouchedOnlyWhileTracking == ~tracking => touched = {}
(* whatever the controller does, a resource it does not own is left exactly as it was *)
ForeignUntouched ==
  [][last'.cmd \notin {"xcreate", "xaddfin", "xremfin", "xdestroy"} =>
        \A k \in KeySet : res[k].ver # 0 /\ res[k].owner # Self => res'[k] = res[k]]_vars
(* a successful cleanup leaves, among the cleaned kinds, only touched or foreign resources; and removes nothing else *)
CleanupExact ==
  [][last'.cmd = "cleanup" /\ last'.cls = "ok" =>
        \A k \in KeySet :
          \/ res'[k] = res[k]
          \/ /\ res'[k] = Absent /\ res[k].owner = Self /\ k \notin touched /\ res[k].fins = {}]_vars
CleanupComplete ==
  [][\A ks \in KindLists :
        (tracking /\ Cleanup(ks) /\ last'.cls = "ok") =>
           \A k \in KeySet : (TypOf(k) \in {ks[i] : i \in 1..Len(ks)} /\ res[k].ver # 0 /\ res[k].owner = Self /\ k \notin touched)
                                => res'[k] = Absent]_vars
(* a failed call never enables or disables tracking by itself, except through the restart it causes *)
FailedCleanupKeepsTracker ==
  [][last'.cmd = "cleanup" /\ last'.cls = "conflict" => tracking' /\ touched' = touched]_vars
=============================================================================
