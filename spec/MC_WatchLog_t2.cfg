SPECIFICATION Spec
CONSTANTS InitCap = 3  MaxCap = 5  Gap = 1  Ids = {1, 2}  MaxPub = 6  W = {1}  Tails = {1, 2, 4}  BBs = {FALSE}
INVARIANTS RingCorrect NoBadDelivery ErroredOnlyIfLagged QuietComplete RecentBookmarksAccepted AcceptedBookmarkRetained
CHECK_DEADLOCK FALSE
