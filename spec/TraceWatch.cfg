SPECIFICATION Spec
CONSTANTS InitCap <- EnvInitCap  MaxCap <- EnvMaxCap  Gap <- EnvGap
POSTCONDITION Post
CHECK_DEADLOCK FALSE
