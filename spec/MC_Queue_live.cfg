SPECIFICATION FairSpec
CONSTANTS Keys = {"a", "b"}  Workers = {1}  Vals = {1, 2}  MaxNow = 2  MaxDelay = 1
PROPERTIES PutWhileHeldIsRedelivered
CHECK_DEADLOCK FALSE
