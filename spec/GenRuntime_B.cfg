SPECIFICATION GenSpec
CONSTANTS Kinds = {"K1"}  Ids = {1, 2}  Ctrls = {"m", "q"}  Cfg <- CfgB  Alt <- AltNoneMQ  Cached = {}  MaxWrites = 7  MaxFaults = 0  Noops = TRUE  MapTo <- MapSame
CHECK_DEADLOCK FALSE
