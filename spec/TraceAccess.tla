----------------------------- MODULE TraceAccess -----------------------------
(* Judge for C08: every line is one row of the matrix executed through the real runtime *)
(* adapters, with the outcome class and the target's value afterwards.                  *)
EXTENDS Access, Json, IOUtils, SequencesExt
TraceLog == ndJsonDeserialize(IOEnv.TRACE)
VARIABLES l, nbad
AbsRow(e) == [fl |-> e.fl, outs |-> ToSet(e.outs), ins |-> {[typ |-> i.typ, id |-> i.id, kind |-> i.kind] : i \in ToSet(e.ins)},
              op |-> e.op, typ |-> e.typ, id |-> e.id, ex |-> e.ex, opt |-> e.opt]
AbsV(j) == [ver |-> j.ver, owner |-> j.owner, phase |-> j.phase, fins |-> ToSet(j.fins)]
Init == l = 1 /\ nbad = 0
Check(e) ==
  LET exp == Expected(AbsRow(e)) IN
  IF exp.cls # e.cls
  THEN PrintT(<<"MISMATCH", e.tid, l, IF exp.allowed THEN "outcome-class" ELSE "denied-operation-not-rejected">>)
       /\ PrintT(<<"DETAIL", ToString(exp), ToString([cls |-> e.cls, after |-> AbsV(e.after)])>>) /\ nbad' = nbad + 1
  ELSE IF exp.after # AbsV(e.after)
  THEN PrintT(<<"MISMATCH", e.tid, l, IF exp.cls = "ok" THEN "effect" ELSE "rejected-operation-changed-state">>)
       /\ PrintT(<<"DETAIL", ToString(exp), ToString([cls |-> e.cls, after |-> AbsV(e.after)])>>) /\ nbad' = nbad + 1
  ELSE nbad' = nbad
Next == l <= Len(TraceLog) /\ l' = l + 1 /\ (IF TraceLog[l].ev = "row" THEN Check(TraceLog[l]) ELSE nbad' = nbad)
Spec == Init /\ [][Next]_<<l, nbad>>
Consumed == TLCGet("stats").diameter - 1
Post == PrintT(<<"CONSUMED", Consumed>>) /\ Consumed = Len(TraceLog)
=============================================================================
