------------------------------- MODULE Filter -------------------------------
(***************************************************************************)
(* state.Filter (pkg/state/filter.go): a CoreState wrapper that consults a *)
(* rule exactly once per call, with the access the call makes             *)
(* (namespace, type, id - empty for kind-wide calls - and verb), before    *)
(* anything else; a denied call returns the rule's error and never reaches *)
(* the wrapped state, an allowed call is the wrapped state's call.         *)
(***************************************************************************)
EXTENDS TLC
ReadVerbs == {"get", "list", "watch"}
WriteVerbs == {"create", "update", "destroy"}
VerbOf(op) == CASE op \in {"watch", "watchkind", "watchkindagg"} -> "watch" [] OTHER -> op
KindWide(op) == op \in {"list", "watchkind", "watchkindagg"}
AccessOf(op, k) == [ns |-> k.ns, typ |-> k.typ, id |-> IF KindWide(op) THEN "" ELSE k.id, verb |-> VerbOf(op)]
(* the rule used by the driver (any total predicate would do; this one denies something of every verb) *)
Deny(a) == \/ a.verb \in WriteVerbs /\ a.id = "b"
           \/ a.verb = "list" /\ a.typ = "test/str"
           \/ a.verb = "watch" /\ a.id = "a"
           \/ a.verb = "get" /\ a.ns = "n2"
(* what one call through the filter must look like *)
CallOK(op, k, acc, ncalls, ninner, cls, innerCls) ==
  /\ ncalls = 1
  /\ acc = AccessOf(op, k)
  /\ IF Deny(AccessOf(op, k)) THEN ninner = 0 /\ cls = "denied"
     ELSE ninner = 1 /\ cls = innerCls /\ cls # "denied"
=============================================================================
