---------------------------- MODULE TraceSelector ----------------------------
(* Judge for the selector table (C14): for every row (a list of label queries) and every site of the real code, *)
(* the set of label maps the site matched must be the set the algebra gives.  ID-regexp rows: all sites agree.    *)
EXTENDS Selector, Json, IOUtils, SequencesExt
TraceLog == ndJsonDeserialize(IOEnv.TRACE)
VARIABLES l, nbad
AbsT(j) == [op |-> j.op, vals |-> j.vals, invert |-> j.invert]
AbsRow(js) == [i \in 1..Len(js) |-> [k \in 1..Len(js[i]) |-> AbsT(js[i][k])]]
Expected(row) == {m \in Maps : QueriesMatch(m, row)}
Check(e) ==
  IF e.kind = "label"
  THEN LET exp == Expected(AbsRow(e.row)) IN
       IF ToSet(e.matched) # exp
       THEN PrintT(<<"MISMATCH", e.site, l, "selector-differs-from-algebra">>) /\ PrintT(<<"DETAIL", ToString([row |-> e.row, expected |-> exp]), ToString(ToSet(e.matched))>>) /\ nbad' = nbad + 1
       ELSE nbad' = nbad
  ELSE IF ToSet(e.matched) # ToSet(e.reference)
       THEN PrintT(<<"MISMATCH", e.site, l, "id-selector-differs-between-sites">>) /\ PrintT(<<"DETAIL", ToString([re |-> e.re, reference |-> e.reference]), ToString(e.matched)>>) /\ nbad' = nbad + 1
       ELSE nbad' = nbad
Init == l = 1 /\ nbad = 0
Next == l <= Len(TraceLog) /\ l' = l + 1 /\ Check(TraceLog[l])
Spec == Init /\ [][Next]_<<l, nbad>>
Consumed == TLCGet("stats").diameter - 1
Post == PrintT(<<"CONSUMED", Consumed>>) /\ Consumed = Len(TraceLog)
=============================================================================
