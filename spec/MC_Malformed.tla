---------------------------- MODULE MC_Malformed ----------------------------
EXTENDS Malformed
ShapeJson(s) == s
VARIABLE x
Init == x = 0 /\ PrintT(<<"BEH", ToJson(SetToSeq(Shapes))>>)
Next == x' = x
Spec == Init /\ [][Next]_x
LatticeWellFormed == \A s \in Shapes : MustReject(s) \in BOOLEAN

=============================================================================
