SPECIFICATION Spec
CONSTANTS Actors <- A3  Programs <- ProgramsFins
INVARIANTS ObligationsMet NoMissedWakeup
PROPERTIES NeverRemovedWithFinalizers OnTopOfCurrent VersionStep CtxCancelHonest 
CHECK_DEADLOCK FALSE
