SPECIFICATION Spec
CONSTANTS MaxExt = 7  Finalizers = FALSE
INVARIANTS FinBeforeOut C06
CHECK_DEADLOCK FALSE
