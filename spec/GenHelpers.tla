----------------------------- MODULE GenHelpers -----------------------------
(* Schedule generator for the helper drivers: simulation of the implementation- *)
(* level model Helpers; the history is the sequence of scheduling decisions     *)
(* ("actor a takes its next underlying call" / "deliver to actor a").           *)
EXTENDS MC_Helpers, Json, IOUtils

VARIABLES sched, done
gvars == <<store, prog, pi, pc, loc, wact, wq, ret, cancelled, ninc, nw, bad, sched, done>>
GenDepth == IF "GEN_DEPTH" \in DOMAIN IOEnv THEN atoi(IOEnv.GEN_DEPTH) ELSE 60

Quiet == \A a \in Actors : Done(a) \/ Blocked(a)

GStep(a) == Step(a) /\ sched' = Append(sched, [a |-> a, k |-> "step"]) /\ UNCHANGED done
GDeliver(a) == WatchDeliver(a) /\ sched' = Append(sched, [a |-> a, k |-> "deliver"]) /\ UNCHANGED done

Finish == /\ ~done /\ (Quiet \/ Len(sched) >= GenDepth)
          /\ PrintT(<<"BEH", ToJson([prog |-> prog, sched |-> sched])>>)
          /\ done' = TRUE
          /\ UNCHANGED vars /\ UNCHANGED sched

GenInit == Init /\ sched = <<>> /\ done = FALSE
(* GEN_ALT=1: prefer (3 in 4) a step of an actor other than the one that moved last, so that single underlying calls *)
(* of different callers alternate (create / destroy landing between the Get and the Create / Update of a helper)   *)
Alt == "GEN_ALT" \in DOMAIN IOEnv /\ IOEnv.GEN_ALT = "1"
Others == IF sched = <<>> THEN Actors ELSE Actors \ {sched[Len(sched)].a}
(* GEN_LEAD=n: actor 1 takes its first n calls alone (a history the race then builds on), in half of the behaviours *)
Lead == IF "GEN_LEAD" \in DOMAIN IOEnv THEN atoi(IOEnv.GEN_LEAD) ELSE 0
GenNext == IF Quiet \/ Len(sched) >= GenDepth THEN Finish
           ELSE /\ ~done
                /\ \E coin \in {RandomElement(1..4)} :
                     IF Lead > 0 /\ pi[1] <= Lead /\ ENABLED Step(1) /\ (sched = <<>> \/ sched[1].a = 1) THEN GStep(1)
                     ELSE IF Alt /\ coin > 1 /\ (\E b \in Others : ENABLED Step(b))
                     THEN \E b \in Others : GStep(b)
                     ELSE \E a \in Actors : GStep(a) \/ GDeliver(a)
GenSpec == GenInit /\ [][GenNext]_gvars
=============================================================================
