----------------------------- MODULE GenHelpers -----------------------------
(* Schedule generator for the helper drivers: simulation of the implementation- *)
(* level model Helpers; the history is the sequence of scheduling decisions     *)
(* ("actor a takes its next underlying call" / "deliver to actor a").           *)
EXTENDS MC_Helpers, Json, IOUtils

VARIABLES sched, done
gvars == <<store, prog, pi, pc, loc, wact, wq, ret, cancelled, ninc, nw, bad, sched, done>>
GenDepth == IF "GEN_DEPTH" \in DOMAIN IOEnv THEN atoi(IOEnv.GEN_DEPTH) ELSE 60

Quiet == \A a \in Actors : Done(a) \/ Blocked(a)

GStep(a) == Step(a) /\ sched' = Append(sched, [a |-> a, k |-> "step"]) /\ UNCHANGED done
GDeliver(a) == WatchDeliver(a) /\ sched' = Append(sched, [a |-> a, k |-> "deliver"]) /\ UNCHANGED done

Finish == /\ ~done /\ (Quiet \/ Len(sched) >= GenDepth)
          /\ PrintT(<<"BEH", ToJson([prog |-> prog, sched |-> sched])>>)
          /\ done' = TRUE
          /\ UNCHANGED vars /\ UNCHANGED sched

GenInit == Init /\ sched = <<>> /\ done = FALSE
GenNext == IF Quiet \/ Len(sched) >= GenDepth THEN Finish
           ELSE ~done /\ \E a \in Actors : GStep(a) \/ GDeliver(a)
GenSpec == GenInit /\ [][GenNext]_gvars
=============================================================================
