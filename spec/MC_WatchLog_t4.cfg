SPECIFICATION Spec
CONSTANTS InitCap = 1  MaxCap = 1  Gap = 0  Ids = {1, 2}  MaxPub = 6  W = {1}  Tails = {1, 2}  BBs = {FALSE, TRUE}
INVARIANTS RingCorrect NoBadDelivery ErroredOnlyIfLagged QuietComplete RecentBookmarksAccepted AcceptedBookmarkRetained
CHECK_DEADLOCK FALSE
