SPECIFICATION Spec
CONSTANTS MaxExt = 7  Deps = {1, 2}
INVARIANT C06
PROPERTIES ReleaseOnlyWithoutDependents InputGoneOnlyWithoutDependents
CHECK_DEADLOCK FALSE
