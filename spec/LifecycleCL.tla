----------------------------- MODULE LifecycleCL -----------------------------
(***************************************************************************)
(* Cleanup controller (cleanup.NewController with HasNoOutputs), C07:      *)
(* it puts its finalizer on running inputs and releases it on a            *)
(* tearing-down input only after its removal handler found no dependent    *)
(* output left.  Dependents are created by an external actor only while    *)
(* the parent is running (protocol assumption) and destroyed at any time.  *)
(***************************************************************************)
EXTENDS Integers, FiniteSets, TLC
CONSTANTS MaxExt, Deps
VARIABLES in, deps, ext, pc, lin, ldeps, dirty
vars == <<in, deps, ext, pc, lin, ldeps, dirty>>
Absent == [ex |-> FALSE, ph |-> "run", fins |-> {}]
C == "CL"
Init == in = Absent /\ deps = {} /\ ext = 0 /\ pc = "idle" /\ lin = Absent /\ ldeps = {} /\ dirty = TRUE
ExtStep(nin, nd) == ext < MaxExt /\ ext' = ext + 1 /\ in' = nin /\ deps' = nd /\ dirty' = TRUE /\ UNCHANGED <<pc, lin, ldeps>>
Ext == \/ ~in.ex /\ ExtStep([ex |-> TRUE, ph |-> "run", fins |-> {}], deps)
       \/ in.ex /\ in.ph = "run" /\ ExtStep([in EXCEPT !.ph = "td"], deps)
       \/ in.ex /\ in.fins = {} /\ ExtStep(Absent, deps)
       \/ in.ex /\ in.ph = "run" /\ \E d \in Deps \ deps : ExtStep(in, deps \cup {d})
       \/ \E d \in deps : ExtStep(in, deps \ {d})
K == UNCHANGED <<ext, deps>>
C0 == pc = "idle" /\ dirty /\ pc' = "p" /\ dirty' = FALSE /\ lin' = in /\ UNCHANGED <<in, ldeps>> /\ K
P == /\ pc = "p" /\ K /\ UNCHANGED <<lin, dirty>>
     /\ IF ~lin.ex THEN pc' = "idle" /\ UNCHANGED <<in, ldeps>>
        ELSE IF lin.ph = "run"
        THEN /\ pc' = "idle" /\ UNCHANGED ldeps
             /\ in' = IF C \notin lin.fins /\ in.ex THEN [in EXCEPT !.fins = @ \cup {C}] ELSE in
        ELSE IF C \notin lin.fins THEN pc' = "idle" /\ UNCHANGED <<in, ldeps>>
        ELSE pc' = "h" /\ ldeps' = deps /\ UNCHANGED in           \* the removal handler lists the dependents
H == /\ pc = "h" /\ K /\ UNCHANGED <<lin, ldeps>>
     /\ IF ldeps # {} THEN pc' = "idle" /\ UNCHANGED <<in, dirty>>     \* skip: wait for the dependents to go
        ELSE /\ pc' = "idle" /\ dirty' = TRUE
             /\ in' = IF in.ex THEN [in EXCEPT !.fins = @ \ {C}] ELSE in
Ctrl == C0 \/ P \/ H
Next == Ext \/ Ctrl
Spec == Init /\ [][Next]_vars
(* the finalizer is released only when no dependent is left *)
ReleaseOnlyWithoutDependents == [][(C \in in.fins /\ in'.ex /\ C \notin in'.fins) => deps = {}]_vars
InputGoneOnlyWithoutDependents == [][(in.ex /\ ~in'.ex /\ C \in in.fins) => FALSE]_vars
Quiescent == pc = "idle" /\ ~dirty
Converged == /\ (in.ex /\ in.ph = "run") => C \in in.fins
             /\ (in.ex /\ in.ph = "td" /\ deps = {}) => C \notin in.fins
             /\ (in.ex /\ in.ph = "td" /\ deps # {}) => (C \in lin.fins => C \in in.fins)
C06 == Quiescent => Converged
=============================================================================
