SPECIFICATION Spec
CONSTANTS Ids = {1, 2}  Readers = {1, 2}  MaxOps = 6  MaxVer = 2
INVARIANTS NoReadBeforeBootstrap BlockedOnlyBeforeBootstrap CtxCancelIff CtxCurrent
CHECK_DEADLOCK FALSE
