SPECIFICATION GenSpec
CONSTANTS InitCap <- EnvInitCap  MaxCap <- EnvMaxCap  Gap <- EnvGap
  Ids = {1, 2}  MaxPub = 14  W = {1, 2, 3, 4}  Tails = {1, 2, 3, 7}  BBs = {FALSE, TRUE}
CHECK_DEADLOCK FALSE
