SPECIFICATION GenSpec
CONSTANTS Kinds = {"K1", "K2"}  Ids = {1, 2}  Ctrls = {"q"}  Cfg <- CfgH  Alt <- AltNoneQ  Cached = {}  MaxWrites = 7  MaxFaults = 0  Noops = TRUE  MapTo <- MapSame
CHECK_DEADLOCK FALSE
