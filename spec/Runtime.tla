------------------------------ MODULE Runtime ------------------------------
(***************************************************************************)
(* The controller runtime's notification pipeline (C05, C15, C16),         *)
(* structured like runtime.go: per watched kind an aggregated watcher      *)
(* producing batches into watchCh; the dedup goroutine (take a batch,      *)
(* acquire the single dedup map from `empty` or `ch`, process events -     *)
(* which also updates the read cache -, drain, hand the map over); the     *)
(* delivery goroutine (take the map, take one key, hand the map back,      *)
(* look up dependents, trigger them); reduced-runtime controllers with a   *)
(* capacity-1 event channel and per-input destroy-ready filters; queue     *)
(* controllers (primary / mapped / mapped-destroy-ready routing into a     *)
(* set-like queue, start-up listing of primaries); controller failures     *)
(* with restart and a fresh trigger.                                       *)
(***************************************************************************)
EXTENDS Integers, Sequences, FiniteSets, TLC

CONSTANTS Kinds, Ids,          \* resources are (kind, id)
          Ctrls,               \* controller names
          Cfg,                 \* Cfg[c] = [fl |-> "r"|"q", ins |-> set of [k, id, ik], late |-> BOOLEAN]
          Cached,              \* set of cached kinds
          MaxWrites, MaxFaults,
          Alt,                 \* Alt[c] = inputs controller c switches to by UpdateInputs ({} = it never does)
          Noops,               \* TRUE: the environment may send batches that carry nothing (bookmarks)
          MapTo(_, _)          \* mapper of queue controllers: (kind, id) of a mapped input -> set of primary [k, id]

NoId == 0
Keys == [k : Kinds, id : Ids]
Absent == [ver |-> 0, td |-> FALSE, fe |-> TRUE]
None == [ver |-> -1, td |-> FALSE, fe |-> FALSE]
DestroyReady(v) == v.td /\ v.fe

VARIABLES store, nw,
          wpend, watchCh,                 \* per-kind events not yet batched; channel of batches
          ddpc, ddev, mloc, m,            \* dedup goroutine; location and contents of the dedup map
          dlpc, dlkey,                    \* delivery goroutine
          cache, boot, bsent,             \* read cache contents, bootstrapped flag, bootstrap batch sent (per cached kind)
          started,                        \* controllers whose adapter runs
          alt,                            \* controllers that already switched to their alternative inputs (UpdateInputs)
          ech, cpc, robs,                 \* reduced runtime: event channel, location, last observation per key
          queue, qpc, qitem, qobs, need,  \* queue runtime: pending items, worker location, item in hand, last observation per primary key,
                                          \* ghost: primaries a mapped change still has to reach
          faults

vars == <<store, nw, wpend, watchCh, ddpc, ddev, mloc, m, dlpc, dlkey, cache, boot, bsent, started, alt, alt,
          ech, cpc, robs, queue, qpc, qitem, qobs, need, faults>>

Ins(c) == IF alt[c] THEN Alt[c] ELSE Cfg[c].ins      \* the inputs currently declared
RC == {c \in Ctrls : Cfg[c].fl = "r"}
QC == {c \in Ctrls : Cfg[c].fl = "q"}
Matches(i, key) == i.k = key.k /\ (i.id = NoId \/ i.id = key.id)
(* routing of the dependency database *)
Dependents(key) == {c \in started : \E i \in Ins(c) : Matches(i, key)}
(* what a reader sees: cached kinds are read from the cache *)
ReadVal(key) == IF key.k \in Cached THEN cache[key] ELSE store[key]
CanRead(key) == key.k \notin Cached \/ boot[key.k]

Init ==
  /\ store = [key \in Keys |-> Absent] /\ nw = 0
  /\ wpend = [k \in Kinds |-> <<>>] /\ watchCh = <<>>
  /\ ddpc = "wait" /\ ddev = <<>> /\ mloc = "empty" /\ m = [key \in Keys |-> None]
  /\ dlpc = "wait" /\ dlkey = <<>>
  /\ cache = [key \in Keys |-> Absent] /\ boot = [k \in Kinds |-> FALSE] /\ bsent = [k \in Kinds |-> FALSE]
  /\ started = {c \in Ctrls : ~Cfg[c].late} /\ alt = [c \in Ctrls |-> FALSE]
  /\ ech = [c \in Ctrls |-> 1]                \* registration triggers an initial reconcile
  /\ cpc = [c \in Ctrls |-> "idle"]
  /\ robs = [c \in Ctrls |-> [key \in Keys |-> Absent]]
  /\ queue = [c \in Ctrls |-> {}] /\ qpc = [c \in Ctrls |-> "idle"] /\ qitem = [c \in Ctrls |-> <<>>]
  /\ qobs = [c \in Ctrls |-> [key \in Keys |-> Absent]] /\ need = [c \in Ctrls |-> {}]
  /\ faults = 0

(* ---------------------------------------------------------------- writes *)
NewVals(v) == IF v.ver = 0 THEN {[ver |-> 1, td |-> FALSE, fe |-> TRUE]}
              ELSE {[v EXCEPT !.ver = @ + 1, !.fe = ~@], [v EXCEPT !.ver = @ + 1, !.td = TRUE]}
                   \cup (IF v.fe THEN {Absent} ELSE {})
Write(key) ==
  /\ nw < MaxWrites
  /\ \E nv \in NewVals(store[key]) :
       /\ store' = [store EXCEPT ![key] = nv]
       /\ wpend' = [wpend EXCEPT ![key.k] = Append(@, [key |-> key, val |-> IF nv = Absent THEN store[key] ELSE nv, del |-> nv = Absent])]
       /\ need' = [c \in Ctrls |->
                     IF c \in QC /\ c \in started
                     THEN need[c]
                          \cup (IF \E i \in Ins(c) : i.k = key.k /\ i.ik = "qMapped"
                                THEN {[p |-> p, src |-> key, dr |-> FALSE] : p \in MapTo(key.k, key.id)} ELSE {})
                          \cup (IF nv # Absent /\ DestroyReady(nv) /\ \E i \in Ins(c) : i.k = key.k /\ i.ik = "qMappedDestroyReady"
                                THEN {[p |-> p, src |-> key, dr |-> TRUE] : p \in MapTo(key.k, key.id)} ELSE {})
                     ELSE need[c]]
  /\ nw' = nw + 1
  /\ UNCHANGED <<watchCh, ddpc, ddev, mloc, m, dlpc, dlkey, cache, boot, bsent, started, alt, ech, cpc, robs, queue, qpc, qitem, qobs, faults>>

(* the aggregated watcher of kind k sends what it has as one batch; the first batch of a cached kind is the bootstrap *)
WatcherBatch(k) ==
  /\ Len(watchCh) < 3
  /\ wpend[k] # <<>> \/ (k \in Cached /\ ~bsent[k])
  /\ watchCh' = Append(watchCh, [k |-> k, evs |-> wpend[k], bootstrap |-> (k \in Cached /\ ~bsent[k])])
  /\ bsent' = [bsent EXCEPT ![k] = TRUE]
  /\ wpend' = [wpend EXCEPT ![k] = <<>>]
  /\ UNCHANGED <<store, nw, ddpc, ddev, mloc, m, dlpc, dlkey, cache, boot, started, alt, ech, cpc, robs, queue, qpc, qitem, qobs, need, faults>>

(* a batch that carries nothing to notify about (the bookmark a watch sends when it is established: a controller registered, *)
(* or UpdateInputs added an input of a kind not watched before).  An action of the environment: it is not part of Internal,   *)
(* so it neither keeps the system from being quiescent nor is it needed for progress                                          *)
WatcherNoop(k) ==
  /\ Noops /\ Len(watchCh) < 3
  /\ \A i \in 1..Len(watchCh) : watchCh[i].evs # <<>> \/ watchCh[i].bootstrap    \* at most one such batch in flight (bounds the model)
  /\ \E key \in Keys : m[key] # None                                            \* (an empty batch while the map is empty changes nothing)
  /\ watchCh' = Append(watchCh, [k |-> k, evs |-> <<>>, bootstrap |-> FALSE])
  /\ UNCHANGED <<store, nw, wpend, ddpc, ddev, mloc, m, dlpc, dlkey, cache, boot, bsent, started, alt, ech, cpc, robs, queue, qpc, qitem, qobs, need, faults>>

(* ---------------------------------------------------------------- dedup *)
RECURSIVE ApplyM(_, _), ApplyC(_, _)
ApplyM(mm, evs) == IF evs = <<>> THEN mm ELSE ApplyM([mm EXCEPT ![Head(evs).key] = Head(evs).val], Tail(evs))
ApplyC(cc, evs) == IF evs = <<>> THEN cc
                   ELSE ApplyC([cc EXCEPT ![Head(evs).key] = IF Head(evs).del THEN Absent ELSE Head(evs).val], Tail(evs))
(* processEvents: cache first, then the dedup map *)
Process(batch) ==
  /\ m' = ApplyM(m, batch.evs)
  /\ cache' = IF batch.k \in Cached THEN ApplyC(cache, batch.evs) ELSE cache
  /\ boot' = IF batch.bootstrap THEN [boot EXCEPT ![batch.k] = TRUE] ELSE boot

DDTake == /\ ddpc = "wait" /\ watchCh # <<>> /\ ddev' = <<Head(watchCh)>> /\ watchCh' = Tail(watchCh) /\ ddpc' = "acquire"
          /\ UNCHANGED <<store, nw, wpend, mloc, m, dlpc, dlkey, cache, boot, bsent, started, alt, ech, cpc, robs, queue, qpc, qitem, qobs, need, faults>>
DDAcquire == /\ ddpc = "acquire" /\ mloc \in {"empty", "ch"} /\ mloc' = "dd" /\ Process(ddev[1]) /\ ddev' = <<>> /\ ddpc' = "drain"
             /\ UNCHANGED <<store, nw, wpend, watchCh, dlpc, dlkey, bsent, started, alt, ech, cpc, robs, queue, qpc, qitem, qobs, need, faults>>
DDDrain == /\ ddpc = "drain"
           /\ \/ /\ watchCh # <<>> /\ Process(Head(watchCh)) /\ watchCh' = Tail(watchCh) /\ UNCHANGED <<ddpc, mloc>>
              \/ /\ watchCh = <<>> /\ ddpc' = "wait" /\ UNCHANGED <<m, watchCh, cache, boot>>
                 /\ mloc' = IF \A key \in Keys : m[key] = None THEN "empty" ELSE "ch"
           /\ UNCHANGED <<store, nw, wpend, ddev, dlpc, dlkey, bsent, started, alt, ech, cpc, robs, queue, qpc, qitem, qobs, need, faults>>

(* ------------------------------------------------------------- delivery *)
DLTake == /\ dlpc = "wait" /\ mloc = "ch"
          /\ \E key \in {x \in Keys : m[x] # None} : dlkey' = <<key, m[key]>> /\ m' = [m EXCEPT ![key] = None]
          /\ mloc' = "dl" /\ dlpc' = "return"
          /\ UNCHANGED <<store, nw, wpend, watchCh, ddpc, ddev, cache, boot, bsent, started, alt, ech, cpc, robs, queue, qpc, qitem, qobs, need, faults>>
DLReturn == /\ dlpc = "return" /\ mloc' = (IF \A key \in Keys : m[key] = None THEN "empty" ELSE "ch") /\ dlpc' = "trigger"
            /\ UNCHANGED <<store, nw, wpend, watchCh, ddpc, ddev, m, dlkey, cache, boot, bsent, started, alt, ech, cpc, robs, queue, qpc, qitem, qobs, need, faults>>

(* reduced runtime: skip only if every matching input filters the event out *)
RTriggered(c, key, v) == \E i \in Ins(c) : Matches(i, key) /\ (i.ik = "destroyReady" => DestroyReady(v))
(* queue runtime: every input of the kind routes the event (the id of the input is not consulted) *)
QItems(c, key, v) ==
  UNION {IF i.ik = "qPrimary" THEN {[job |-> "rec", key |-> key]}
         ELSE IF i.ik = "qMapped" \/ (i.ik = "qMappedDestroyReady" /\ DestroyReady(v)) THEN {[job |-> "map", key |-> key]}
         ELSE {} : i \in {x \in Ins(c) : x.k = key.k}}
DLTrigger ==
  /\ dlpc = "trigger"
  /\ LET key == dlkey[1]  v == dlkey[2]  deps == Dependents(key) IN
     /\ ech' = [c \in Ctrls |-> IF c \in deps /\ c \in RC /\ RTriggered(c, key, v) THEN 1 ELSE ech[c]]
     /\ queue' = [c \in Ctrls |-> IF c \in deps /\ c \in QC THEN queue[c] \cup QItems(c, key, v) ELSE queue[c]]
  /\ dlpc' = "wait" /\ dlkey' = <<>>
  /\ UNCHANGED <<store, nw, wpend, watchCh, ddpc, ddev, mloc, m, cache, boot, bsent, started, alt, cpc, robs, qpc, qitem, qobs, need, faults>>

(* ----------------------------------------------------- reduced controllers *)
RInputKeys(c) == {key \in Keys : \E i \in Ins(c) : Matches(i, key)}
CWake(c) == /\ c \in RC /\ c \in started /\ cpc[c] = "idle" /\ ech[c] = 1
            /\ ech' = [ech EXCEPT ![c] = 0] /\ cpc' = [cpc EXCEPT ![c] = "busy"]
            /\ UNCHANGED <<store, nw, wpend, watchCh, ddpc, ddev, mloc, m, dlpc, dlkey, cache, boot, bsent, started, alt, robs, queue, qpc, qitem, qobs, need, faults>>
CRead(c) == /\ c \in RC /\ cpc[c] = "busy" /\ \A key \in RInputKeys(c) : CanRead(key)
            /\ robs' = [robs EXCEPT ![c] = [key \in Keys |-> IF key \in RInputKeys(c) THEN ReadVal(key) ELSE @[key]]]
            /\ cpc' = [cpc EXCEPT ![c] = "idle"]
            /\ UNCHANGED <<store, nw, wpend, watchCh, ddpc, ddev, mloc, m, dlpc, dlkey, cache, boot, bsent, started, alt, ech, queue, qpc, qitem, qobs, need, faults>>
(* inside a reconcile the controller replaces its inputs (UpdateInputs): routing follows at once *)
CUpdate(c) == /\ c \in RC /\ cpc[c] = "busy" /\ ~alt[c] /\ Alt[c] # {}
              /\ alt' = [alt EXCEPT ![c] = TRUE]
              /\ UNCHANGED <<store, nw, wpend, watchCh, ddpc, ddev, mloc, m, dlpc, dlkey, cache, boot, bsent, started, ech, cpc, robs, queue, qpc, qitem, qobs, need, faults>>
(* the reconcile fails (error or panic): restart after back-off with a fresh trigger *)
CFail(c) == /\ c \in RC /\ cpc[c] = "busy" /\ faults < MaxFaults
            /\ faults' = faults + 1 /\ cpc' = [cpc EXCEPT ![c] = "idle"] /\ ech' = [ech EXCEPT ![c] = 1]
            /\ UNCHANGED <<store, nw, wpend, watchCh, ddpc, ddev, mloc, m, dlpc, dlkey, cache, boot, bsent, started, alt, robs, queue, qpc, qitem, qobs, need>>

(* ------------------------------------------------------- queue controllers *)
QGet(c) == /\ c \in QC /\ c \in started /\ qpc[c] = "idle" /\ queue[c] # {}
           /\ \E it \in queue[c] : qitem' = [qitem EXCEPT ![c] = <<it>>] /\ queue' = [queue EXCEPT ![c] = @ \ {it}]
           /\ qpc' = [qpc EXCEPT ![c] = "busy"]
           /\ UNCHANGED <<store, nw, wpend, watchCh, ddpc, ddev, mloc, m, dlpc, dlkey, cache, boot, bsent, started, alt, ech, cpc, robs, qobs, need, faults>>
QRun(c) == /\ c \in QC /\ qpc[c] = "busy"
           /\ LET it == qitem[c][1] IN
              IF it.job = "rec"
              THEN /\ CanRead(it.key)
                   /\ qobs' = [qobs EXCEPT ![c][it.key] = ReadVal(it.key)] /\ UNCHANGED queue
                   /\ need' = [need EXCEPT ![c] = {x \in @ : x.p # it.key}]
              ELSE /\ queue' = [queue EXCEPT ![c] = @ \cup {[job |-> "rec", key |-> p] : p \in MapTo(it.key.k, it.key.id)}]
                   /\ UNCHANGED <<qobs, need>>
           /\ qpc' = [qpc EXCEPT ![c] = "idle"] /\ qitem' = [qitem EXCEPT ![c] = <<>>]
           /\ UNCHANGED <<store, nw, wpend, watchCh, ddpc, ddev, mloc, m, dlpc, dlkey, cache, boot, bsent, started, alt, ech, cpc, robs, faults>>
(* a failing item is retried (back-off elided) *)
QFail(c) == /\ c \in QC /\ qpc[c] = "busy" /\ faults < MaxFaults
            /\ faults' = faults + 1 /\ queue' = [queue EXCEPT ![c] = @ \cup {qitem[c][1]}]
            /\ qpc' = [qpc EXCEPT ![c] = "idle"] /\ qitem' = [qitem EXCEPT ![c] = <<>>]
            /\ UNCHANGED <<store, nw, wpend, watchCh, ddpc, ddev, mloc, m, dlpc, dlkey, cache, boot, bsent, started, alt, ech, cpc, robs, qobs, need>>

(* registration after start: the watch exists before the adapter runs; a queue controller lists its primaries *)
QPrimaries(c) == {key \in Keys : \E i \in Ins(c) : i.ik = "qPrimary" /\ i.k = key.k}
StartLate(c) ==
  /\ c \notin started /\ started' = started \cup {c} /\ UNCHANGED alt
  /\ queue' = [queue EXCEPT ![c] = IF c \in QC THEN {[job |-> "rec", key |-> key] : key \in {x \in QPrimaries(c) : ReadVal(x).ver > 0}} ELSE @]
  /\ UNCHANGED <<store, nw, wpend, watchCh, ddpc, ddev, mloc, m, dlpc, dlkey, cache, boot, bsent, ech, cpc, robs, qpc, qitem, qobs, need, faults>>

Internal == \/ \E k \in Kinds : WatcherBatch(k)
            \/ DDTake \/ DDAcquire \/ DDDrain \/ DLTake \/ DLReturn \/ DLTrigger
            \/ \E c \in Ctrls : CWake(c) \/ CRead(c) \/ CUpdate(c) \/ CFail(c) \/ QGet(c) \/ QRun(c) \/ QFail(c) \/ StartLate(c)
Next == Internal \/ (\E key \in Keys : Write(key)) \/ (\E k \in Kinds : WatcherNoop(k))
Spec == Init /\ [][Next]_vars

-----------------------------------------------------------------------------
Quiescent == ~ENABLED Internal

(* C05: when nothing can move, every controller has seen the current state of its inputs *)
RObserved(c) ==
  \A i \in Ins(c) : \A key \in {x \in Keys : Matches(i, x)} :
     IF i.ik = "destroyReady"
     THEN (store[key].ver > 0 /\ DestroyReady(store[key])) => robs[c][key] = store[key]
     ELSE robs[c][key] = store[key]
QObserved(c) ==
  \A key \in QPrimaries(c) : (store[key].ver > 0 \/ qobs[c][key].ver > 0) => qobs[c][key] = store[key]
(* a destroy-ready mapped input only matters while the resource still is ready to be destroyed *)
MappedReachesPrimaries ==
  Quiescent => \A c \in QC : \A x \in need[c] : x.dr /\ ~(store[x.src].ver > 0 /\ DestroyReady(store[x.src]))
NoLostWakeup == Quiescent => \A c \in started : IF c \in RC THEN RObserved(c) ELSE QObserved(c)

(* C15 *)
CacheCoherentWhenQuiet == Quiescent => \A key \in Keys : key.k \in Cached => (boot[key.k] /\ cache[key] = store[key])
=============================================================================
