SPECIFICATION Spec
CONSTANTS Kinds = {"K1"}  Ids = {1, 2}  Ctrls = {"w", "d"}  Cfg <- CfgA  Alt <- AltNoneWD  Cached = {}  MaxWrites = 3  MaxFaults = 0  Noops = TRUE  MapTo <- MapSame
INVARIANTS NoLostWakeup MappedReachesPrimaries CacheCoherentWhenQuiet
CHECK_DEADLOCK FALSE
