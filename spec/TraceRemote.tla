----------------------------- MODULE TraceRemote -----------------------------
(***************************************************************************)
(* Differential judge for gRPC transparency (C11): every request is        *)
(* executed on the wrapped state directly ("d") and through client adapter *)
(* -> real gRPC -> server ("r") on an identically initialised second       *)
(* state.  Both observations must be equal (class, predicate vector,       *)
(* written-back / returned objects incl. version, owner and the update-    *)
(* time fact, readiness, full contents) and the direct one must be what    *)
(* the sequential specification Store says.  Watch streams started         *)
(* identically on both sides must be equal event for event.  Against a     *)
(* server without the teardown RPCs the fallback must be sticky.           *)
(***************************************************************************)
EXTENDS Store, Json, IOUtils, SequencesExt
TraceLog == ndJsonDeserialize(IOEnv.TRACE)
VARIABLES l, tid, bad
tvars == <<store, res, l, tid, bad>>
AbsV(j) == [ver |-> j.ver, owner |-> j.owner, phase |-> j.phase, fins |-> ToSet(j.fins),
            labels |-> {<<p[1], p[2]>> : p \in ToSet(j.labels)}, spec |-> j.spec, cr |-> j.cr]
AbsK(j) == [ns |-> j.ns, typ |-> j.typ, id |-> j.id]
AbsKVs(js) == {<<AbsK(p.k), AbsV(p.v)>> : p \in ToSet(js)}
NoCr(kvs) == {<<p[1], [p[2] EXCEPT !.cr = 0]>> : p \in kvs}
AbsReq(e, side) ==
  LET o == AbsV(e.req.obj)
      mine == {p \in ToSet(side.contents) : AbsK(p.k) = AbsK(e.req.k)}
      cr == IF e.req.op = "create" /\ mine # {} THEN (CHOOSE p \in mine : TRUE).v.cr ELSE o.cr
  IN [op |-> e.req.op, k |-> AbsK(e.req.k), owner |-> e.req.owner, exp |-> e.req.exp,
      obj |-> [o EXCEPT !.cr = cr, !.owner = IF e.req.op = "create" THEN e.req.owner ELSE o.owner]]
Init == store = Empty /\ res = [cls |-> "ok", out |-> {}] /\ l = 1 /\ tid = "" /\ bad = FALSE
Reject(what, exp, got) ==
  /\ PrintT(<<"MISMATCH", tid, l, what>>) /\ PrintT(<<"DETAIL", ToString(exp), ToString(got)>>)
  /\ bad' = TRUE /\ UNCHANGED <<store, res, tid>>
Pair(e) ==
  LET r == AbsReq(e, e.d) IN
  IF e.d.cls # e.r.cls THEN Reject("error-class-differs", e.d.cls, e.r.cls)
  ELSE IF e.d.pv # e.r.pv THEN Reject("error-predicates-differ", e.d.pv, e.r.pv)
  ELSE IF NoCr(AbsKVs(e.d.out)) # NoCr(AbsKVs(e.r.out)) THEN Reject("write-back-or-result-differs", AbsKVs(e.d.out), AbsKVs(e.r.out))
  ELSE IF e.d.updfact # e.r.updfact THEN Reject("update-time-write-back-differs", e.d.updfact, e.r.updfact)
  ELSE IF e.d.ready # e.r.ready THEN Reject("teardown-readiness-differs", e.d.ready, e.r.ready)
  ELSE IF NoCr(AbsKVs(e.d.contents)) # NoCr(AbsKVs(e.r.contents)) THEN Reject("contents-differ", AbsKVs(e.d.contents), AbsKVs(e.r.contents))
  ELSE IF e.d.cls \notin Outcomes(r) THEN Reject("class-not-in-specification", Outcomes(r), e.d.cls)
  ELSE IF AbsKVs(e.d.contents) # PairsOf(NewStore(r, e.d.cls)) THEN Reject("contents-not-in-specification", NewStore(r, e.d.cls), AbsKVs(e.d.contents))
  ELSE Do(r, e.d.cls) /\ UNCHANGED <<tid, bad>>
Watch(e) == IF e.d # e.r THEN Reject("watch-streams-differ", [w |-> e.w, direct |-> e.d], e.r)
            ELSE UNCHANGED <<store, res, tid, bad>>
Sticky(e) == IF e.legacy /\ (e.tdRpc > 1 \/ e.tadRpc > 1) THEN Reject("fallback-not-sticky", [td |-> 1, tad |-> 1], [td |-> e.tdRpc, tad |-> e.tadRpc])
             ELSE IF ~e.legacy /\ (e.tdRpc # e.tdCalls \/ e.tadRpc # e.tadCalls) THEN Reject("native-rpc-not-used", [td |-> e.tdCalls, tad |-> e.tadCalls], [td |-> e.tdRpc, tad |-> e.tadRpc])
             ELSE UNCHANGED <<store, res, tid, bad>>
Next == /\ l <= Len(TraceLog) /\ l' = l + 1
        /\ LET e == TraceLog[l] IN
             IF e.ev = "reset" THEN store' = Empty /\ res' = [cls |-> "ok", out |-> {}] /\ tid' = e.tid /\ bad' = FALSE
             ELSE IF bad THEN UNCHANGED <<store, res, tid, bad>>
             ELSE CASE e.ev = "pair" -> Pair(e)
                    [] e.ev = "watch" -> Watch(e)
                    [] e.ev = "sticky" -> Sticky(e)
                    [] OTHER -> UNCHANGED <<store, res, tid, bad>>
Spec == Init /\ [][Next]_tvars
Consumed == TLCGet("stats").diameter - 1
Post == PrintT(<<"CONSUMED", Consumed>>) /\ Consumed = Len(TraceLog)
=============================================================================
