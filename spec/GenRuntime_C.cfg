SPECIFICATION GenSpec
CONSTANTS Kinds = {"K1", "K2"}  Ids = {1}  Ctrls = {"q", "s"}  Cfg <- CfgC  Alt <- AltNoneQS  Cached = {"K1"}  MaxWrites = 7  MaxFaults = 0  Noops = TRUE  MapTo <- MapSame
CHECK_DEADLOCK FALSE
