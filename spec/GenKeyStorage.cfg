SPECIFICATION GenSpec
CONSTANTS SlotIds = {1, 2, 3}  KeyPairs = {1, 2, 3}  MaxOps = 14
CHECK_DEADLOCK FALSE
