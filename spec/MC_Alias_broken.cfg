SPECIFICATION Spec
CONSTANTS Handles = {1, 2, 3}  Vals = {"a", "b"}  MaxOps = 6  Broken = TRUE
PROPERTIES MutationIsLocal
CHECK_DEADLOCK FALSE
