---------------------------- MODULE GenLifecycle ----------------------------
(* External-operation histories for the lifecycle drivers (C06, C07): operations on two   *)
(* inputs and their outputs by an external actor, interleaved with arming / releasing the *)
(* transform gate (so that operations land while a reconcile is in flight) and transient   *)
(* transform failures.  Operations that do not apply to the real state are skipped by the  *)
(* driver.                                                                                *)
EXTENDS Integers, Sequences, TLC, Json, IOUtils
VARIABLES hist, done
GenDepth == IF "GEN_DEPTH" \in DOMAIN IOEnv THEN atoi(IOEnv.GEN_DEPTH) ELSE 30
Ops == <<"create", "create", "update", "update", "td", "td", "destroy", "destroy", "addX", "remX", "addF", "remF",
         "arm", "release", "release", "failnext", "wait">>
Init == hist = <<>> /\ done = FALSE
Step == \E op \in {Ops[RandomElement(1..Len(Ops))]}, id \in {RandomElement({1, 1, 2})}, v \in {RandomElement({1, 2, 3})} :
           hist' = Append(hist, [c |-> op, id |-> id, v |-> v]) /\ UNCHANGED done
Finish == ~done /\ PrintT(<<"BEH", ToJson(hist)>>) /\ done' = TRUE /\ UNCHANGED hist
Next == IF Len(hist) >= GenDepth THEN Finish ELSE ~done /\ Step
Spec == Init /\ [][Next]_<<hist, done>>
=============================================================================
