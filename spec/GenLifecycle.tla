---------------------------- MODULE GenLifecycle ----------------------------
(* External-operation histories for the lifecycle drivers (C06, C07): operations on two   *)
(* inputs and their outputs by an external actor, interleaved with arming / releasing the *)
(* transform gate (so that operations land while a reconcile is in flight), transient      *)
(* transform failures, and - holdw / stepw / freew - parking the controller's own store    *)
(* writes and releasing them one at a time, so that external operations land between any   *)
(* two writes of a reconcile.  Operations that do not apply to the real state are skipped  *)
(* by the driver.                                                                          *)
EXTENDS Integers, Sequences, TLC, Json, IOUtils
VARIABLES hist, done, held
GenDepth == IF "GEN_DEPTH" \in DOMAIN IOEnv THEN atoi(IOEnv.GEN_DEPTH) ELSE 30
(* setC / delC: the secondary input of the same id (configurations with an extra input kind; ignored by the others) *)
ExtOps == <<"create", "create", "update", "td", "td", "destroy", "destroy", "addX", "remX", "addF", "addF", "remF", "setC", "setC", "delC">>
FreeOps == ExtOps \o <<"arm", "release", "release", "failnext", "wait", "holdw", "holdw">>
HeldOps == <<"stepw", "stepw", "stepw", "stepw", "stepw", "freew">> \o ExtOps
Init == hist = <<>> /\ done = FALSE /\ held = FALSE
(* "skipmode" (at most once, in the last third of a history): from then on the transform function asks to skip the reconcile *)
(* (SkipReconcileTag): outputs that exist stay as they are, no new output appears, clean-up of torn-down inputs goes on       *)
LateOps == FreeOps \o <<"skipmode">>
Skipped == \E i \in 1..Len(hist) : hist[i].c = "skipmode"
Step == \E op \in {IF held THEN HeldOps[RandomElement(1..Len(HeldOps))]
                   ELSE IF 3 * Len(hist) > 2 * GenDepth /\ ~Skipped THEN LateOps[RandomElement(1..Len(LateOps))]
                   ELSE FreeOps[RandomElement(1..Len(FreeOps))]},
           id \in {RandomElement({1, 1, 2})}, v \in {RandomElement({1, 2, 3})} :
           /\ hist' = Append(hist, [c |-> op, id |-> id, v |-> v])
           /\ held' = IF op = "holdw" THEN TRUE ELSE IF op = "freew" THEN FALSE ELSE held
           /\ UNCHANGED done
Finish == ~done /\ PrintT(<<"BEH", ToJson(hist)>>) /\ done' = TRUE /\ UNCHANGED <<hist, held>>
Next == IF Len(hist) >= GenDepth THEN Finish ELSE ~done /\ Step
Spec == Init /\ [][Next]_<<hist, done, held>>
=============================================================================
