SPECIFICATION Spec
CONSTANTS Actors <- A3  Programs <- ProgramsRecreate
INVARIANTS ObligationsMet NoMissedWakeup
PROPERTIES NeverRemovedWithFinalizers OnTopOfCurrent VersionStep CtxCancelHonest 
CHECK_DEADLOCK FALSE
