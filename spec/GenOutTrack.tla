---------------------------- MODULE GenOutTrack ----------------------------
(* Behaviour generator for the output-tracking driver: random walks of OutTrack with weighted  *)
(* action classes; the command sequence is printed as JSON and replayed on the real runtime.   *)
EXTENDS OutTrack, Json, IOUtils
VARIABLES hist, done
K4 == <<"tA/a", "tA/b", "tB/a", "tB/b">>
GenDepth == IF "GEN_DEPTH" \in DOMAIN IOEnv THEN atoi(IOEnv.GEN_DEPTH) ELSE 30
gvars == <<vars, hist, done>>
Classes == <<"write", "write", "write", "write", "start", "cleanup", "cleanup", "ext", "ext", "restart", "twin", "twin", "twin">>
WOps == <<"create", "modify", "modify", "teardown", "destroy">>
XOps == <<"xcreate", "xaddfin", "xaddfin", "xremfin", "xdestroy">>
Cmd(c, k, ks) == [c |-> c, k |-> k, ks |-> ks]
GenInit == Init /\ hist = <<>> /\ done = FALSE
XStep(op, k) ==
  CASE op = "xcreate" -> XCreate(k) [] op = "xaddfin" -> XAddFin(k) [] op = "xremfin" -> XRemFin(k) [] OTHER -> XDestroy(k)
GenStep ==
  \E cl \in {Classes[RandomElement(1..Len(Classes))]}, k \in {RandomElement(KeySet)}, ks \in {RandomElement(KindLists)},
     w \in {WOps[RandomElement(1..Len(WOps))]}, x \in {XOps[RandomElement(1..Len(XOps))]} :
     /\ UNCHANGED done
     /\ IF cl # "twin" THEN UNCHANGED tw ELSE TRUE
     /\ IF cl = "twin"
        THEN \E t \in {IF tw.tracking THEN RandomElement({"tmodify", "tcleanup"}) ELSE RandomElement({"tstart", "tstart", "tmodify"})} :
               /\ (CASE t = "tstart" -> TStart [] t = "tmodify" -> TModify [] OTHER -> TCleanup)
               /\ hist' = Append(hist, Cmd(t, "tA/a", <<>>))
        ELSE IF cl = "write" THEN Write(w, k) /\ hist' = Append(hist, Cmd(w, k, <<>>))
        ELSE IF cl = "start" THEN Start /\ hist' = Append(hist, Cmd("start", "tA/a", <<>>))
        ELSE IF cl = "cleanup" THEN Cleanup(ks) /\ hist' = Append(hist, Cmd("cleanup", "tA/a", ks))
        ELSE IF cl = "restart" THEN Restart /\ hist' = Append(hist, Cmd("restart", "tA/a", <<>>))
        ELSE IF ENABLED XStep(x, k) THEN XStep(x, k) /\ hist' = Append(hist, Cmd(x, k, <<>>))
        ELSE UNCHANGED vars /\ hist' = Append(hist, Cmd("nop", "tA/a", <<>>))
Finish == ~done /\ PrintT(<<"BEH", ToJson(hist)>>) /\ done' = TRUE /\ UNCHANGED <<vars, hist>>
GenNext == IF Len(hist) >= GenDepth THEN Finish ELSE ~done /\ GenStep
GenSpec == GenInit /\ [][GenNext]_gvars
=============================================================================
