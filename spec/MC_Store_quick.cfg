SPECIFICATION Spec
CONSTANTS
  Ids = {"a", "b"}
  Namespaces = {"n1"}
  Types = {"test/int"}
  Owners = {"", "A"}
  FinSet = {"f"}
  Specs = {1, 2}
  MaxVer = 2
  LabelSets <- NoLabels
  Crs = {0, 1}
INVARIANT TypeOK
PROPERTIES FailedLeavesUntouched VersionDiscipline NeverRemovedWithFinalizers OneKeyPerStep
VIEW View
CHECK_DEADLOCK FALSE
