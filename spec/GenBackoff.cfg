SPECIFICATION GenSpec
CONSTANTS MaxLen = 100  Delays = {0, 100, 700, 3000}
CHECK_DEADLOCK FALSE
