SPECIFICATION RSpec
CONSTANTS
  Ids = {"a", "b", ""}
  Namespaces = {"n1"}
  Types = {"test/int", "test/str"}
  Owners = {"", "A", "B"}
  FinSet = {"f", "g"}
  Specs = {1, 2}
  MaxVer = 2
  LabelSets <- TwoLabelSets
  Crs = {0, 1}
INVARIANT Emit
CHECK_DEADLOCK FALSE
