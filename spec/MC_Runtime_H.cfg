SPECIFICATION Spec
CONSTANTS Kinds = {"K1", "K2"}  Ids = {1, 2}  Ctrls = {"q"}  Cfg <- CfgH  Alt <- AltNoneQ  Cached = {}  MaxWrites = 3  MaxFaults = 0  Noops = FALSE  MapTo <- MapSame
INVARIANTS NoLostWakeup MappedReachesPrimaries CacheCoherentWhenQuiet
CHECK_DEADLOCK FALSE
