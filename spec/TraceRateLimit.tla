--------------------------- MODULE TraceRateLimit ---------------------------
(* Judge for the rate-limit driver: each line is one call of a probe controller through its runtime handle with the  *)
(* virtual time (ms) at which it was issued and at which it returned, and the number of tokens it must have taken     *)
(* (mutating calls: 1; reads: 0; CleanupOutputs: one per destroyed resource).  The bucket of RateLimit.tla is replayed.*)
EXTENDS Integers, Sequences, TLC, Json, IOUtils
CONSTANTS Rate, Burst
TraceLog == ndJsonDeserialize(IOEnv.TRACE)
VARIABLES tok, at, l, bad, tid
tvars == <<tok, at, l, bad, tid>>
Cap == Burst * 1000
Min(a, b) == IF a < b THEN a ELSE b
Refill(tk, from, t) == Min(Cap, tk + Rate * (t - from))
WaitFor(tk) == IF tk >= 1000 THEN 0 ELSE ((1000 - tk) + Rate - 1) \div Rate
(* <<finish time, tokens, at>> after taking n tokens one after the other starting at time t *)
RECURSIVE Take(_, _, _, _)
Take(n, t, tk, from) ==
  IF n = 0 THEN <<t, tk, from>>
  ELSE LET cur == Refill(tk, from, t)
           w == WaitFor(cur)
       IN Take(n - 1, t + w, Refill(cur, t, t + w) - 1000, t + w)
TInit == tok = Cap /\ at = 0 /\ l = 1 /\ bad = FALSE /\ tid = ""
Line(e) ==
  IF e.ev = "reset" THEN tok' = Cap /\ at' = e.t0 /\ bad' = FALSE /\ tid' = e.tid
  ELSE IF bad THEN UNCHANGED <<tok, at, bad, tid>>
  ELSE LET r == Take(e.tokens, e.t0, tok, at) IN
       IF e.t1 < r[1] - 1
       THEN /\ PrintT(<<"MISMATCH", tid, l, IF e.t1 = e.t0 THEN "change-not-rate-limited" ELSE "change-released-too-early">>)
            /\ PrintT(<<"DETAIL", ToString([c |-> e.c, tokens |-> e.tokens, issued |-> e.t0, bucket |-> tok, expectedReturn |-> r[1]]), ToString(e.t1)>>)
            /\ bad' = TRUE /\ UNCHANGED <<tok, at, tid>>
       ELSE IF e.t1 > r[1] + 1
       THEN /\ PrintT(<<"MISMATCH", tid, l, IF e.tokens = 0 THEN "read-rate-limited" ELSE "change-delayed-longer-than-the-policy">>)
            /\ PrintT(<<"DETAIL", ToString([c |-> e.c, tokens |-> e.tokens, issued |-> e.t0, bucket |-> tok, expectedReturn |-> r[1]]), ToString(e.t1)>>)
            /\ bad' = TRUE /\ UNCHANGED <<tok, at, tid>>
       ELSE tok' = r[2] /\ at' = r[3] /\ UNCHANGED <<bad, tid>>
TNext == l <= Len(TraceLog) /\ l' = l + 1 /\ Line(TraceLog[l])
TSpec == TInit /\ [][TNext]_tvars
Consumed == TLCGet("stats").diameter - 1
Post == PrintT(<<"CONSUMED", Consumed>>) /\ Consumed = Len(TraceLog)
=============================================================================
