-------------------------------- MODULE Codec --------------------------------
(***************************************************************************)
(* Codec case analysis (C18): a record flows through a stack of layers     *)
(* (protobuf marshaler; compression with its "0x00 <id>" marker applied    *)
(* only at or above a size threshold; AES-GCM encryption with version byte *)
(* and nonce), in any stacking, on both sides of the threshold; then it is *)
(* tampered with (per region), truncated, or decoded with a wrong key.     *)
(* The specification says which outcome classes are acceptable.            *)
(***************************************************************************)
EXTENDS Integers, Sequences, FiniteSets, TLC
Stackings == {"pb", "zstd", "zstd-big", "enc", "enc-zstd", "zstd-enc"}
(* outermost layer last *)
LayersOf(s) == CASE s = "pb" -> <<"pb">> [] s = "zstd" -> <<"pb", "zstd">> [] s = "zstd-big" -> <<"pb", "zstdbig">>
                 [] s = "enc" -> <<"pb", "enc">> [] s = "enc-zstd" -> <<"pb", "zstd", "enc">> [] s = "zstd-enc" -> <<"pb", "enc", "zstd">>
HasEnc(s) == \E i \in 1..Len(LayersOf(s)) : LayersOf(s)[i] = "enc"
Sizes == {"small", "large"}        \* encoded size below / at-or-above the compression threshold (16 bytes; zstdbig: 1 MiB)
Compressed(s, size) == \E i \in 1..Len(LayersOf(s)) : LayersOf(s)[i] = "zstd" /\ (size = "large" \/ LayersOf(s)[i - 1] = "enc")
(* first byte of the encoded form decides raw-vs-compressed: 0x00 marker only if compressed *)
FirstByte(s, size) == LET top == LayersOf(s)[Len(LayersOf(s))] IN
                      IF top \in {"zstd", "zstdbig"} THEN (IF Compressed(s, size) /\ top = "zstd" THEN "0x00"
                                                         ELSE IF LayersOf(s)[Len(LayersOf(s)) - 1] = "enc" THEN "0x01" ELSE "pbtag")
                      ELSE IF top = "enc" THEN "0x01" ELSE "pbtag"
DispatchUnambiguous == \A s \in Stackings, z \in Sizes : (FirstByte(s, z) = "0x00") <=> (Compressed(s, z) /\ LayersOf(s)[Len(LayersOf(s))] = "zstd")

Tampers == {"none", "truncate", "subst", "wrongkey"}
Outcomes == {"same", "error", "different", "panic"}
(* acceptable outcomes *)
Acceptable(s, t) ==
  CASE t = "none" -> {"same"}
    [] t = "wrongkey" -> IF HasEnc(s) THEN {"error"} ELSE {"same"}
    [] HasEnc(s) -> {"error", "same"}                 \* any tampering with an encrypted record is detected (or is immaterial)
    [] OTHER -> {"error", "same", "different"}        \* plain records: decoders are total, no promise of detection
NeverPanic == \A s \in Stackings, t \in Tampers : "panic" \notin Acceptable(s, t)
EncryptedNeverDifferent == \A s \in Stackings, t \in Tampers \ {"none"} : HasEnc(s) => "different" \notin Acceptable(s, t)

(* abstract metadata shapes whose concrete instances must survive every codec *)
(* txt / tv: which kind of text the strings of the metadata are (id, owner, a finalizer, a label value, an annotation value):     *)
(* plain, or one of the scalars a text format gives a meaning of its own to - the YAML null / boolean / number spellings,         *)
(* structural characters, leading / trailing blanks and line breaks; tv picks the variant                                          *)
BaseShapes == [id : {"a", "with/slash", "unicode"}, ver : {0, 1, 1000000000}, phase : {"running", "tearingDown"}, nfins : {0, 1, 3},
               nlabels : {0, 2}, nann : {0, 1}, ts : {"zero", "sec", "nano"}, owner : {"", "ctl"}, size : Sizes, txt : {"plain"}, tv : {0}]
TextShapes == [id : {"a"}, ver : {1}, phase : {"running"}, nfins : {1}, nlabels : {2}, nann : {1}, ts : {"sec"}, owner : {"ctl"}, size : {"small"},
               txt : {"null", "bool", "num", "struct", "blank"}, tv : 0..3]
(* generic: a resource of a type that is NOT registered travels as a generic protobuf resource whose spec has one (YAML) or two *)
(* (YAML and protobuf bytes) representations; both have to survive every stacking of the store marshalers                      *)
GenericShapes == [id : {"a", "unicode"}, ver : {1}, phase : {"running"}, nfins : {1}, nlabels : {2}, nann : {1}, ts : {"sec", "nano"}, owner : {"ctl"},
                  size : {"small"}, txt : {"generic-yaml", "generic-both"}, tv : {0}]
Shapes == BaseShapes \cup TextShapes \cup GenericShapes
=============================================================================
